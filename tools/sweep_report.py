#!/usr/bin/env python3
"""Triage aid: list the first-order edits of a property's sweep with their status and the changed lines.

usage: tools/sweep_report.py Cxx [survived|analysis-error|killed]
"""
import difflib, os, sys
sys.path.insert(0, os.path.dirname(os.path.dirname(os.path.abspath(__file__))))
from multiprocessing import Pool
from gwfsa.loader import Repo
from gwfsa.mutsweep import generate, _one

prop = sys.argv[1].upper()
want = sys.argv[2] if len(sys.argv) > 2 else None
repo = Repo()
jobs, seen = [], set()
for name, rel, src in generate(prop, None):
    if (rel, src) in seen:
        continue
    seen.add((rel, src))
    jobs.append((prop, None, name, rel, src))
with Pool(16) as pool:
    results = pool.map(_one, jobs, chunksize=4)
for job, r in zip(jobs, results):
    if r["status"] == "syntax" or (want and r["status"] != want):
        continue
    old = repo.read(job[3]).split("\n")
    new = job[4].split("\n")
    d = [l for l in difflib.unified_diff(old, new, lineterm="", n=0) if not l.startswith(("---", "+++", "@@"))]
    print(f"[{r['status']}] {r['name']} {','.join(r.get('rules', []))}")
    for l in d[:8]:
        print("      " + l[:170])

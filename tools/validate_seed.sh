#!/bin/sh
# usage: tools/validate_seed.sh <dir with patch.diff demo.py>   -> prints CLEAN=<rc> PATCHED=<rc> SUITE=<summary>
# Runs in a throw-away worktree of /repo HEAD under /tmp, removed afterwards.
D="$(cd "$1" && pwd)"; N="$(echo "$D" | tr '/' '_')"
WT=/tmp/vs_$N
git -C /repo worktree add --detach "$WT" HEAD -q >/dev/null 2>&1 || { echo "worktree failed"; exit 2; }
mkdir -p "$WT/out/mX"; cp "$D/demo.py" "$WT/out/mX/demo.py"
cd "$WT"
PYTHONPATH="$WT/src:$WT" timeout 120 /venv/bin/python out/mX/demo.py >/tmp/vs_$N.clean.log 2>&1; CLEAN=$?
if git apply "$D/patch.diff" 2>/tmp/vs_$N.apply.log; then
  PYTHONPATH="$WT/src:$WT" timeout 120 /venv/bin/python out/mX/demo.py >/tmp/vs_$N.patched.log 2>&1; PATCHED=$?
  SUITE=$(PYTHONPATH="$WT/src" /venv/bin/python -m pytest -q -p no:cacheprovider --timeout=900 --continue-on-collection-errors 2>&1 | tail -1)
else
  PATCHED=applyfail; SUITE=-
fi
cd /; git -C /repo worktree remove --force "$WT"; rm -f /tmp/vs_$N.*.log
echo "$1 CLEAN=$CLEAN PATCHED=$PATCHED SUITE=$SUITE"

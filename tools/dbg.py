"""Debug helper: build a Ctx on /repo (optionally with a patch applied in memory)."""
import sys
sys.path.insert(0, "/verif")
from gwfsa.consteval import Evaluator
from gwfsa.index import Index
from gwfsa.loader import Repo
from gwfsa.report import Ctx
from gwfsa.resolve import Resolver


def ctx_for(prop="C00", patch=None, root=None):
    overrides = None
    if patch:
        from gwfsa.selftest import apply_unified_diff
        overrides = apply_unified_diff(Repo(root).read, open(patch).read())
    repo = Repo(root, overrides)
    index = Index(repo)
    ev = Evaluator(index)
    ctx = Ctx(prop, repo, index, ev, "quick")
    ctx.resolver = Resolver(index, ev)
    return ctx

#!/bin/sh
# usage: tools/validate_feature.sh <dir with patch.diff demo.py>  -> prints DEMO=<clean rc>/<patched rc> SUITE=<summary>
# A property-preserving *feature* change: the demonstration exercises the property and must exit 0 on the clean tree and with the patch (its output may differ).
# Runs in a throw-away worktree of /repo HEAD under /tmp (removed afterwards).
D="$(cd "$1" && pwd)"; N="$(echo "$D" | tr '/' '_')"
WT=/tmp/vf_$N
for i in 1 2 3 4 5 6; do
  git -C /repo worktree add --detach "$WT" HEAD -q >/dev/null 2>&1 && break
  sleep $i
done
[ -d "$WT" ] || { echo "$1 worktree failed"; exit 2; }
mkdir -p "$WT/out/pX"; cp "$D/demo.py" "$WT/out/pX/demo.py"
cd "$WT"
PYTHONPATH="$WT/src:$WT" timeout 600 /venv/bin/python out/pX/demo.py >/dev/null 2>&1; C=$?
if git apply "$D/patch.diff" 2>/dev/null; then
  PYTHONPATH="$WT/src:$WT" timeout 600 /venv/bin/python out/pX/demo.py >/dev/null 2>&1; P=$?
  SUITE=$(PYTHONPATH="$WT/src" /venv/bin/python -m pytest -q -p no:cacheprovider --timeout=900 --continue-on-collection-errors 2>&1 | tail -1)
else
  P=applyfail; SUITE=-
fi
cd /; git -C /repo worktree remove --force "$WT"
echo "$1 DEMO=$C/$P SUITE=$SUITE"

#!/usr/bin/env python3
"""Print the DESIGN.md table (markdown) of the seeded changes of one round from seeded/MATRIX.json: usage tools/design_table.py <round> [m-from m-to]"""
import json, os, sys
M = json.load(open("/verif/seeded/MATRIX.json"))
rnd = int(sys.argv[1])
print("| change | family | file(s) | own rules | also reported by |")
print("|---|---|---|---|---|")
for k in sorted(M, key=lambda s: (s.split("-")[0], int(s.split("-m")[1]) if "-m" in s else 0)):
    mp = f"/verif/seeded/{k}/meta.json"
    if not os.path.exists(mp):
        continue
    meta = json.load(open(mp))
    if meta.get("round") != rnd:
        continue
    prop = meta["property"]
    fam = (meta.get("family") or meta.get("pitfall") or "")[:60].replace("|", "/")
    files = ", ".join(os.path.basename(f) for f in meta.get("files", []))
    own = " ".join(r.split(".")[1] for r in M[k].get(prop, {}).get("rules", []))
    if meta.get("expect"):
        own = own or f"({meta['expect']})"
    also = " ".join(p for p, e in sorted(M[k].items()) if p != prop and e.get("exit") == 1)
    print(f"| {k} | {fam} | {files} | {own} | {also} |")

#!/usr/bin/env python3
"""Round-2 helper: run the own-property check (in memory) on every finished /tmp/seed2/Cxx/out/mN."""
import glob, json, os, sys
sys.path.insert(0, os.path.dirname(os.path.dirname(os.path.abspath(__file__))))
from multiprocessing import Pool
from gwfsa.loader import Repo
from gwfsa.main import run_property, PROPS
from gwfsa.report import load_known
from gwfsa.selftest import apply_unified_diff

def one(d):
    meta = json.load(open(os.path.join(d, "meta.json")))
    prop = meta["property"]
    try:
        ov = apply_unified_diff(Repo().read, open(os.path.join(d, "patch.diff")).read())
    except ValueError as exc:
        return d, prop, "STALE", str(exc), []
    props = PROPS if "--all" in sys.argv else [prop]
    known, _ = load_known()
    hits, own = [], None
    for p in props:
        code, out, ctx = run_property(p, "quick", None, ov, write=False, quiet=True)
        rules = sorted({f.rule for f in ctx.findings if f.key not in known}) if ctx is not None else []
        if p == prop:
            own = (code, rules)
        elif code:
            hits.append(f"{p}:{code}")
    return d, prop, own[0], ",".join(own[1]), hits

if __name__ == "__main__":
    root = [a for a in sys.argv[1:] if not a.startswith("--")]
    pat = root[0] if root else "/tmp/seed2/C*/out/m*"
    dirs = sorted(d for d in glob.glob(pat) if os.path.exists(os.path.join(d, "meta.json")) and os.path.exists(os.path.join(d, "patch.diff")))
    with Pool(16) as pool:
        for d, prop, code, rules, hits in pool.map(one, dirs):
            print(f"{'ok  ' if code == 1 else 'MISS'} {d} own={prop} exit={code} {rules} also={' '.join(hits)}")

#!/usr/bin/env python3
"""Apply a unified diff to the current /repo tree IN MEMORY and run property checks on the result.

usage: tools/try_patch.py <patch.diff> [-R] [props...]     (default: all implemented properties)
"""
import os, sys
sys.path.insert(0, os.path.dirname(os.path.dirname(os.path.abspath(__file__))))
from gwfsa.selftest import apply_unified_diff
from gwfsa.loader import Repo
from gwfsa.main import run_property, PROPS
from gwfsa.report import load_known

args = sys.argv[1:]
rev = "-R" in args
args = [a for a in args if a != "-R"]
diff = open(args[0]).read()
props = [a.upper() for a in args[1:]] or PROPS
ov = apply_unified_diff(Repo().read, diff, reverse=rev)
known, _ = load_known()
for p in props:
    code, out, ctx = run_property(p, "quick", None, ov, write=False, quiet=True)
    if ctx is None:
        print(p, "exit", code, out[0][:150]); continue
    new = [f for f in ctx.findings if f.key not in known]
    if new or code:
        print(p, "exit", code)
        for f in new[:8]:
            print("   ", f.rule, f.where, "-", f.message[:200])
            if "-v" in os.environ.get("TRY_VERBOSE", ""):
                for w in f.witness: print("        ", w)

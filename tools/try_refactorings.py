#!/usr/bin/env python3
"""Run ALL property checks (in memory) on every behaviour-preserving variant under a directory of <name>/patch.diff.
Any non-zero exit is a false alarm to be fixed.   usage: tools/try_refactorings.py <dir> [glob]"""
import glob, os, sys
sys.path.insert(0, os.path.dirname(os.path.dirname(os.path.abspath(__file__))))
from multiprocessing import Pool
from gwfsa.selftest import apply_unified_diff
from gwfsa.loader import Repo
from gwfsa.main import run_property, PROPS
from gwfsa.report import load_known

def one(args):
    name, diff = args
    known, _ = load_known()
    try:
        ov = apply_unified_diff(Repo().read, open(diff).read())
    except Exception as exc:
        return name, [("apply", 9, str(exc))]
    bad = []
    for p in PROPS:
        code, out, ctx = run_property(p, "quick", None, ov, write=False, quiet=True)
        if code != 0:
            new = [f for f in (ctx.findings if ctx else []) if f.key not in known]
            bad.append((p, code, [(f.rule, f.where, f.message[:160]) for f in new[:3]] or out[:1]))
    return name, bad

if __name__ == "__main__":
    base = sys.argv[1]
    pat = sys.argv[2] if len(sys.argv) > 2 else "*"
    jobs = [(os.path.relpath(os.path.dirname(d), base), d) for d in sorted(glob.glob(os.path.join(base, pat, "patch.diff")) + glob.glob(os.path.join(base, pat, "*", "*", "patch.diff")))]
    with Pool(16) as pool:
        res = pool.map(one, jobs)
    n_bad = 0
    for name, bad in res:
        if bad:
            n_bad += 1
            print("FALSE-ALARM", name)
            for b in bad:
                print("    ", b[0], "exit", b[1], b[2])
        else:
            print("silent     ", name)
    print(f"{len(res)} variants, {n_bad} with alarms")

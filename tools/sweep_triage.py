#!/usr/bin/env python3
"""One-off triage aid (NOT a check): which first-order edits survive ALL twenty property checks and also the test suite?

Those are the candidates to read by hand: each is either behaviour-preserving / outside every property, or a gap.
Scratch copies live under /tmp/sweeptri and are removed at the end.

usage: tools/sweep_triage.py [out.json]
"""
import difflib
import json
import os
import shutil
import subprocess
import sys
from multiprocessing import Pool

sys.path.insert(0, os.path.dirname(os.path.dirname(os.path.abspath(__file__))))
from gwfsa.loader import Repo
from gwfsa.main import PROPS, run_property
from gwfsa.mutsweep import generate
from gwfsa.report import load_known

SCRATCH = "/tmp/sweeptri"


def checks(job):
    name, rel, src, anchored = job
    flagged, errors = [], []
    known, _ = load_known()
    for p in PROPS:
        code, out, ctx = run_property(p, "quick", None, {rel: src}, write=False, quiet=True)
        if code == 1:
            flagged.append(p)
        elif code == 2:
            errors.append(p)
    return name, flagged, errors


def tests(job):
    i, name, rel, src = job
    d = os.path.join(SCRATCH, f"w{os.getpid()}")
    if not os.path.isdir(d):
        os.makedirs(d)
        for sub in ("src", "tests", "pyproject.toml", "README.rst"):
            s = os.path.join("/repo", sub)
            (shutil.copytree if os.path.isdir(s) else shutil.copy)(s, os.path.join(d, sub))
    target = os.path.join(d, rel)
    orig = open(target).read()
    open(target, "w").write(src)
    try:
        env = dict(os.environ, PYTHONPATH=os.path.join(d, "src"), PYTHONDONTWRITEBYTECODE="1")
        try:
            pr = subprocess.run(["/venv/bin/python", "-m", "pytest", "-q", "-x", "-p", "no:cacheprovider", "--timeout=60", "--continue-on-collection-errors",
                                 "--deselect", "tests/plugins", "--ignore=tests/plugins", "--ignore=tests/test_cli.py"], cwd=d, env=env, capture_output=True, text=True, timeout=300)
            tail = pr.stdout.strip().split("\n")[-1]
            passed = " passed" in tail and "failed" not in tail and "error" not in tail
        except subprocess.TimeoutExpired:
            tail, passed = "timeout", False
    finally:
        open(target, "w").write(orig)
    return name, passed, tail


def main():
    out_path = sys.argv[1] if len(sys.argv) > 1 else "/tmp/sweep_triage.json"
    repo = Repo()
    edits = {}
    for p in PROPS:
        for name, rel, src in generate(p, None):
            try:
                compile(src, rel, "exec")
            except SyntaxError:
                continue
            e = edits.setdefault((rel, src), {"name": name, "rel": rel, "src": src, "anchored": []})
            e["anchored"].append(p)
    jobs = [(e["name"], e["rel"], e["src"], e["anchored"]) for e in edits.values()]
    print(f"{len(jobs)} unique edits", flush=True)
    with Pool(16) as pool:
        res = pool.map(checks, jobs, chunksize=2)
    by_name = {e["name"]: e for e in edits.values()}
    surv = []
    for name, flagged, errors in res:
        by_name[name]["flagged"] = flagged
        by_name[name]["errors"] = errors
        if not flagged:
            surv.append(name)
    print(f"{len(surv)} edits flagged by no property; running the test suite on them", flush=True)
    tjobs = [(i, n, by_name[n]["rel"], by_name[n]["src"]) for i, n in enumerate(surv)]
    with Pool(14) as pool:
        tres = pool.map(tests, tjobs, chunksize=1)
    shutil.rmtree(SCRATCH, ignore_errors=True)
    report = []
    for name, passed, tail in tres:
        e = by_name[name]
        e["tests_pass"] = passed
        e["tests_tail"] = tail
    for e in edits.values():
        old = repo.read(e["rel"]).split("\n")
        new = e["src"].split("\n")
        d = [l for l in difflib.unified_diff(old, new, lineterm="", n=0) if not l.startswith(("---", "+++", "@@"))]
        report.append({"name": e["name"], "anchored": e["anchored"], "flagged": e.get("flagged", []), "errors": e.get("errors", []),
                       "tests_pass": e.get("tests_pass"), "tests_tail": e.get("tests_tail"), "diff": d[:10]})
    json.dump(report, open(out_path, "w"), indent=1)
    cand = [r for r in report if not r["flagged"] and r["tests_pass"]]
    print(f"{len(report)} edits: {sum(1 for r in report if r['flagged'])} flagged by some property, "
          f"{sum(1 for r in report if not r['flagged'] and r['tests_pass'] is False)} unflagged but killed by the tests, {len(cand)} survive both")


if __name__ == "__main__":
    main()

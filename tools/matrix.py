#!/usr/bin/env python3
"""Detection matrix: every seeded change (applied in memory to /repo's tree) x every property check.

usage: tools/matrix.py [--own] [--merge] [glob]     --own: only the variant's own property; --merge: update the rows of the matching variants in MATRIX.json
Writes /verif/seeded/MATRIX.json and prints one line per variant.
"""
import fnmatch
import json
import os
import sys
from multiprocessing import Pool

sys.path.insert(0, os.path.dirname(os.path.dirname(os.path.abspath(__file__))))
from gwfsa.loader import Repo
from gwfsa.main import PROPS, run_property
from gwfsa.report import VERIF, load_known
from gwfsa.selftest import apply_unified_diff


def one(job):
    name, prop, ov = job
    code, out, ctx = run_property(prop, "quick", None, ov, write=False, quiet=True)
    known, _ = load_known()
    rules = sorted({f.rule for f in ctx.findings if f.key not in known}) if ctx is not None else []
    return name, prop, code, rules


def main():
    args = sys.argv[1:]
    own = "--own" in args
    merge = "--merge" in args
    args = [a for a in args if a not in ("--own", "--merge")]
    pat = args[0] if args else "*"
    seeded = os.path.join(VERIF, "seeded")
    read = Repo().read
    jobs, metas = [], {}
    for name in sorted(os.listdir(seeded)):
        d = os.path.join(seeded, name)
        if not os.path.isdir(d) or not fnmatch.fnmatch(name, pat):
            continue
        meta = json.load(open(os.path.join(d, "meta.json")))
        metas[name] = meta
        try:
            ov = apply_unified_diff(read, open(os.path.join(d, "patch.diff")).read())
        except ValueError as exc:
            print(f"STALE {name}: {exc}")
            continue
        for p in ([meta["property"]] if own else PROPS):
            jobs.append((name, p, ov))
    with Pool(16) as pool:
        results = pool.map(one, jobs, chunksize=4)
    matrix = {}
    for name, prop, code, rules in results:
        matrix.setdefault(name, {})[prop] = {"exit": code, "rules": rules}
    missed = 0
    for name, row in matrix.items():
        ownp = metas[name]["property"]
        hit = [p for p, v in row.items() if v["exit"] == 1]
        err = [p for p, v in row.items() if v["exit"] == 2]
        ok = row.get(ownp, {}).get("exit") == 1
        missed += 0 if ok else 1
        print(f"{'ok  ' if ok else 'MISS'} {name:14s} own={ownp} rules={','.join(row.get(ownp, {}).get('rules', []))} also={','.join(p for p in hit if p != ownp)}"
              + (f" analysis-error={','.join(err)}" if err else ""))
    print(f"{len(matrix)} variants, {missed} missed by their own property's check")
    if not own and merge and pat != "*":
        full = json.load(open(os.path.join(seeded, "MATRIX.json")))
        full.update(matrix)
        matrix = full
    if not own and (pat == "*" or merge):
        with open(os.path.join(seeded, "MATRIX.json"), "w") as fh:
            json.dump(matrix, fh, indent=1, sort_keys=True)


if __name__ == "__main__":
    main()

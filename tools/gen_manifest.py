#!/usr/bin/env python3
"""Generate /verif/MANIFEST.json (kept valid at all times; run after adding/removing a property check)."""
import json, os
VERIF = os.path.dirname(os.path.dirname(os.path.abspath(__file__)))
P = {
 "C01": ("path table of should_run (False on exactly the fresh path), strict max(inputs) > min(outputs) over all flattened files, existence-before-mtime, no raw container reads in decision/effect code, flatten totality, one stat per path and one snapshot per command, has_changed path table, hash-after-accept",
         "decides the shape of the decision procedure on every path and for every container shape; stdlib max/min/os.stat semantics and the clock are trusted",
         "finite-domain path exploration + def-use of the comparison + site enumeration"),
 "C02": ("decision table of the scheduler's decision function over 6 backend states x deps pending x stale, one submit per path and nothing evaluated after it, dependency loop on every path, prerequisite set = all-but-COMPLETED evaluated from the source, memo wrapper discipline, cone selection expressions, id lookup by name",
         "fnmatch semantics and Python set iteration are trusted; the table is exhaustive over the abstract domain, not over concrete workflows",
         "decision-table extraction by abstract path exploration"),
 "C03": ("_norm_path normalises and joins on every return, producers registered before inputs are resolved (order independence), exact writers of provides/dependencies/dependents, endpoints formula and phantom-key hazard, info labels",
         "os.path.abspath/normpath semantics trusted", "structural rules over the graph constructor + who-writes enumeration"),
 "C04": ("three validators on every path to the constructed graph with guard<->error-kind tables (truth tables of the guards), cycle search rooted at every target with three-colour discipline, validation before any acting effect in every command, no recursion along dependency edges (3 known findings)",
         "that a correct three-colour DFS finds every cycle is an algorithmic fact that is assumed, only its shape, roots and error kind are checked",
         "must-pass-through + truth tables + call-graph SCC with argument provenance"),
 "C05": ("context-sensitive effect closure of `status` and of `run` under dry_run=True (constant and partial() bindings propagated): no submit/cancel/delete/state mutation/process outside call(); one shared schedule(); decision table; filter construction and plain restriction of the computed table; printers total on the empty table",
         "terminal rendering and click are trusted; the call graph over-approximates unknown receivers by method name (sound for absence claims)",
         "interprocedural effect analysis with partial evaluation of guards"),
 "C06": ("NECESSARY CHAIN ONLY (each link decided as in C01/C02/C03/C07/C08 incl. their evaluations): success codes map to COMPLETED/UNKNOWN, finished/unknown jobs fall through to the file decision, strict comparison, accepted submissions recorded and marked SUBMITTED, exact dependency relation, prerequisites reach the scheduler. The fixpoint over run/execute/perturb histories is NOT decided (run-time mtimes)",
         "each link is a necessary condition; convergence itself depends on run-time modification times and scheduler behaviour that no static argument bounds",
         "cross-property composition of table/path rules"),
 "C07": ("template-domain evaluation of every submit_target: with prerequisites [id1,id2,id3] the argv carries afterok:id1:id2:id3 / -hold_jid id1,id2,id3 / -w done(..)&&..; none when empty; ids stripped at the source; id list by name; local chain client->wire->scheduler->coroutine plus the C11 typestate",
         "decides the translation gwf -> command line; what Slurm/SGE/LSF do with it under every schedule is the trusted base",
         "abstract (template) evaluation of pure builders + typestate"),
 "C08": ("every documented state code of squeue/sacct/bjobs/qstat/local evaluated through the source's tables and predicates against frozen reference classes; format<->parser agreement; status/submit key agreement; what close() saves; sacct only under accounting_enabled, squeue overrides, batches cover all ids; pool-restart id reuse recorded as known finding",
         "reference tables are written from the man pages; invocation histories and stale accounting data are not enumerated",
         "table evaluation from the AST against reference + structural precedence/batching rules"),
 "C09": ("run body inside both stores' with-blocks, __exit__ closes on every path and never swallows, close() writes on every path (sound dirty flags only), hash only after accepted submit (exception edge at backend.submit), truth table of call()'s failure test, subprocess owners, atomic temp+os.replace after the with-block; missing per-submit durability point is a known finding",
         "what a real scheduler did when it printed garbage is not decided; os.replace atomicity is trusted",
         "path exploration with exception edges + structural pairing"),
 "C10": ("template-domain evaluation of the three compile_script builders: shebang, directives before commands, cd shlex-quoted, set -e before the spec, spec verbatim and last; log paths vs `gwf logs`/local pool/log modes; one directive per option with reference flags, omitted options leave no trace; option resolution evaluated on a witness configuration; log-cleaning guard truth table",
         "bash's execution of the emitted script and the schedulers' directive parsers are trusted",
         "abstract (template) evaluation of pure string builders + reference flag tables"),
 "C11": ("typestate over all paths of the task coroutine: process creation only after asyncio.wait over all dependency tasks (ALL_COMPLETED, no timeout) and a check loop that lets only COMPLETED pass; skipped task inherits a final non-completed state; COMPLETED only for exit status 0 (sign domain)",
         "asyncio.wait semantics trusted; one cancellation per task (established by C13.R3)", "typestate / path exploration with exception edge at every await"),
 "C12": ("acquire/release typestate on every path incl. CancelledError at each await, OSError at process start and log writes, KeyError at dependency lookups: no release without acquire, no leak, kill before release, acquire dominates start; semaphore sized by --num-workers through the call chain",
         "FIFO fairness of asyncio.Semaphore ('a free core is never left idle') is not decided; only that slots are never lost or duplicated",
         "typestate / path exploration"),
 "C13": ("final state at every exit, cause<->state table, exit-status sign domain, cancel guard evaluated over the LocalStatus enum, single start per task, log buffers<->files and ordering, kill on both abort paths, group signal + reaping on every path of the kill sequence, session leader at creation",
         "OS signal delivery and process-group semantics trusted", "typestate / path exploration + enum-domain guard evaluation"),
 "C14": ("server/scheduler stop calls only under kind=='shutdown'; detached tasks; table owners; plain-dict tables; fresh ids from itertools.count; client sends vs server pops per kind; responses; EOF iteration cannot loop back without suspending",
         "byte-level behaviour of asyncio streams on arbitrary input is not decided", "structural isolation rules + one-iteration path exploration with an EOF domain"),
 "C15": ("delete sites enumerated package-wide; the delete argument ranges over flattened outputs of matched targets on a path where `in protected()` is false; filter construction; prompt dominates effects (explored over targets/force domains); invalidate per match; persistence of invalidations; normalisation shared with C03",
         "os.remove semantics trusted", "effect-site enumeration + path exploration with provenance"),
 "C16": ("all dependencies visited on every path before own touches, unbounded memo, only mkdir(parents)+touch(exist_ok) on flattened outputs of the visited target, hash update on every path, cone selection, parent directory created",
         "filesystem clock monotonicity trusted; recursion depth is C04.R4", "path exploration + effect enumeration"),
 "C17": ("backend.cancel in a try inside the loop whose handlers (by the real exception hierarchy) absorb BackendError and TargetError without leaving; selection expression; tracked id by name; unconditional hand-over to the scheduler; one cancel command per backend with the id; decision-table rows for resubmission",
         "that the scheduler carries out the cancel is trusted", "handler-coverage by class hierarchy + structural rules"),
 "C18": ("who-may-call update/invalidate/.hashes[]=; hash-after-accept path rule; preview closures (status, dry-run) contain no hash mutation; switch default off selects the effect-free store; key/hash agreement; persistence and atomic replace",
         "sha1 as content hash trusted", "who-may-call + effect closure + path exploration"),
 "C19": ("template fallback evaluated with the field default; default working_dir = dirname(realpath(defining file)); cwd sources enumerated; state paths derive from the workflow file; regular language of the name validator (anchors, alphabet) from the regex AST; path validator sees the whole string, converts PathLike, folded on a finite witness set; unique-name guard; map namers embed the index",
         "sys._getframe(2) denoting the defining file depends on attrs' generated __init__ and is not decided",
         "regex-AST analysis + taint-style site enumeration + abstract evaluation"),
 "C20": ("FileConfig.get/__setitem__/__delitem__/get_namespace evaluated abstractly on witness configurations (falsy values, coercion chain, default-only keys, prefix-sharing namespaces); CLI sub-commands; flag>config>default expressions for backend and colour (verbosity: known finding); namespace -> factory -> Ops field -> use site",
         "JSON value round-trip is stdlib behaviour and trusted", "abstract evaluation of pure accessors + structural precedence rules"),
}
W = ("abstract evaluation (gwfsa's own interpreter of a Python subset over symbolic objects, every external effect a recording hook; /repo is never imported or run) of the "
     "deciding function / whole command / task coroutine over a finite witness table incl. fault and cancellation injection; a structural verdict is overridden only by an agreeing evaluation")
ADD = {
 "C01": ("; should_run evaluated over 28 witness rows (ties, orders, missing/no outputs, spec changed); the use_spec_hashes switch read-back; snapshot per instance, follows symlinks; spec store loads what was saved; accessors re-evaluated after an in-place change of the attribute (no per-target memo); the hash recorded at submission equals the one the next invocation computes; FileSpecHashes.__exit__ persists on every exit", W),
 "C02": ("; filter_names evaluated over 15 pattern sets x list/one-shot iterables; opaque job ids (0 is a valid id); composition with C01 for the 'stale' column; the three <X>Ops evaluated against a model of the schedulers' command lines: 8 submissions on one Ops object (0..2050 prerequisites) and a job history with purged/finished jobs; submit functions are called only by schedule()", W),
 "C03": ("; relative results must be anchored (abspath); Graph.from_targets evaluated over 11 witness workflows in several definition orders; non-dict Mappings flatten to their values; distinct file names (case, Unicode normal form, blanks) stay distinct; accessors re-evaluated after an in-place change", W),
 "C04": ("; witness workflows (self-loop, unreachable 2-cycle, 3-cycle behind a tail, duplicate producers across spellings, missing source) evaluated through Graph.from_targets; stat snapshot per instance and per call; accessors re-evaluated after an in-place change (a rebuilt graph sees the new files)", W),
 "C05": ("; the group callback evaluated for found / not found / prompt declined; name filter over list and one-shot iterables; flag defaults; the backend constructor's state query reaches no submit/cancel/delete and changes nothing in the modelled queue; submit functions are called only by schedule()", W),
 "C06": ("; L7: the record made at an accepted submission is what the next invocation computes and survives the invocation (C01.R7); the scheduler command-line model through C07.R1 and C08.R1", W),
 "C07": ("; the pool server's connection handler, the client and enqueue_task evaluated on one session; composition with C02.R2 and C08.R3; submit_target of all three cluster backends against the schedulers' command-line model (a repeated option replaces the earlier one; 1025 and 2050 prerequisites; a refused submission is not repeated with fewer prerequisites; state shared between submissions); local ids 0 and 3", W),
 "C08": ("; Slurm state query evaluated with failing sacct/squeue; factory default accounting on; config switch read-back; store load/close round trip; get_job_states of all three cluster backends against the command-line model over a job history (purged, running, failed, pending, completed with a failed step, held, errored) in both file orders with accounting on and off; ids 0 and 1 at start-up", W),
 "C09": ("; state-query failures of all three cluster backends propagate; load(file)=table and close-after-submit scenarios evaluated; a submission the scheduler refuses or answers without a job id raises; a refused cancel leaves the accepted job tracked", W),
 "C10": ("; clean_logs config switch read-back; Slurm log_mode factory default; a uniformly indented multi-line spec with a here-document reaches `target << spec`, the spec field and all three script builders byte for byte; a target's options dict is its own object", W),
 "C11": ("; enqueue_task hands deps on unchanged (no rebinding); the task coroutine evaluated over dependency outcomes incl. late submission; dependency ids (0 included) travel unchanged TrackingBackend.submit -> LocalOps -> wire", W),
 "C12": ("; composition with C13.R6: a released core corresponds to a SIGKILLed, reaped process group; semaphore balance of the evaluated coroutine under a cancellation at every await; `gwf workers -n` converted by the declared click type and evaluated: an integral count equal to the one given; release guards are per task (locals or state keyed by the task id)", W),
 "C13": ("; SIGKILL to the group on every exit with a process; no use of the process on the no-process path; no bare wait() on undrained PIPEs; RUNNING while the process runs; enqueue registers SUBMITTED; `gwf workers` starts the pool for the project directory; time-out after the shell was reaped still SIGKILLs the group", W),
 "C14": ("; nothing shared between connections is held across a client-paced await; connection handler / client / enqueue evaluated on well-formed, EOF-only, shutdown and unknown-kind sessions; log handlers defined by gwf keep the emit()/handleError contract", W),
 "C15": ("; name filter witness table; --all/--force flag defaults; no recursive delete; no symlink resolution between a declared output and the delete; protect entries survive the workflow API whatever their spelling", W),
 "C16": ("; name filter witness table (through the shared cone-selection rule); projects with redundant shortcut edges, sets iterated in both orders; the reader of modification times follows links like touch's writer (C01.R6)", W),
 "C17": ("; the cancel command evaluated over selections x prompt x each failure kind at each position; a refused cancel leaves the job tracked; scancel's exit-0 failure output raises BackendError; server/client cancel_task path; backends.utils.call raises/re-raises only BackendError and converts a time-limit expiry; job id 0; tracked ids persist until replaced", W),
 "C18": ("; config switch read-back; run inside the store's with-block; store load round trip; a submission answered without a job id raises (no hash); optional settings keep the store anchored in the project directory", W),
 "C19": ("; find_workflow evaluated over 10 directory-tree rows incl. termination at the root; no read of the invoking directory at import time; the group callback's locations evaluated; find_workflow on trees with symbolic links and '..'; duplicate names within one map() call; cluster scripts cd into the target's directory", W),
 "C20": ("; cli.main evaluated over the full flag x config x env tables for backend (4) and colour (18), verbosity reaches logging; create_backend evaluated; accounting switch decides sacct also under failure; config file location; overwriting a stored value with one that compares equal across types (yes/1, 0/no); the workflow file's location is not symlink-resolved", W),
}
# rules added in DESIGN 9.11 / 9.12 (rounds 6 and 7)
ADD2 = {
 "C01": "; should_run on files stamped ahead of the local clock and dated 1970; a spec assigned with `target << spec` after construction; declared names with colon/brackets/wildcards/decomposed accents taken literally; the hash store follows the project configuration whatever cli.main layers on top and whatever the environment holds",
 "C02": "; TrackingBackend as a session (status/submit/status/submit-with-prerequisite/cancel for a target that is submitted again in the same process); rejected submissions on a project with history, with every further on/off option of `gwf run` switched on",
 "C03": "; _norm_path on arbitrary file names (colon, brackets, `~`, `$`, blanks, decomposed accents)",
 "C04": "; acyclic workflows with a redundant edge in all definition orders; arbitrary file names",
 "C05": "; the backend states of the schedulers' command-line model under the identity the environment vs the uid reports",
 "C06": "; L8: the job runs in the target's working directory also when that is the project directory, and each submit command is started once",
 "C07": "; suspended/held jobs count as alive; `qstat -f -xml` with running jobs nested under their queue instance; the prerequisite of a target submitted again in the same process is the new job",
 "C08": "; R5: the decision table for each job state (success or no record falls back to the files); executors run queued calls late (late-binding closures)",
 "C09": "; a submit command is started once (lost reply) and a time limit kills and reaps the child; a truncated scheduler answer raises; re-submission of a tracked target is persisted; nothing that needs a rejected target is handed over afterwards",
 "C10": "; the script reaches the submit command's standard input byte for byte (text-mode codec); cd also for targets whose working directory is the project directory; text that reaches the configuration through a KEY=VALUE option is coerced like `config set`",
 "C11": "; TrackingBackend session (re-submitted prerequisite); every not-complete prerequisite is handed over (C02.R1/R2)",
 "C12": "; core accounting event by event incl. a fork refused once (EAGAIN) with a cancellation at every later await; click callbacks and parameter types of the package; a hand-written core pool is evaluated under four cancellation schedules (poolmodel)",
 "C13": "; the task's output as two pipes with a capacity (StreamReader limits, sequential draining, waiting for the exit with undrained pipes = hang); the Scheduler object as `gwf workers` builds it without a terminal; SIGCHLD disposition; the pool's tables only grow",
 "C14": "; no code on the pool's path restores the default disposition of SIGPIPE; the pool's tables only grow; worker tasks are cancelled only by cancel_task/kill (helper tasks may be)",
 "C15": "; Target.protected / flattened_outputs on names with brackets and wildcards against a disk holding exactly those files",
 "C16": "; a disk model for touch (existence, modification times on a ticking clock in a non-UTC zone, symbolic links): verdict from the final state",
 "C17": "; the project is found from getcwd() whatever $PWD says; the command is evaluated on the kind of iterable filter_names really returns; patterns matching nothing; the pool's tables only grow",
 "C18": "; the hash store follows use_spec_hashes of the project configuration (3 settings x 2 environments, one all-\"0\"); the scheduler's decision table",
 "C19": "; attrs converters applied to defaults, templates built the way attrs builds them; find_workflow evaluated with the arguments cli.main passes; $PWD rows",
 "C20": "; the config session runs on the object cli.main builds; KEY=VALUE text coerced like `config set`; backend factories with real signatures (inspect.signature modelled)",
}
# rules added in DESIGN 9.13 (round 8)
ADD3 = {
 "C01": "; nothing but update/invalidate/the loader changes the spec-hash table; each tracked id gets the state of its own job (C08.R1/R2)",
 "C02": "; the tracked-jobs table is written by submit and the loader only, entries are never removed; endpoints whose last job failed or was cancelled; a workflow with a redundant edge; the scheduler does not change the graph",
 "C03": "; _norm_path is lexical (no realpath)",
 "C04": "; a true return value of a package-defined __exit__ swallows the validation error (modelled); the cycle search skips no unvisited dependency",
 "C05": "; table ownership; ids keep their type between submit, state file and query; logging.Filter classes pass records that differ in their arguments only",
 "C06": "; table ownership for both stores",
 "C07": "; table ownership; prerequisite lists are not reduced transitively",
 "C08": "; every state the live queue can show (codes and long names) and its accounting name; table ownership",
 "C09": "; table ownership; any time limit on a submit command; SIGINT disposition on the path of `gwf run`; an exclusive temporary file meeting the leftover of an interrupted write",
 "C10": "; clean_logs on a modelled log directory with dotted target names; option resolution with realistic names (no value leaks to a similarly named option)",
 "C12": "; the semaphore is created once; a finally block that touches `proc` while it is None; CPU affinity in click ranges",
 "C13": "; read(n) may return short chunks; logs are removed by run's log cleaning only",
 "C14": "; ids keep their type (C08.R2); the reply with the state table can be serialised",
 "C16": "; all commands open the spec-hash store with the same arguments; near-miss names select nothing",
 "C17": "; the backend's last-known state does not decide whether a cancel is sent; table ownership; the local id survives the round trip to cancel_task",
 "C18": "; `gwf config set use_spec_hashes yes|no` stores the boolean; sibling agreement of get_spec_hashes call sites",
 "C19": "; find_workflow twice in one process; characters that are not control characters are legal; the pool starts the task in the directory it was sent",
 "C20": "; the group callback does not write the configuration file; switch names in the config session",
}
# rules added in DESIGN 9.14 / 9.15 (rounds 9 and 10)
ADD4 = {
 "C04": "; a directory is an existing input",
 "C07": "; a failing state query is not an answer (C09.R3 imported)",
 "C09": "; every command runner of backends.utils (call and its siblings) applies the failure test; no time limit reaches a submit or cancel command through any runner; a failing query stops the construction of the backend; the recorded id is the one looked up (C08.R2)",
 "C10": "; None / 0 / '' given at a higher level win; the cd goes to the target's directory",
 "C11": "; what has been waited for when the process starts (FIRST_COMPLETED loops included); enqueue_task evaluated on a populated pool when it assigns a parameter",
 "C12": "; unknown counting parameters of the task coroutine (several cores per task): balanced, bounded by the pool, no hold-and-wait",
 "C13": "; hold-and-wait of cores",
 "C14": "; no request takes a core out of the pool for good (C12.R2)",
 "C15": "; no recursive delete",
 "C16": "; the hashes of exactly the cone are recorded, for every selection",
 "C19": "; the caller-frame lookup evaluated on a modelled call stack; a path reaches messages only (display) vs decisions",
 "C20": "; the named settings are accepted by name (further settings allowed); an unknown setting never discards a known one",
}
checks = []
for pid, (text, note, tech) in sorted(P.items()):
    extra = ADD.get(pid)
    text = text + ADD2.get(pid, "")
    text = text + ADD3.get(pid, "")
    text = text + ADD4.get(pid, "")
    if extra:
        text = text + extra[0]
        if extra[1]:
            tech = tech + " + " + extra[1]
            note = note + "; the witness evaluations are exhaustive only over finite domains (flags, enums, container kinds) and otherwise a necessary condition - a differing row is a concrete violating input, agreement is not a proof for all inputs"
    checks.append({
        "property_id": pid,
        "quick_cmd": f"./check {pid} --tier quick",
        "thorough_cmd": f"./check {pid} --tier thorough",
        "evidence_file": f"/verif/evidence/{pid}.json",
        "replay_cmd_template": f"./check {pid} --replay {{path}}",
        "engine": "gwfsa",
        "level_claimed": {"category": "other",
                          "text": "static analysis of /repo's current source (parsed, never imported or run): " + text + ". Every rule instance is reported with file:line; an obligation that cannot be established is a violation naming the construct.",
                          "design_ref": f"DESIGN.md section 4 ({pid})"},
        "level_note": note + "; trusted base: Python's ast, the path/exception semantics encoded in gwfsa/paths.py, pyproject.toml as the registry, reference tables in gwfsa/reference.",
        "technique": "static analysis: " + tech,
    })
m = {
    "version": 1,
    "setup_cmd": "cd /verif && (/venv/bin/python -m compileall -q gwfsa tools >/dev/null 2>&1 || python3 -m compileall -q gwfsa tools >/dev/null 2>&1 || true) && ./check C12 --tier quick >/dev/null",
    "hooks": {"guard": "GWFORG_GWF_VERIF", "enable": "none needed: static analysis reads the source; no instrumentation was added to /repo",
              "baseline_off_cmd": "cd /repo && /venv/bin/python -m pytest -ra -q -p no:cacheprovider --timeout=900 --continue-on-collection-errors",
              "source_commits": [], "add_only": True},
    "engines": [{"name": "gwfsa", "path": "/verif/gwfsa", "serves_properties": sorted(P),
                 "kind_free_text": "repository-specific static analyser (stdlib ast only): program index + callee resolution, structured path exploration with finite domains and exception edges, context-sensitive effect reachability, constant/table evaluation, template-domain evaluation of pure builders, regex-AST facts"}],
    "checks": checks,
    "notes": "Exit codes: 0 pass (KNOWN-FINDING lines allowed), 1 VIOLATION, 2 ANALYSIS-ERROR (anchor vanished / checker failure). Known findings: /verif/KNOWN_FINDINGS.txt. The thorough tier additionally runs the rules on in-memory variants (mutants/*.json, seeded/*/patch.diff must be reported, refactorings/*/patch.diff must stay silent) and records the detection matrix in the evidence file.",
    "not_applicable": [],
}
json.dump(m, open(os.path.join(VERIF, "MANIFEST.json"), "w"), indent=1)
print("wrote MANIFEST.json with", len(checks), "checks")

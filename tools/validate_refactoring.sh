#!/bin/sh
# usage: tools/validate_refactoring.sh <dir with patch.diff demo.py>  -> prints SAME=<yes|no|nodemo> SUITE=<summary>
# Differential check of a behaviour-preserving variant in a throw-away worktree of /repo HEAD under /tmp (removed afterwards).
D="$(cd "$1" && pwd)"; N="$(echo "$D" | tr '/' '_')"
WT=/tmp/vr_$N
git -C /repo worktree add --detach "$WT" HEAD -q >/dev/null 2>&1 || { echo "worktree failed"; exit 2; }
mkdir -p "$WT/out/rX"; [ -f "$D/demo.py" ] && cp "$D/demo.py" "$WT/out/rX/demo.py"
cd "$WT"
SAME=nodemo
if [ -f out/rX/demo.py ]; then
  PYTHONPATH="$WT/src:$WT" timeout 300 /venv/bin/python out/rX/demo.py >/tmp/vr_$N.clean.log 2>/dev/null; C=$?
fi
if git apply "$D/patch.diff" 2>/tmp/vr_$N.apply.log; then
  if [ -f out/rX/demo.py ]; then
    PYTHONPATH="$WT/src:$WT" timeout 300 /venv/bin/python out/rX/demo.py >/tmp/vr_$N.patched.log 2>/dev/null; P=$?
    if [ "$C" = "$P" ] && cmp -s /tmp/vr_$N.clean.log /tmp/vr_$N.patched.log; then SAME=yes; else SAME="no(rc $C/$P)"; fi
  fi
  SUITE=$(PYTHONPATH="$WT/src" /venv/bin/python -m pytest -q -p no:cacheprovider --timeout=900 --continue-on-collection-errors 2>&1 | tail -1)
else
  SAME=applyfail; SUITE=-
fi
cd /; git -C /repo worktree remove --force "$WT"; rm -f /tmp/vr_$N.*.log
echo "$1 SAME=$SAME SUITE=$SUITE"

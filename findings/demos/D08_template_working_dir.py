"""A template target without working_dir must resolve its paths against the workflow's directory, from any cwd."""
from _common import verdict
import os, tempfile
from gwf import Workflow, AnonymousTarget

def tmpl():
    return AnonymousTarget(inputs=["in.txt"], outputs=["out.txt"], options={}, spec="")

seen = set()
with tempfile.TemporaryDirectory() as d1, tempfile.TemporaryDirectory() as d2:
    for cwd in (d1, d2):
        os.chdir(cwd)
        wf = Workflow(working_dir="/project")
        t = wf.target_from_template("T", tmpl())
        seen.add(tuple(t.flattened_outputs()))
    os.chdir("/")
print(seen)
verdict(seen != {("/project/out.txt",)}, "C19: template targets inherit the workflow's working directory, independent of the invoking directory")

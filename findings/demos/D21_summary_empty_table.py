from _common import verdict
from gwf.plugins.status import print_summary, print_table
bad = False
for p in (print_table, print_summary):
    try:
        p({})
    except Exception as e:
        print(p.__name__, "on empty table:", type(e).__name__, e)
        bad = True
verdict(bad, "C05: every output format must show the (possibly empty) restriction of the status table")

from _common import verdict
import gwf.backends.slurm as slurm
from gwf.backends.base import BackendStatus as B
slurm.call = lambda *a, **k: "77;SI\n"
ops = slurm.SlurmOps("/wd", "full", False, target_defaults=slurm.TARGET_DEFAULTS)
st = ops.get_job_states(["77"]).get("77", B.UNKNOWN)
print("squeue state SI (SIGNALING, documented in squeue(1)) ->", st)
verdict(st not in (B.RUNNING, B.SUBMITTED),
        "C08: a job squeue lists as SI (being signalled, i.e. alive) must not look absent (UNKNOWN) - it would be resubmitted")

from _common import verdict
import gwf.backends.sge as sge
from gwf.core import Target

calls = []
def fake_call(exe, *args, input=None):
    calls.append((exe, args))
    if exe == "qsub":
        return "4242\n"          # what `qsub -terse` prints (universal_newlines=True in utils.call)
    if exe == "qstat":
        return ("<job_info><queue_info><job_list><JB_job_number>4242</JB_job_number>"
                "<state>r</state></job_list></queue_info></job_info>")
    return ""
sge.call = fake_call
ops = sge.SGEOps("/wd", target_defaults=sge.TARGET_DEFAULTS)
t = Target("T", inputs=[], outputs=[], options={"cores": 1}, working_dir="/wd")
jid = ops.submit_target(t, [])
states = ops.get_job_states([jid])
print("tracked id:", repr(jid), "states:", states, "-> state of tracked id:", states.get(jid))
ops.submit_target(t, [jid])
print("argv of dependent submit:", calls[-1])
verdict(states.get(jid) is None or "\n" in calls[-1][1][-1],
        "C07/C08: the id stored for an SGE job must be the id qstat reports and usable in -hold_jid")

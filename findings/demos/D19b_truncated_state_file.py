"""Kill gwf inside the state-file write: the file must stay readable (old or new content)."""
from _common import verdict
import json, os, tempfile
import gwf.backends.base as base
import gwf.core as core

class Crash(BaseException):
    pass

real_dump = json.dump
def dying_dump(obj, fp, **kw):
    fp.write('{"A": "1')       # a prefix reaches the disk ...
    fp.flush()
    raise Crash()               # ... then the process is killed

class Ops:
    target_defaults = {}
    def get_job_states(self, ids): return {}
    def close(self): pass

bad = False
with tempfile.TemporaryDirectory() as wd:
    os.makedirs(os.path.join(wd, ".gwf"))
    # tracked jobs
    p = os.path.join(wd, ".gwf", "x-backend-tracked.json")
    open(p, "w").write('{"A": "100"}')
    b = base.TrackingBackend(wd, name="x", ops=Ops())
    b._tracked_jobs["B"] = "101"
    json.dump = dying_dump
    try:
        b.close()
    except Crash:
        pass
    json.dump = real_dump
    try:
        print("tracked file after crash:", json.load(open(p)))
    except Exception as e:
        print("tracked file unreadable:", type(e).__name__, e); bad = True
    # spec hashes
    p = os.path.join(wd, ".gwf", "spec-hashes.json")
    open(p, "w").write('{"A": "abc"}')
    h = core.FileSpecHashes(p)
    json.dump = dying_dump
    try:
        h.close()
    except Crash:
        pass
    json.dump = real_dump
    try:
        print("hash file after crash:", json.load(open(p)))
    except Exception as e:
        print("hash file unreadable:", type(e).__name__, e); bad = True
verdict(bad, "C09: state files are never left unreadable by an interrupted write")

from _common import verdict
import tempfile, os
from gwf.conf import FileConfig
with tempfile.TemporaryDirectory() as d:
    c = FileConfig.load(os.path.join(d, ".gwfconf.json"))
    c["backend.slurm.log_mode"] = "merged"
    c["backend.slurmx.y"] = "1"
    c["backend.slurm"] = "zzz"
    ns = c.get_namespace("backend.slurm")
print(ns)
verdict(ns != {"log_mode": "merged"}, "C20: only the backend.<name>.* settings of the selected backend reach it")

from _common import verdict
from pathlib import Path
from gwf.core import Target
bad = False
try:
    t = Target("T", inputs=[Path("a.txt")], outputs={"o": Path("b.txt")}, options={}, working_dir="/wd")
    print(t.flattened_inputs(), t.flattened_outputs())
    bad = t.flattened_inputs() != ["/wd/a.txt"]
except Exception as e:
    print("Target with path objects:", type(e).__name__, e); bad = True
for badpath in ("", "a\x07b", Path("a\x07b")):
    try:
        Target("T", inputs=[badpath], outputs=[], options={}, working_dir="/wd")
        print("accepted invalid path", repr(badpath)); bad = True
    except Exception as e:
        if type(e).__name__ != "InvalidPathError":
            print("wrong error for", repr(badpath), type(e).__name__); bad = True
verdict(bad, "C19: paths are non-empty strings or path objects without control characters")

"""A hard kill between two submissions forgets the jobs already accepted (KNOWN FINDING, not repaired)."""
from _common import verdict
import json, os, tempfile
import gwf.backends.base as base
from gwf.core import Target

class Ops:
    target_defaults = {}
    n = 100
    def get_job_states(self, ids): return {}
    def submit_target(self, t, deps):
        Ops.n += 1; return str(Ops.n)          # the scheduler accepted the job
    def close(self): pass

with tempfile.TemporaryDirectory() as wd:
    os.makedirs(os.path.join(wd, ".gwf"))
    b = base.TrackingBackend(wd, name="x", ops=Ops())
    for n in ("A", "B"):
        b.submit(Target(n, inputs=[], outputs=[], options={}, working_dir=wd), [])
    # SIGKILL here: no __exit__, no close().  What does the next invocation see?
    p = os.path.join(wd, ".gwf", "x-backend-tracked.json")
    on_disk = json.load(open(p)) if os.path.exists(p) else {}
print("accepted: A=101 B=102; on disk after kill -9:", on_disk)
verdict(on_disk != {"A": "101", "B": "102"}, "C09: a killed run never forgets a job the scheduler accepted")

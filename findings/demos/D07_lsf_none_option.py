from _common import verdict
from gwf.core import Target, NoopSpecHashes
import gwf.backends.lsf as lsf
from gwf.scheduling import submit_backend

class B:
    target_defaults = lsf.TARGET_DEFAULTS
    def __init__(self): self.ops = lsf.LSFOps("/wd", target_defaults=lsf.TARGET_DEFAULTS)
    def submit(self, target, deps): self.script = self.ops.compile_script(target)

t = Target("T", inputs=[], outputs=[], options={"queue": None}, working_dir="/wd", spec="true")
b = B()
submit_backend(t, [], b, NoopSpecHashes())
lines = [l for l in b.script.splitlines() if l.startswith("#BSUB")]
print("\n".join(lines))
verdict(any("{" in l for l in lines) or not any(l.startswith("#BSUB -n 1") for l in lines),
        "C10: an option resolved to None is omitted from the LSF header (no literal '{queue}' reaches bsub)")

"""`gwf config set verbose debug` has no effect: the --verbose flag defaults to 'info' (KNOWN FINDING)."""
from _common import verdict, REPO
import ast, os
src = open(os.path.join(REPO, "src/gwf/cli.py")).read()
tree = ast.parse(src)
reads = [n for n in ast.walk(tree) if isinstance(n, ast.Constant) and n.value == "verbose"]
import gwf.cli as cli
opt = [p for p in cli.main.params if p.name == "verbose"][0]
print("--verbose default:", repr(opt.default), "| occurrences of the config key 'verbose' in cli.py:", len(reads))
verdict(opt.default is not None, "C20: verbosity takes effect with precedence flag > project configuration > default")

"""max_cores=1: after one dependent was skipped (its dependency failed), two tasks run at the same time."""
from _common import verdict
import asyncio, os, tempfile
from gwf.backends.local import Scheduler

async def main(wd):
    s = Scheduler(wd, max_cores=1)
    a = await s.enqueue_task("A", "exit 1", wd, None, [])
    b = await s.enqueue_task("B", "true", wd, None, [a])     # skipped: never acquires a core
    await s.wait_for([a, b])
    probe = 'echo start >> %s/events; sleep 0.5; echo stop >> %s/events' % (wd, wd)
    c = await s.enqueue_task("C", probe, wd, None, [])
    d = await s.enqueue_task("D", probe, wd, None, [])
    await s.wait_for([c, d])
    return open(os.path.join(wd, "events")).read().split()

with tempfile.TemporaryDirectory() as wd:
    os.makedirs(os.path.join(wd, ".gwf", "logs"))
    ev = asyncio.run(main(wd))
print(ev)
verdict(ev[:2] == ["start", "start"], "C12: never more live task processes than configured workers")

"""A task that cannot be started (missing working directory) or names an unknown dependency id never reaches a final state."""
from _common import verdict
import asyncio, os, tempfile
from gwf.backends.local import Scheduler, LocalStatus

FINAL = {LocalStatus.FAILED, LocalStatus.COMPLETED, LocalStatus.CANCELLED, LocalStatus.KILLED}
async def main(wd):
    s = Scheduler(wd, max_cores=2)
    a = await s.enqueue_task("A", "true", os.path.join(wd, "missing-dir"), None, [])
    b = await s.enqueue_task("B", "true", wd, None, [a])
    c = await s.enqueue_task("C", "true", wd, None, [999])
    await s.wait_for([a, b, c], timeout=5)
    return {n: s.task_states[t] for n, t in (("A", a), ("B", b), ("C", c))}

with tempfile.TemporaryDirectory() as wd:
    os.makedirs(os.path.join(wd, ".gwf", "logs"))
    st = asyncio.run(main(wd))
print(st)
verdict(any(v not in FINAL for v in st.values()) or st["A"] != LocalStatus.FAILED,
        "C13: every accepted task reaches a final state; 'could not be started' is failed")

"""Long dependency chains crash graph building / status / touch with RecursionError (KNOWN FINDING, not repaired)."""
from _common import verdict
import sys, tempfile, os
from gwf.core import Target, Graph, NoopSpecHashes
from gwf.scheduling import get_status_map
from gwf.plugins.touch import touch_workflow
from gwf.backends.base import BackendStatus
from tests.conftest import FakeFilesystem

class Backend:
    def status(self, t): return BackendStatus.UNKNOWN

def chain(n, reverse):
    ts = {}
    order = range(n - 1, -1, -1) if reverse else range(n)
    for i in order:
        ts["t%d" % i] = Target("t%d" % i, inputs=["f%d" % (i - 1)] if i else [], outputs=["f%d" % i], options={}, working_dir="/wd")
    return ts
res = {}
for name, n, rev, fn in (
    ("graph(2000, defined last-first)", 2000, True, lambda g: None),
    ("status(1000)", 1000, False, lambda g: get_status_map(g, FakeFilesystem(), NoopSpecHashes(), Backend())),
    ("touch(1000) [dry: patched Path.touch]", 1000, False, None),
):
    try:
        g = Graph.from_targets(chain(n, rev), FakeFilesystem())
        if fn is None:
            import gwf.plugins.touch as T
            class P:
                def __init__(self, p): pass
                parent = property(lambda s: s)
                def mkdir(self, **k): pass
                def touch(self, **k): pass
            T.Path = P
            touch_workflow(g.endpoints(), g, NoopSpecHashes())
        else:
            fn(g)
        res[name] = "ok"
    except RecursionError:
        res[name] = "RecursionError"
print(res)
verdict("RecursionError" in res.values(), "C04: workflows of any dependency depth (thousands of targets) must not crash")

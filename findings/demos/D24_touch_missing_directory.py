from _common import verdict
import os, tempfile
from gwf.core import Target, Graph, CachedFilesystem, NoopSpecHashes
from gwf.plugins.touch import touch_workflow

with tempfile.TemporaryDirectory() as wd:
    a = Target("A", inputs=[], outputs=["results/a.txt"], options={}, working_dir=wd)
    b = Target("B", inputs=["results/a.txt"], outputs=["b.txt"], options={}, working_dir=wd)
    g = Graph.from_targets({"A": a, "B": b}, CachedFilesystem())
    try:
        touch_workflow(g.endpoints(), g, NoopSpecHashes())
        bad = not (os.path.exists(os.path.join(wd, "results/a.txt")) and os.path.exists(os.path.join(wd, "b.txt")))
    except Exception as e:
        print("touch:", type(e).__name__, e)
        bad = True
verdict(bad, "C16: touch creates missing outputs as empty files (also when their directory does not exist yet)")

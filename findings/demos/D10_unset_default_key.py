from _common import verdict
import tempfile, os
from gwf.conf import FileConfig
with tempfile.TemporaryDirectory() as d:
    c = FileConfig.load(os.path.join(d, ".gwfconf.json"))
    bad = False
    for key in ("verbose", "not_there"):
        try:
            del c[key]
        except Exception as e:
            print("unset", key, "->", type(e).__name__, e); bad = True
    c["x"] = "1"; del c["x"]
    bad |= c.get("x") is not None or c.get("verbose") != "info"
verdict(bad, "C20: unset is harmless for keys that are not set (incl. keys that only have a default)")

from _common import verdict
import gwf.backends.lsf as lsf
from gwf.backends.base import BackendStatus as B
out = {}
for code in ("PSUSP", "USUSP", "SSUSP"):
    lsf.call = lambda *a, code=code, **k: code + "\n"
    ops = lsf.LSFOps("/wd", target_defaults=lsf.TARGET_DEFAULTS)
    out[code] = ops.get_job_states(["17"])["17"]
print(out)
verdict(any(v in (B.FAILED, B.CANCELLED, B.UNKNOWN, B.COMPLETED) for v in out.values()),
        "C08: a held/suspended (still alive) LSF job must show as submitted/running, not failed (it would be resubmitted)")

"""Shared helpers for the defect demonstrations (documentation only; the checks never run these).

Each demo exits 1 when the defect is present in /repo (or $GWF_SA_REPO) and 0 when it is repaired.
Run with /venv/bin/python <demo>.py
"""
import os, sys
REPO = os.environ.get("GWF_SA_REPO", "/repo")
sys.path.insert(0, os.path.join(REPO, "src"))
sys.path.insert(0, REPO)


def verdict(defect_present, what):
    print(("DEFECT PRESENT: " if defect_present else "repaired: ") + what)
    sys.exit(1 if defect_present else 0)

from _common import verdict
from gwf.core import Target, Graph, NoopSpecHashes
from gwf.scheduling import should_run
from tests.conftest import FakeFilesystem

fs = FakeFilesystem()
res = {}
for shape in ([], {"A": []}, [[]], {"A": {}}):
    t = Target("T", inputs=[], outputs=shape, options={}, working_dir="/wd")
    res[repr(shape)] = should_run(t, fs, NoopSpecHashes())
print(res)
verdict(len(set(res.values())) != 1 or not all(res.values()),
        "C01: a target declaring no output file must be 'shouldrun' whatever the container shape")

from _common import verdict
from gwf.core import Target
import gwf.backends.sge as sge
from gwf.scheduling import submit_backend
from gwf.core import NoopSpecHashes

class B:
    target_defaults = sge.TARGET_DEFAULTS
    def __init__(self): self.ops = sge.SGEOps("/wd", target_defaults=sge.TARGET_DEFAULTS)
    def submit(self, target, deps): self.script = self.ops.compile_script(target)

t = Target("T", inputs=[], outputs=[], options={"cores": None, "memory": "8g"}, working_dir="/wd", spec="true")
b = B()
try:
    submit_backend(t, [], b, NoopSpecHashes())
    print([l for l in b.script.splitlines() if l.startswith("#$ -l h_vmem") or "smp" in l])
    bad = "-pe smp" in b.script or "h_vmem=8g" not in b.script
except Exception as e:
    print("submit with cores=None:", type(e).__name__, e)
    bad = True
verdict(bad, "C10: an option resolved to None is omitted; the other directives are still produced")

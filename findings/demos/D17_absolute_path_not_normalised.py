from _common import verdict
from gwf.core import Target, Graph
from tests.conftest import FakeFilesystem

a = Target("A", inputs=[], outputs=["x"], options={}, working_dir="/wd")
b = Target("B", inputs=["/wd/d/../x"], outputs=["y"], options={}, working_dir="/wd")
c = Target("C", inputs=[], outputs=["/wd/./x"], options={}, working_dir="/wd")
bad = False
try:
    g = Graph.from_targets({"A": a, "B": b}, FakeFilesystem())
    print("deps of B:", g.dependencies[b])
    bad |= a not in g.dependencies[b]
except Exception as e:
    print("graph construction:", type(e).__name__, e)
    bad = True
try:
    Graph.from_targets({"A": a, "C": c}, FakeFilesystem())
    print("two producers of /wd/x under different spellings were accepted")
    bad = True
except Exception as e:
    print("ok:", type(e).__name__)
verdict(bad, "C03: different spellings of one file (absolute with '..' or '.') must connect / collide")

from _common import verdict
from gwf.utils import is_valid_name
res = {n: is_valid_name(n) for n in ("foo", "foo\n", "a.b_1", "1a", "a b", "a/b", "")}
print(res)
verdict(res["foo\n"] or not res["foo"] or not res["a.b_1"] or res["1a"] or res["a b"] or res["a/b"] or res[""],
        "C19: target names are identifier-like strings; 'foo\\n' is not")

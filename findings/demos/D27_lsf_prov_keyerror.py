from _common import verdict
import gwf.backends.lsf as lsf
from gwf.backends.base import BackendStatus as B
bad = False
for code, allowed in (("PROV", (B.SUBMITTED,)), ("SOMETHING_NEW", (B.UNKNOWN,))):
    lsf.call = lambda *a, code=code, **k: code + "\n"
    ops = lsf.LSFOps("/wd", target_defaults=lsf.TARGET_DEFAULTS)
    try:
        st = ops.get_job_states(["17"])["17"]
        print(code, "->", st)
        bad |= st not in allowed
    except Exception as e:
        print(code, "->", type(e).__name__, e)
        bad = True
verdict(bad, "C08: every documented bjobs state must map to a class; unknown codes fall back to 'no record', never crash gwf")

"""The generated job script must run the spec in the target's working directory, whatever its (legal) name."""
from _common import verdict
import os, subprocess, tempfile
from gwf.core import Target
import gwf.backends.slurm as slurm, gwf.backends.sge as sge, gwf.backends.lsf as lsf

bad = False
with tempfile.TemporaryDirectory() as root:
    wd = os.path.join(root, "my dir; echo INJECTED")
    os.makedirs(wd)
    for name, ops in (
        ("slurm", slurm.SlurmOps(root, "none", False, target_defaults={})),
        ("sge", sge.SGEOps(root, target_defaults={})),
        ("lsf", lsf.LSFOps(root, target_defaults={})),
    ):
        t = Target("T", inputs=[], outputs=[], options={}, working_dir=wd, spec="pwd")
        script = ops.compile_script(t)
        r = subprocess.run(["bash"], input=script, capture_output=True, text=True, cwd=root)
        ok = r.stdout.strip() == os.path.realpath(wd) and r.returncode == 0
        print(name, "->", "ok" if ok else ("ran in/said: %r %r" % (r.stdout, r.stderr[:80])))
        bad |= not ok
verdict(bad, "C10: `cd <working_dir>` must be quoted (spaces and shell metacharacters are legal directory names)")

"""After cancellation / time-out none of the task's processes keeps running (scripts that spawn children)."""
from _common import verdict
import asyncio, os, tempfile
from gwf.backends.local import Scheduler

async def main(wd):
    s = Scheduler(wd, max_cores=2)
    script = "(sleep 2; echo late > %s/late_%%s) & sleep 30" % wd
    a = await s.enqueue_task("A", script % "cancel", wd, None, [])
    b = await s.enqueue_task("B", script % "timeout", wd, 0.5, [])
    await asyncio.sleep(0.5)
    await s.cancel_task(a)
    await s.wait_for([a, b])
    await asyncio.sleep(2.5)
    return sorted(f for f in os.listdir(wd) if f.startswith("late"))

with tempfile.TemporaryDirectory() as wd:
    os.makedirs(os.path.join(wd, ".gwf", "logs"))
    late = asyncio.run(main(wd))
print("files written by surviving children:", late)
verdict(bool(late), "C13: after cancellation or time-out none of the task's processes keeps running")

"""Task ids restart at 0 with every worker pool; tracked ids persist across pools (KNOWN FINDING, design)."""
from _common import verdict
import asyncio, os, tempfile
from gwf.backends.local import Scheduler
async def one(wd, script):
    s = Scheduler(wd, max_cores=1)
    t = await s.enqueue_task("X", script, wd, None, [])
    await s.wait_for([t])
    return t, s.task_states[t]
with tempfile.TemporaryDirectory() as wd:
    os.makedirs(os.path.join(wd, ".gwf", "logs"))
    t1 = asyncio.run(one(wd, "exit 1"))     # pool 1: target A -> tid 0, failed
    t2 = asyncio.run(one(wd, "true"))       # pool 2 (restart): unrelated target B -> tid 0 again, completed
print("pool 1:", t1, "pool 2:", t2)
verdict(t1[0] == t2[0], "C08: a tracked id must denote the target's own job and no other (ids are reused after a pool restart)")

"""Command line: ./check <property id> [--tier quick|thorough] [--replay file] [--repo path]."""
import argparse
import importlib
import json
import os
import sys
import time
import traceback

from .consteval import Evaluator
from .index import Index
from .loader import AnalysisError, Repo
from .report import Ctx, finish
from .resolve import Resolver

PROPS = [f"C{i:02d}" for i in range(1, 21)]


def analyse(prop, repo, tier):
    """Run all rules of one property on a loaded repo; returns the Ctx (no output, no files)."""
    index = Index(repo)
    ev = Evaluator(index)
    ctx = Ctx(prop, repo, index, ev, tier)
    ctx.resolver = Resolver(index, ev)
    mod = importlib.import_module(f"gwfsa.rules.{prop.lower()}")
    mod.run(ctx)
    return ctx


def run_property(prop, tier="quick", root=None, overrides=None, write=True, quiet=False, seed=0):
    t0 = time.time()
    try:
        repo = Repo(root, overrides)
        ctx = analyse(prop, repo, tier)
    except AnalysisError as exc:
        if not quiet:
            print(f"ANALYSIS-ERROR property={prop} {exc}")
        return 2, [f"ANALYSIS-ERROR property={prop} {exc}"], None
    except Exception as exc:  # checker bug or unrecognised construct: never a VIOLATION line
        tb = traceback.format_exc(limit=6)
        if not quiet:
            print(f"ANALYSIS-ERROR property={prop} checker exception {type(exc).__name__}: {exc}")
            print(tb)
        return 2, [f"ANALYSIS-ERROR property={prop} {type(exc).__name__}: {exc}", tb], None
    selftest = None
    if tier == "thorough" and write:
        from .selftest import run_selftest
        selftest = run_selftest(prop, root, quiet=quiet)
        from .mutsweep import run_sweep
        selftest["mutation_sweep"] = run_sweep(prop, root, quiet=quiet)
    code, out = finish(ctx, time.time() - t0, seed, selftest=selftest, write=write, quiet=quiet)
    return code, out, ctx


def main(argv=None):
    ap = argparse.ArgumentParser(prog="check")
    ap.add_argument("property")
    ap.add_argument("--tier", choices=["quick", "thorough"], default=os.environ.get("VERIF_TIER") or "quick")
    ap.add_argument("--replay")
    ap.add_argument("--repo", default=None)
    args = ap.parse_args(argv)
    try:
        seed = int(os.environ.get("VERIF_SEED", "0"))
    except ValueError:
        seed = 0
    prop = args.property.upper()
    if prop == "ALL":
        worst = 0
        for p in PROPS:
            code, _, _ = run_property(p, args.tier, args.repo, seed=seed)
            worst = max(worst, code) if code != 1 else 1 if worst != 1 else worst
            worst = 1 if code == 1 else worst
        return worst
    if prop not in PROPS:
        print(f"unknown property {prop}")
        return 2
    if args.replay:
        with open(args.replay) as fh:
            want = json.load(fh)
        code, out, ctx = run_property(prop, args.tier, args.repo, write=False, quiet=True, seed=seed)
        if ctx is None:
            print("\n".join(out))
            return 2
        hits = [f for f in ctx.findings if f.rule == want.get("rule") and f.construct == want.get("construct")]
        if not hits:
            print(f"replay: {want.get('rule')} {want.get('construct')} no longer violated on the current tree")
            return 0
        for f in hits:
            print(f"replay: {f.rule} at {f.where}: {f.construct}: {f.message}")
            for w in f.witness:
                print(f"    witness: {w}")
        print(f"VIOLATION property={prop} replay={args.replay}")
        return 1
    code, _, _ = run_property(prop, args.tier, args.repo, seed=seed)
    return code


if __name__ == "__main__":
    sys.exit(main())

"""Check context, rule bookkeeping, known findings, evidence and replay files, exit codes."""
import json
import os
import re
import time

VERIF = os.path.dirname(os.path.dirname(os.path.abspath(__file__)))
KNOWN_FILE = os.path.join(VERIF, "KNOWN_FINDINGS.txt")
EVIDENCE_DIR = os.path.join(VERIF, "evidence")


class Finding:
    def __init__(self, prop, rule, construct, message, where, witness=None):
        self.prop = prop
        self.rule = rule
        self.construct = construct
        self.message = message
        self.where = where
        self.witness = witness or []
        self.known = None

    @property
    def key(self):
        return (self.prop, self.rule, self.construct)

    def as_dict(self):
        return {
            "property": self.prop,
            "rule": self.rule,
            "construct": self.construct,
            "where": self.where,
            "message": self.message,
            "witness": self.witness,
        }


class Rule:
    def __init__(self, ctx, rule_id, title, min_instances=1, detached=False):
        self.detached = detached
        self.ctx = ctx
        self.id = rule_id
        self.title = title
        self.min_instances = min_instances
        self.instances = []  # (construct, verdict, detail)
        self.obligations = 0
        self.discharged = 0

    def ok(self, construct, detail="", where=""):
        self.obligations += 1
        self.discharged += 1
        self.instances.append({"construct": construct, "verdict": "ok", "detail": detail, "where": where})

    def info(self, construct, detail="", where=""):
        self.instances.append({"construct": construct, "verdict": "info", "detail": detail, "where": where})

    def violation(self, construct, message, where="", witness=None):
        if "[not-modelled]" in str(message):
            # the verdict derives from an evaluation the checker's interpreter could not carry out: that is the checker's limit, not a defect of the code
            from .loader import AnalysisError
            raise AnalysisError(f"{self.id} {construct}: {str(message)[:300]}")
        self.obligations += 1
        self.instances.append({"construct": construct, "verdict": "VIOLATION", "detail": message, "where": where})
        f = Finding(self.ctx.prop, self.id, construct, message, where, witness)
        if not self.detached:
            self.ctx.findings.append(f)
        return f

    def check(self, cond, construct, ok_detail, bad_message, where="", witness=None):
        if cond:
            self.ok(construct, ok_detail, where)
        else:
            self.violation(construct, bad_message, where, witness)
        return bool(cond)


class Ctx:
    def __init__(self, prop, repo, index, evaluator, tier="quick"):
        self.prop = prop
        self.repo = repo
        self.index = index
        self.ev = evaluator
        self.tier = tier
        self.rules = []
        self.findings = []
        self.notes = []
        self.shared = {}

    def rule(self, rule_id, title, min_instances=1):
        r = Rule(self, f"{self.prop}.{rule_id}", title, min_instances)
        self.rules.append(r)
        return r

    def note(self, text):
        self.notes.append(text)

    def reconcile(self, rules, pred, witness, label, where=""):
        """Several structural rules about one function, one witness evaluation of that function.

        witness = (n, diffs, unsupported).  Differences are violations (reported on the first rule).  If the evaluation was possible and
        agrees with the property on every row, structural VIOLATIONS on constructs selected by `pred` mean "shape not recognised": they are
        turned into discharged obligations that say so.  If the evaluation was not possible the structural verdicts stand."""
        n, diffs, unsupported = witness
        if diffs:
            for d in diffs[:4]:
                rules[0].violation(f"{label}::witness", d, where)
            return
        if unsupported is not None:
            rules[0].info(f"{label}::witnesses", f"witness evaluation not possible ({unsupported}); decided by the structural rules alone")
            return
        rules[0].ok(f"{label}::witnesses", f"{n} evaluated histories agree with the property", where)
        for r in rules:
            for inst in r.instances:
                if inst["verdict"] == "VIOLATION" and not inst.get("from_witness") and pred(inst["construct"]):
                    inst["verdict"] = "ok"
                    inst["detail"] = f"code shape not recognised by the structural rule ({inst['detail'][:90]}...); decided by the {n} witness evaluations of {label}"
                    r.discharged += 1
                    r.min_instances = min(r.min_instances, 1)
                    self.findings = [f for f in self.findings if not (f.rule == r.id and f.construct == inst["construct"])]

    def guarded(self, r, structural_fn, witness, label, where="", pred=None):
        """Run one structural rule function into rule r; an exception inside it (vanished anchor, unrecognised shape) or violations are
        overridden only if the witness evaluation (n, diffs, unsupported) was possible and agrees with the property on every row.
        Differences found by the witness are reported by the rule that owns the witness, not here."""
        tmp = Rule(self, r.id, r.title, detached=True)
        crashed = None
        try:
            res = structural_fn(self, tmp)
        except Exception as exc:  # AnalysisError included
            crashed = exc
            res = None
        n, diffs, unsupported = witness
        bad = [i for i in tmp.instances if i["verdict"] == "VIOLATION"]
        decided = unsupported is None and not diffs
        if pred is not None and decided:
            # violations outside the witness's reach stand
            strict = [i for i in bad if not pred(i["construct"])]
            for i in strict:
                r.violation(i["construct"], i["detail"], i["where"])
            bad = [i for i in bad if pred(i["construct"])]
        if (bad or crashed is not None) and decided:
            for i in tmp.instances:
                if i["verdict"] == "ok":
                    r.ok(i["construct"], i["detail"], i["where"])
            why = f"{type(crashed).__name__}: {crashed}" if crashed is not None else bad[0]["detail"]
            r.ok(f"{label}::witnesses", f"code shape not recognised by the structural rule ({str(why)[:80]}...); decided by {n} witness evaluations of {label}", where)
            r.min_instances = min(r.min_instances, 1)
            return res
        if crashed is not None:
            raise crashed
        for i in tmp.instances:
            if i["verdict"] == "ok":
                r.ok(i["construct"], i["detail"], i["where"])
            elif i["verdict"] == "VIOLATION":
                r.violation(i["construct"], i["detail"], i["where"])
            else:
                r.info(i["construct"], i["detail"], i["where"])
        return res

    def structural_or_witness(self, r, structural_fn, witness_fn, label, both=False):
        """Run a structural rule; if it does not recognise the code, let branch-covering witness evaluation decide.

        witness_fn() -> (n_ok, [difference messages], unsupported message|None)."""
        tmp = Rule(self, r.id, r.title, detached=True)
        structural_fn(self, tmp)
        bad = [i for i in tmp.instances if i["verdict"] == "VIOLATION"]
        if not bad:
            for i in tmp.instances:
                (r.ok if i["verdict"] == "ok" else r.info)(i["construct"], i["detail"], i["where"])
            if both:
                # the recognised shape must also evaluate as prescribed (catches edits outside the matched fragment)
                n_ok, diffs, unsupported = witness_fn()
                if unsupported is None or diffs:
                    if diffs:
                        for d in diffs[:3]:
                            r.violation(f"{label}::witness", d, tmp.instances[0]["where"] if tmp.instances else "")
                    else:
                        r.ok(f"{label}::witnesses", f"{n_ok} branch-covering witness evaluations agree with the property", tmp.instances[0]["where"] if tmp.instances else "")
                else:
                    r.info(f"{label}::witnesses", f"witness evaluation not possible ({unsupported}); decided by the structural rule alone")
            return
        n_ok, diffs, unsupported = witness_fn()
        if unsupported is None and not diffs:
            for i in tmp.instances:
                if i["verdict"] == "ok":
                    r.ok(i["construct"], i["detail"], i["where"])
            r.ok(f"{label}::witnesses", f"code shape not recognised by the structural rule ({bad[0]['detail'][:70]}...); decided by {n_ok} branch-covering witness "
                 "evaluations, all as the property prescribes", bad[0]["where"])
            r.min_instances = min(r.min_instances, 1)  # the instance minimum was confirmed for the structural shape only
            return
        for i in tmp.instances:
            if i["verdict"] == "ok":
                r.ok(i["construct"], i["detail"], i["where"])
        if diffs:
            for d in diffs[:3]:
                r.violation(f"{label}::witness", d + f" [structural rule: {bad[0]['detail'][:160]}]", bad[0]["where"])
        else:
            for i in bad:
                r.violation(i["construct"], i["detail"] + f" [witness evaluation not possible: {unsupported}]", i["where"])


# --------------------------------------------------------------------------- known findings
_KF = re.compile(
    r"^(?P<kind>finding|fixed):\s+property=(?P<prop>C\d+)\s+(?:(?P<commit>[0-9a-f]{7,40})\s+)?rule=(?P<rule>\S+)\s+"
    r"construct=(?P<construct>.+?)\s+--\s+(?P<text>.*)$"
)


def load_known(path=KNOWN_FILE):
    findings, fixed = {}, []
    if not os.path.exists(path):
        return findings, fixed
    with open(path, encoding="utf-8") as fh:
        for line in fh:
            line = line.strip()
            if not line or line.startswith("#"):
                continue
            m = _KF.match(line)
            if not m:
                continue
            d = m.groupdict()
            if d["kind"] == "finding":
                findings[(d["prop"], d["rule"], d["construct"])] = d["text"]
            else:
                fixed.append(d)
    return findings, fixed


# --------------------------------------------------------------------------- output
def finish(ctx, wall_s, seed, selftest=None, write=True, quiet=False):
    """Print the verdict lines, write evidence + replay files, return the exit code."""
    known, fixed = load_known()
    out = []
    vacuous = []
    for r in ctx.rules:
        n = sum(1 for i in r.instances if i["verdict"] != "info")
        out.append(f"rule {r.id}: {r.title} -- instances={n} discharged={r.discharged}/{r.obligations}")
        if n < r.min_instances:
            vacuous.append(f"{r.id}: {n} instances < {r.min_instances} confirmed by hand")
    if vacuous:
        for v in vacuous:
            out.append(f"ANALYSIS-ERROR property={ctx.prop} vacuous rule {v}")
    replay_dir = os.path.join(EVIDENCE_DIR, "replay")
    unlisted = []
    seen = set()
    n_replay = 0
    for f in ctx.findings:
        if f.key in seen:
            continue
        seen.add(f.key)
        if f.key in known:
            f.known = known[f.key]
            out.append(f"KNOWN-FINDING: property={f.prop} rule={f.rule} construct={f.construct} -- {f.message} [{f.where}]")
        else:
            unlisted.append(f)
    for f in unlisted:
        n_replay += 1
        path = os.path.join(replay_dir, f"{ctx.prop}-{n_replay}.json")
        if write:
            os.makedirs(replay_dir, exist_ok=True)
            with open(path, "w", encoding="utf-8") as fh:
                json.dump(f.as_dict(), fh, indent=1)
        out.append(f"  {f.rule} at {f.where}: {f.construct}: {f.message}")
        for w in f.witness[:12]:
            out.append(f"      witness: {w}")
        out.append(f"VIOLATION property={ctx.prop} replay={path}")
    code = 1 if unlisted else (2 if vacuous else 0)
    obligations = sum(r.obligations for r in ctx.rules)
    discharged = sum(r.discharged for r in ctx.rules)
    distinct = len({(r.id, i["construct"]) for r in ctx.rules for i in r.instances if i["verdict"] != "info"})
    samples = []
    for r in ctx.rules:
        for i in r.instances[:3]:
            samples.append({"rule": r.id, **i})
    ev = {
        "property_id": ctx.prop,
        "tier": ctx.tier,
        "seed": seed,
        "level": "other",
        "coverage": {
            "explanation": "static rule check over the parsed source of the working tree (never imported or run): "
            + "; ".join(f"{r.id} {r.title}" for r in ctx.rules),
            "evaluations": sum(len(r.instances) for r in ctx.rules),
            "distinct_nontrivial": distinct,
            "rule": "one evaluation per (rule, construct) instance found in the source; an instance is non-trivial when an "
            "obligation was actually examined on it (a path, table row or call site), info-only rows are not counted",
            "obligations": obligations,
            "discharged": discharged,
            "samples": samples[:60],
            "rules": [
                {"id": r.id, "title": r.title, "instances": len(r.instances), "obligations": r.obligations,
                 "discharged": r.discharged, "min_instances": r.min_instances}
                for r in ctx.rules
            ],
            "units_analysed": ctx.repo.units(),
            "known_findings": [f.as_dict() for f in ctx.findings if f.known is not None],
            "notes": ctx.notes,
            "exhaustive": True,
        },
        "assumptions": [
            "Python's ast module and the statement semantics encoded in gwfsa (paths, exception edges)",
            "stdlib/third-party semantics (asyncio, os.path, fnmatch, attrs, click) as documented",
            "no monkey-patching; dispatch only through the pyproject entry-point registry",
        ],
        "wall_s": round(wall_s, 3),
        "violations": len(unlisted),
    }
    if selftest is not None:
        ev["coverage"]["selftest"] = selftest
    if write:
        os.makedirs(EVIDENCE_DIR, exist_ok=True)
        with open(os.path.join(EVIDENCE_DIR, f"{ctx.prop}.json"), "w", encoding="utf-8") as fh:
            json.dump(ev, fh, indent=1, default=str)
    verdict = {0: "PASS", 1: "VIOLATION", 2: "ANALYSIS-ERROR"}[code]
    out.append(
        f"{ctx.prop}: {verdict} rules={len(ctx.rules)} obligations={discharged}/{obligations} "
        f"known={sum(1 for f in ctx.findings if f.known is not None)} violations={len(unlisted)} wall={wall_s:.2f}s"
    )
    if not quiet:
        print("\n".join(out))
    return code, out

"""C18 rules (placeholder: fail-closed until the rules are implemented)."""
from ..loader import AnalysisError


def run(ctx):
    raise AnalysisError("rules for C18 not implemented yet")

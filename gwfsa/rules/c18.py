"""C18 - spec hashes are recorded exactly on accepted submission, touch and clean."""
import ast

from ..index import FuncInfo, dotted, walk_no_nested, loc
from .c01 import rule_spec_clause, rule_guard_order
from .c05 import preview_closure
from .persist import (CORE, _calls, rule_atomic_replace, rule_close_writes, rule_exit_persists, rule_hash_after_accept)


def run(ctx):
    idx = ctx.index
    res = ctx.resolver

    r1 = ctx.rule("R1", "who may record or erase a spec hash: update <- accepted submit, touch; invalidate <- clean; nothing else", min_instances=4)
    fsh = idx.cls(f"{CORE}:FileSpecHashes")
    allowed_update = {"gwf.scheduling:submit_backend", "gwf.plugins.touch:touch_workflow.<locals>._visit"}
    allowed_inval = {"gwf.plugins.clean:clean"}
    n_upd = n_inv = 0
    for f in idx.functions.values():
        if f.cls is not None and f.cls.name in ("FileSpecHashes", "NoopSpecHashes"):
            continue
        for n in walk_no_nested(f.node):
            if not (isinstance(n, ast.Call) and isinstance(n.func, ast.Attribute)):
                continue
            recv = dotted(n.func.value) or ""
            if n.func.attr == "update" and "hash" in recv:
                n_upd += 1
                r1.check(f.key in allowed_update or f.key.startswith("gwf.plugins.touch:touch_workflow") or res.owned_by(f, ["gwf.scheduling:submit_backend", "gwf.plugins.touch:touch_workflow"]),
                         f"{f.module.relpath}::{f.qual}::update", "hash recorded by an owner (accepted submission / touch)",
                         f"{f.qual} records a spec hash: only an accepted submission and `gwf touch` may do that", loc(n, f.module))
            if n.func.attr == "invalidate" and "hash" in recv:
                n_inv += 1
                r1.check(f.key in allowed_inval or res.owned_by(f, ["gwf.plugins.clean:clean"]), f"{f.module.relpath}::{f.qual}::invalidate", "hash erased by clean",
                         f"{f.qual} erases a spec hash: only `gwf clean` may do that", loc(n, f.module))
    r1.check(n_upd >= 2 and n_inv >= 1, "src/gwf::hash-writers", f"{n_upd} update site(s), {n_inv} invalidate site(s)",
             f"found {n_upd} update and {n_inv} invalidate call sites (expected: submit_backend + touch, clean)", "src/gwf")
    # stores into .hashes only inside the store's own methods
    for f in idx.functions.values():
        for n in walk_no_nested(f.node):
            for e in res.node_effects(n, f):
                if e.kind == "STATE_MUT" and e.detail == "hashes":
                    own = f.cls is not None and f.cls.name == "FileSpecHashes" and (f.name in ("update", "invalidate", "__attrs_post_init__", "__init__") or res.owned_by(
                        f, [f"{CORE}:FileSpecHashes.update", f"{CORE}:FileSpecHashes.invalidate", f"{CORE}:FileSpecHashes.__attrs_post_init__", f"{CORE}:FileSpecHashes.__init__"]))
                    r1.check(own, f"{f.module.relpath}::{f.qual}::hashes-store", "table written by update/invalidate/load only",
                             f"{f.qual} writes the hash table directly", e.where)
    rule_hash_after_accept(ctx, r1)
    # previews leave the records unchanged
    roots = res.command_roots()
    preview_closure(ctx, r1, roots["status"], {}, "status")
    preview_closure(ctx, r1, roots["run"], {"dry_run": True}, "run --dry-run")

    from .evalhelpers import cached_witness, report_witness, run_command_witness
    report_witness(r1, "src/gwf/plugins/run.py::run::witness-project", "src/gwf/plugins/run.py:1", cached_witness(ctx, "run", run_command_witness),
                   "hashes are recorded for exactly the accepted submissions, none on a dry run or for a rejected submission",
                   select=lambda d: "hash" in d or "ends with" in d)
    from .schedmodel import cluster_witness
    report_witness(r1, "src/gwf/backends::<X>Ops.submit_target::scheduler-model", "src/gwf/backends/slurm.py:1", cached_witness(ctx, "cluster", cluster_witness),
                   "a submission the scheduler did not accept (its answer names no job) raises, so no hash is recorded for it",
                   select=lambda d: d.startswith("[refuse]") and "no job id" in d)
    r2 = ctx.rule("R2", "the use_spec_hashes switch (default off) selects the store; the disabled store is effect-free and never reports a change", min_instances=4)
    from .evalhelpers import eval_get_spec_hashes
    from .shared import rule_config_switch
    rule_config_switch(ctx, r2, "use_spec_hashes", "get_spec_hashes chooses between the file-backed and the no-op hash store")
    from ..symeval import tok
    sel, gsh = eval_get_spec_hashes(ctx)
    want_file = ("FileSpecHashes", (tok("WD") + "/.gwf/spec-hashes.json",))
    r2.check(sel.get(True) == want_file and isinstance(sel.get(False), tuple) and sel[False][0] == "NoopSpecHashes" and isinstance(sel.get(None), tuple)
             and sel[None][0] == "NoopSpecHashes", f"{gsh.module.relpath}::{gsh.qual}",
             "use_spec_hashes on -> FileSpecHashes(<project>/.gwf/spec-hashes.json); off or unset -> NoopSpecHashes",
             f"get_spec_hashes selects {{on: {sel.get(True)}, off: {sel.get(False)}, unset: {sel.get(None)}}}; expected the file store under <project>/.gwf only when "
             "use_spec_hashes is set, the no-op store otherwise", gsh.where)
    from .evalhelpers import cli_spec_switch_witness
    report_witness(r2, "src/gwf/cli.py::main::spec-switch", "src/gwf/cli.py:1", cached_witness(ctx, "cli-spec-switch", cli_spec_switch_witness),
                   "the store the commands get follows use_spec_hashes of the project configuration alone (3 settings x 2 environments, one of them all-\"0\")")
    # ... and `gwf config set use_spec_hashes yes|no` stores the boolean the selection reads (the configuration round trip of C20.R2)
    from .shared import import_rules as _imp18
    _imp18(ctx, r2, "C20", only={"R2"})
    reloc = sel.pop("relocated", None)
    if reloc is not None and reloc[0] is not Ellipsis and reloc[1]:
        p_ = str(reloc[0])
        anchored = p_.startswith(tok("WD")) or p_.startswith("/") or p_.startswith("⟦abs:" + tok("WD")) or p_.startswith("⟦norm:" + tok("WD"))
        r2.check(anchored, f"{gsh.module.relpath}::{gsh.qual}::relocated", f"optional settings {reloc[1]} keep the store anchored in the project directory",
                 f"with the optional setting(s) {reloc[1]} given as the relative path 'elsewhere/custom.json' the hash file is opened at {p_.replace(tok('WD'), '<project>')!r}: a relative location "
                 "is resolved against the directory gwf is invoked from, so records written from the project root are invisible from a sub-directory - records do not persist "
                 "across invocations", gsh.where)
    try:
        defaults = ctx.ev.eval_global("gwf.conf", "CONFIG_DEFAULTS")
        r2.check(defaults.get("use_spec_hashes") is False, "src/gwf/conf.py::CONFIG_DEFAULTS.use_spec_hashes", "default off",
                 f"use_spec_hashes defaults to {defaults.get('use_spec_hashes')!r}: with the default configuration a spec edit must never cause a re-run", "src/gwf/conf.py:1")
    except Exception as exc:
        r2.violation("src/gwf/conf.py::CONFIG_DEFAULTS", f"cannot evaluate the configuration defaults ({exc})", "src/gwf/conf.py:1")
    noop = idx.cls(f"{CORE}:NoopSpecHashes")
    for m in noop.methods.values():
        _v, effs, _u = res.reach(m, stop=lambda f: f.cls is not None and f.cls.name != "NoopSpecHashes")
        effs = [e for e in effs if e.finfo.cls is noop]
        r2.check(not effs, f"{m.module.relpath}::{m.qual}", "effect-free", f"NoopSpecHashes.{m.name} has effects {sorted({e.kind for e in effs})}: things happen while hashing is disabled", m.where)

    r3 = ctx.rule("R3", "has_changed / update / invalidate agree on key (target.name) and hash (hash_spec(target.spec)); records persist", min_instances=8)
    rule_spec_clause(ctx, r3)
    rule_exit_persists(ctx, r3, ("spec hashes",))
    from .c09 import rule_run_inside_stores
    rule_run_inside_stores(ctx, r3, labels=("spec hashes",))
    rule_close_writes(ctx, r3, ("spec hashes",))
    rule_atomic_replace(ctx, r3, ("spec hashes",))
    from .shared import rule_sibling_call_agreement
    rule_sibling_call_agreement(ctx, r3)

    r4 = ctx.rule("R4", "the spec test is part of the staleness decision (consulted first)")
    rule_guard_order(ctx, r4)
    # "editing a spec re-runs that target and everything downstream": a stale target is submitted whatever became of its previous job (decision table of C02)
    from .shared import import_rules
    import_rules(ctx, r4, "C02", only={"R1"})

"""C02 rules (placeholder: fail-closed until the rules are implemented)."""
from ..loader import AnalysisError


def run(ctx):
    raise AnalysisError("rules for C02 not implemented yet")

"""C02 - submission plan: stale cone only, once each, dependencies first, exact prerequisites."""
import ast

from ..consteval import CantEval, EnumVal, enum_members
from ..index import dotted, walk_no_nested, loc
from ..paths import NEXT, Explorer, Semantics, State
from .schedtable import SCHED, _calls, explore_schedule, rule_decision_table, rule_submit_discipline


class DepLoopSem(Semantics):
    """Body of the dependency loop: under which scheduled statuses of the dependency is it appended to the prerequisite list?"""

    def __init__(self, ctx, finfo, status_var, smembers):
        super().__init__(ctx.index, finfo)
        self.ctx = ctx
        self.status_var = status_var
        self.smembers = smembers
        self.appends = []

    def domain(self, text):
        return self.smembers if text == self.status_var else None

    def truthy(self, v):
        return True

    def const(self, expr, state):
        t = ast.unparse(expr)
        if t in state.vars:
            return state.vars[t]
        try:
            v = self.ctx.ev.eval(expr, self.module)
        except CantEval:
            return None
        if isinstance(v, EnumVal):
            return frozenset([v.member])
        if isinstance(v, (tuple, list, set, frozenset)) and all(isinstance(x, EnumVal) for x in v):
            return frozenset(x.member for x in v)
        return None

    def assign(self, target_text, value_expr, state):
        return None

    def may_raise(self, node, state):
        return []

    def effect(self, node, state):
        if isinstance(node, tuple):
            return state
        for c in _calls(node):
            if isinstance(c.func, ast.Attribute) and c.func.attr in ("append", "add"):
                self.appends.append((c, state.vars.get(self.status_var, frozenset(self.smembers))))
                state = state.with_fact("appended", True)
        return state


def _membership_condition(ctx, sem, inner):
    """(condition expr, the sub-expression standing for the dependency's scheduled status, dep variable, appended expr, list name, wrapper name, site)
    for either the for-loop form or the comprehension form of the prerequisite list."""
    def wrapper_call(expr, depvar):
        for c in _calls(expr):
            if isinstance(c.func, ast.Name) and len(c.args) == 1 and dotted(c.args[0]) == depvar and c.func.id != sem.status_p:
                return c
        return None

    if sem.dep_comp is not None:
        asg, comp = sem.dep_comp
        g = comp.generators[0]
        depvar = dotted(g.target)
        if len(g.ifs) != 1:
            return None
        wc = wrapper_call(g.ifs[0], depvar)
        if wc is None:
            return None
        return g.ifs[0], wc, depvar, comp.elt, asg.targets[0].id, wc.func.id, asg
    lp = sem.dep_loop
    if lp is None:
        return None
    depvar = dotted(lp.target)
    status_var = None
    wname = None
    for st in lp.body:
        if isinstance(st, ast.Assign) and isinstance(st.targets[0], ast.Name):
            wc = wrapper_call(st.value, depvar)
            if wc is not None and st.value is wc:
                status_var, wname = st.targets[0].id, wc.func.id
    for st in lp.body:
        if isinstance(st, ast.If):
            apps = [c for s2 in st.body for c in _calls(s2) if isinstance(c.func, ast.Attribute) and c.func.attr in ("append", "add")]
            if not apps:
                continue
            wc = wrapper_call(st.test, depvar)
            if wc is not None:
                return st.test, wc, depvar, apps[0].args[0] if apps[0].args else None, dotted(apps[0].func.value), wc.func.id, lp
            if status_var is not None:
                names = [n for n in ast.walk(st.test) if isinstance(n, ast.Name) and n.id == status_var]
                if names:
                    return st.test, names[0], depvar, apps[0].args[0] if apps[0].args else None, dotted(apps[0].func.value), wname, lp
    return None


def _prerequisites_structural(ctx, r):
    from ..astutil import clone
    idx = ctx.index
    outer, inner, sem, rows = explore_schedule(ctx)
    con = f"{inner.module.relpath}::{inner.qual}::dependency-loop"
    if sem.dep_loop is None and sem.dep_comp is None:
        r.violation(con, "loop over all dependencies of the target not found", inner.where)
        return None
    smembers = enum_members(idx, idx.cls("gwf.core:Status"))
    mc = _membership_condition(ctx, sem, inner)
    if mc is None:
        r.violation(con, "the dependency loop does not add a dependency to the prerequisite list under a test of its scheduled status "
                    "(taken from the memoised scheduler)", inner.where)
        return None
    cond, status_expr, depvar, appended, lst, wname, site = mc
    if isinstance(site, ast.For):
        brk = [b for b in ast.walk(site) if isinstance(b, (ast.Break, ast.Continue, ast.Return))]
        r.check(not brk, con + "::complete", "loop has no break/continue/return", "the dependency loop can stop early: later dependencies are neither decided nor listed",
                loc(site, inner.module))
    else:
        r.ok(con + "::complete", "comprehension over all dependencies", loc(site, inner.module))
    # evaluate the condition for every Status member standing for the dependency's scheduled status
    got = set()
    undecided = None
    target_id = id(status_expr)

    class _Sub(ast.NodeTransformer):
        def generic_visit(self, node):
            return super().generic_visit(node)

    def substituted():
        def rec(n):
            if n is status_expr:
                return ast.Name(id="__st", ctx=ast.Load())
            if isinstance(n, list):
                return [rec(x) for x in n]
            if not isinstance(n, ast.AST):
                return n
            new = type(n)()
            for f in n._fields:
                if hasattr(n, f):
                    setattr(new, f, rec(getattr(n, f)))
            return new
        return ast.fix_missing_locations(ast.copy_location(rec(cond), cond))

    test = substituted()
    for n in ast.walk(test):
        n._module = inner.module
    for m in smembers:
        try:
            if ctx.ev.eval(test, inner.module, {"__st": EnumVal("gwf.core.Status", m)}):
                got.add(m)
        except CantEval as exc:
            undecided = str(exc)
    want = frozenset(smembers) - {"COMPLETED"}
    if undecided:
        r.violation(con + "::states", f"cannot evaluate the prerequisite test `{ast.unparse(cond)}` over the Status members ({undecided})", loc(cond, inner.module))
    elif frozenset(got) != want:
        miss, extra = sorted(want - got), sorted(got - want)
        r.violation(con + "::states", "a dependency becomes a prerequisite for scheduled statuses "
                    f"{sorted(got)}; the property requires exactly the not-complete ones {sorted(want)}"
                    + (f" (missing {miss}: such a dependency is submitted in this run or in flight, but the target would not wait for it)" if miss else "")
                    + (f" (extra {extra}: a complete dependency has no job to wait for)" if extra else ""), loc(cond, inner.module))
    else:
        r.ok(con + "::states", f"dependency listed iff its scheduled status is in {sorted(want)}", loc(cond, inner.module))
    r.check(appended is not None and dotted(appended) == depvar and lst in sem.lists, con + "::element", "the dependency itself goes into the list later passed to submit",
            "what is collected is not the dependency target (or goes to another list)", loc(site, inner.module))
    try:
        ss = ctx.ev.eval_global(SCHED, "SUBMITTED_STATES")
        got2 = frozenset(x.member for x in ss)
        r.check(got2 == want, "src/gwf/scheduling.py::SUBMITTED_STATES", "== all Status members but COMPLETED",
                f"SUBMITTED_STATES = {sorted(got2)} differs from all-but-COMPLETED {sorted(want)}", "src/gwf/scheduling.py:10")
    except Exception:
        r.info("src/gwf/scheduling.py::SUBMITTED_STATES", "constant not present as a plain table (the loop evaluation above decides)")
    return wname


def _memo_structural(ctx, r, wrapper_name):
    idx = ctx.index
    outer, inner, sem, rows = explore_schedule(ctx)
    ocon = f"{outer.module.relpath}::{outer.qual}"
    # who calls the decision function
    callers = []
    for f in [outer] + list(outer.nested.values()):
        for n in walk_no_nested(f.node):
            if isinstance(n, ast.Call) and isinstance(n.func, ast.Name) and n.func.id == inner.name:
                callers.append((f, n))
    wrapper = outer.nested.get(wrapper_name) if wrapper_name else None
    if wrapper is None:
        # memoisation by decorator is an accepted idiom
        decos = [d for d in inner.decorator_names() if d and (d.endswith("lru_cache") or d.endswith("cache"))]
        unbounded = False
        for d in inner.node.decorator_list:
            if isinstance(d, ast.Call):
                for kw in d.keywords:
                    if kw.arg == "maxsize" and isinstance(kw.value, ast.Constant) and kw.value.value is None:
                        unbounded = True
            elif (dotted(d) or "").endswith("cache") and not (dotted(d) or "").endswith("lru_cache"):
                unbounded = True
        r.check(bool(decos) and unbounded, ocon + "::memo", "decision function memoised by an unbounded cache decorator",
                "the decision function is not memoised (no cache guard, no unbounded cache decorator): a shared dependency is decided - and submitted - once per dependent",
                inner.where)
        return
    wcon = f"{wrapper.module.relpath}::{wrapper.qual}"
    only_wrapper = callers and all(f.key == wrapper.key for f, _n in callers)
    r.check(only_wrapper, ocon + "::who-may-call", f"the decision function is called only by the memo wrapper {wrapper.name}",
            f"the decision function is called directly from {[f.qual for f, _ in callers if f.key != wrapper.key] or 'nowhere'}, bypassing the memo: "
            "a target can be submitted more than once", inner.where)
    tparam = wrapper.positional_params()[0]

    class MemoSem(Semantics):
        def may_raise(self, node, state):
            return []

        def test_hook(self, expr, state):
            e, neg = expr, False
            if isinstance(e, ast.UnaryOp) and isinstance(e.op, ast.Not):
                e, neg = e.operand, True
            if isinstance(e, ast.Compare) and len(e.ops) == 1 and isinstance(e.ops[0], (ast.In, ast.NotIn)) and dotted(e.left) == tparam:
                inn = isinstance(e.ops[0], ast.In)
                st = state.with_fact("cache_name", dotted(e.comparators[0]))
                return [((True ^ neg), st.with_fact("hit", inn)), ((False ^ neg), st.with_fact("hit", not inn))]
            return None

        def effect(self, node, state):
            if isinstance(node, tuple):
                return state
            for c in _calls(node):
                if isinstance(c.func, ast.Name) and c.func.id == inner.name:
                    state = state.with_fact("decided", state.facts.get("decided", 0) + 1).with_fact("decided_arg", dotted(c.args[0]) if c.args else None)
                    if isinstance(node, ast.Assign) and isinstance(node.targets[0], ast.Name):
                        state = state.with_fact("result_var", node.targets[0].id)
            if isinstance(node, ast.Assign) and isinstance(node.targets[0], ast.Subscript) and dotted(node.targets[0].slice) == tparam:
                v = node.value
                direct = isinstance(v, ast.Call) and isinstance(v.func, ast.Name) and v.func.id == inner.name
                via = isinstance(v, ast.Name) and v.id == state.facts.get("result_var")
                state = state.with_fact("stored", dotted(node.targets[0].value) if (direct or via) else "?")
            return state

    msem = MemoSem(idx, wrapper)
    mouts = Explorer(msem).run(State())
    problems = []
    for o in mouts:
        f_ = o.state.facts
        cname = f_.get("cache_name")
        ret = ast.unparse(o.payload) if isinstance(o.payload, ast.AST) else None
        if f_.get("hit") is True:
            if f_.get("decided"):
                problems.append("a target that is already in the cache is decided again")
            if ret != f"{cname}[{tparam}]":
                problems.append(f"a cache hit returns `{ret}` instead of the cached status")
        elif f_.get("hit") is False:
            if f_.get("decided") != 1 or f_.get("decided_arg") != tparam:
                problems.append("a target that is not in the cache is not decided exactly once")
            if f_.get("stored") != cname:
                problems.append("the decided status is not stored in the cache")
            if ret not in (f"{cname}[{tparam}]", f_.get("result_var")):
                problems.append(f"the wrapper returns `{ret}` instead of the decided status")
        else:
            problems.append("the wrapper does not test whether the target is already in the cache")
    cache_name = next((o.state.facts.get("cache_name") for o in mouts if o.state.facts.get("cache_name")), None)
    r.check(not problems and mouts, wcon, "decides a target only if it is not in the cache, stores and returns the (cached) status",
            "the memo wrapper is broken: " + "; ".join(sorted(set(problems))) + " - targets are decided (and submitted) repeatedly or get a wrong status", wrapper.where)
    # endpoints loop and returned map
    loop_ok = False
    for n in walk_no_nested(outer.node):
        if isinstance(n, ast.For) and "endpoints" in ast.unparse(n.iter) and not any(isinstance(x, ast.IfExp) for x in ast.walk(n.iter)):
            for c in _calls(n):
                if isinstance(c.func, ast.Name) and c.func.id == wrapper.name and dotted(c.args[0]) == dotted(n.target):
                    loop_ok = True
    ep = outer.positional_params()[0]
    r.check(loop_ok, ocon + "::endpoints", "every requested endpoint is scheduled through the memo wrapper",
            "schedule() does not enter the scheduler from every requested endpoint", outer.where)
    ret_cache = any(isinstance(n, ast.Return) and dotted(n.value) == cache_name for n in walk_no_nested(outer.node))
    r.check(ret_cache, ocon + "::result", "returns the status map of the visited cone", "schedule() does not return the status map it built", outer.where)


class SelSem(Semantics):
    """Which expression selects the endpoints, depending on whether target patterns were given."""

    def __init__(self, ctx, finfo, sinks):
        super().__init__(ctx.index, finfo)
        from ..astutil import single_assignments
        self.sinks = sinks
        self.found = []

    def domain(self, text):
        return ("EMPTY", "NONEMPTY") if text == "targets" else None

    def truthy(self, v):
        return v == "NONEMPTY"

    def may_raise(self, node, state):
        return []

    def effect(self, node, state):
        if isinstance(node, tuple):
            return state
        if isinstance(node, ast.Assign) and len(node.targets) == 1 and isinstance(node.targets[0], ast.Name):
            state = state.with_fact("val:" + node.targets[0].id, ast.unparse(node.value))
        for c in _calls(node) if isinstance(node, ast.AST) else []:
            cn = self.index.canon(c.func, self.module) if isinstance(c.func, (ast.Name, ast.Attribute)) else None
            if cn in self.sinks and c.args:
                a = c.args[0]
                txt = state.facts.get("val:" + a.id, a.id) if isinstance(a, ast.Name) else ast.unparse(a)
                self.found.append((state.vars.get("targets", frozenset(["EMPTY", "NONEMPTY"])), txt, c))
        return state

    def assign(self, target_text, value_expr, state):
        return None


def rule_cone_selection(ctx, r):
    idx = ctx.index
    for key, what in (("gwf.plugins.run:run", "run"), ("gwf.plugins.touch:touch", "touch")):
        f = idx.func(key)
        con = f"{f.module.relpath}::{f.qual}::endpoints"
        sem = SelSem(ctx, f, {"gwf.scheduling.submit_workflow", "gwf.plugins.touch.touch_workflow"})

        class Ex(Explorer):
            def _assign_targets(self, targets, value, state):
                st = super()._assign_targets(targets, value, state)
                if len(targets) == 1 and isinstance(targets[0], ast.Name) and value is not None:
                    st = st.with_fact("val:" + targets[0].id, ast.unparse(value))
                return st

        Ex(sem).run(State())
        sel = {}
        for dom, txt, c in sem.found:
            for d in dom:
                sel.setdefault(d, set()).add(txt.replace('"', "'"))
        ok = sel.get("NONEMPTY") == {"filter_names(graph, targets)"} and sel.get("EMPTY") == {"graph.endpoints()"}
        why = f"with patterns given the endpoints are {sorted(sel.get('NONEMPTY', []))}, without patterns {sorted(sel.get('EMPTY', []))}"
        if sel.get("EMPTY") and sel.get("EMPTY") != {"graph.endpoints()"} and any("or graph.endpoints()" in t for t in sel["EMPTY"]):
            why += " (when patterns are given but match nothing the whole workflow is selected instead of nothing)"
        if not ok:
            # shape not recognised: the command evaluated on the witness project decides (named endpoint, pattern matching nothing, default)
            from .evalhelpers import cached_witness, run_command_witness, touch_command_witness
            n_w, diffs, unsup = cached_witness(ctx, what, run_command_witness if what == "run" else touch_command_witness)
            diffs = [d for d in diffs if "submits" in d or "touches" in d or "ends with" in d]
            if unsup is None and not diffs:
                r.ok(con, f"selection decided by {n_w} evaluated invocations of `gwf {what}` (requested names, a pattern matching nothing, default = all endpoints)", f.where)
                continue
            why += "; witness: " + (diffs[0] if diffs else f"not evaluable ({unsup})")
        r.check(ok, con, "filter_names(graph, targets) when patterns are given, graph.endpoints() otherwise",
                f"{what}: the cone is not `the targets matching the given patterns, or all endpoints when none are given`: {why}", f.where)
    # filter_names is exactly NameFilter(patterns).apply(targets)
    fn = idx.func("gwf.filtering:filter_names")
    rets = [n for n in walk_no_nested(fn.node) if isinstance(n, ast.Return)]
    p = fn.positional_params()
    ok = len(rets) == 1 and ast.unparse(rets[0].value).replace(" ", "") in (f"NameFilter(patterns={p[1]}).apply({p[0]})", f"NameFilter({p[1]}).apply({p[0]})")
    extra = [n for n in walk_no_nested(fn.node) if isinstance(n, (ast.If, ast.For, ast.While, ast.Try))]
    if not (ok and not extra):
        # shape not recognised (extra parameters, helpers): both spellings evaluated over the pattern table must select the same names
        from .shared import NAME_WITNESS_PATTERNS, NAME_WITNESS_TARGETS, eval_name_selection
        from .evalhelpers import target_obj
        from ..symeval import PureInterp, Raised, Unsupported
        nf_cls = idx.cls("gwf.filtering:NameFilter")
        same, n_w = nf_cls is not None, 0
        for pats in NAME_WITNESS_PATTERNS if nf_cls is not None else ():
            via_fn = eval_name_selection(ctx, pats)
            try:
                interp = PureInterp(ctx)
                flt = interp.apply(nf_cls, [], {"patterns": list(pats)}, 0)
                got = interp.apply(("bound", idx.method(nf_cls, "apply"), flt), [[target_obj(ctx, name=n_) for n_ in NAME_WITNESS_TARGETS]], {}, 0)
                via_cls = sorted(getattr(t, "name", repr(t)) for t in list(got))
            except (Raised, Unsupported) as exc:
                via_cls = f"<{type(exc).__name__}>"
            n_w += 1
            if isinstance(via_fn, str) or via_fn != via_cls:
                same = False
                break
        if same and n_w:
            r.ok(f"{fn.module.relpath}::{fn.qual}", f"shape not recognised; filter_names(targets, patterns) and NameFilter(patterns).apply(targets) select the same names on {n_w} pattern sets", fn.where)
            ok, extra = True, []
    r.check(ok and not extra, f"{fn.module.relpath}::{fn.qual}", "filter_names == NameFilter(patterns).apply(targets): run/touch/cancel and status expand patterns identically",
            "filter_names no longer simply delegates to NameFilter: `gwf run PATTERN` and `gwf status PATTERN` can select different targets", fn.where)
    nf = idx.func("gwf.filtering:NameFilter.apply")
    txt = ast.unparse(nf.node)
    uses_fnmatch = any(idx.canon(c.func, nf.module) in ("fnmatch.filter", "fnmatch.fnmatch", "fnmatch.fnmatchcase") for c in _calls(nf.node)
                       if isinstance(c.func, (ast.Name, ast.Attribute)))
    by_name = ".name" in txt
    all_patterns = "self.patterns" in txt
    from .shared import rule_name_selection
    rule_name_selection(ctx, r, "the endpoints of `gwf run PATTERN...`")
    # submit_workflow hands the endpoints to schedule
    from ..inline import inlined
    sw = inlined(ctx, idx.func("gwf.scheduling:submit_workflow"))
    ok = False
    for c in _calls(sw.node):
        if isinstance(c.func, ast.Name) and c.func.id == "schedule" and c.args and dotted(c.args[0]) == sw.positional_params()[0]:
            ok = True
    r.check(ok, f"{sw.module.relpath}::{sw.qual}", "schedule(endpoints, ...) receives the selected endpoints unchanged",
            "submit_workflow does not pass the selected endpoints to schedule()", sw.where)


def rule_id_lookup(ctx, r):
    """TrackingBackend.submit evaluated on symbolic ids: every prerequisite target becomes the id tracked under its name, the whole
    list reaches ops.submit_target together with the target, the returned id is recorded under the target's name and marked SUBMITTED."""
    from .evalhelpers import eval_submit, S
    from ..symeval import tok
    res, err, m = eval_submit(ctx)
    con = f"{m.module.relpath}::{m.qual}"
    if err is not None:
        r.violation(con + "::ids", f"submitting a target whose prerequisites A and B are tracked fails or cannot be followed: {err}", m.where)
        return
    captured, tracked, states = res
    r.check(captured.get("ids") == [tok("ID_A"), tok("ID_B")] and captured.get("target") == "T", con + "::ids",
            "prerequisites [A, B] -> [id tracked for A, id tracked for B] handed to ops.submit_target(target, ids)",
            f"with prerequisites [A, B] tracked as id_A, id_B the scheduler is given {captured.get('ids')} for target {captured.get('target')}: the prerequisite ids must be "
            "exactly the ids tracked under the prerequisites' names, all of them, in order", m.where)
    # ids are opaque values of the backend: the local pool numbers its tasks 0, 1, 2, ... (0 is falsy)
    res0, err0, _m = eval_submit(ctx, 0, 1)
    ids0 = res0[0].get("ids") if res0 else err0
    r.check(ids0 == [0, 1], con + "::opaque-ids", "job ids are passed on whatever their value (the local pool's first task has id 0)",
            f"with prerequisites tracked as job ids 0 and 1 (the local pool's first two tasks) the scheduler is given {ids0}: an id is dropped because of its value, "
            "so the dependent is started without waiting for that prerequisite", m.where)
    r.check(tracked.get("T") == tok("NEW") and tracked.get("A") == tok("ID_A") and tracked.get("B") == tok("ID_B"), con + "::record",
            "the id returned by the scheduler is recorded under the target's name (other entries untouched)",
            f"after the submission the tracked table is {tracked}: the new id must replace the target's old entry and nothing else", m.where)
    from .evalhelpers import eval_backend_session
    sess, err_s, _m = eval_backend_session(ctx)
    if sess is None:
        if "[not-modelled]" not in str(err_s):
            r.violation(con + "::resubmitted-prerequisite", f"the calls the scheduler makes for a chain A -> B whose A runs again (status, submit A, submit B after A, cancel) fail: {err_s}", m.where)
    else:
        for d_ in sess:
            r.violation(con + "::resubmitted-prerequisite", d_, m.where)
        if not sess:
            r.ok(con + "::resubmitted-prerequisite", "status / submit / cancel always answer for the job submitted last under a name, also within one process", m.where)
    r.check(states.get(tok("NEW")) == S("SUBMITTED"), con + "::mark", "the new id is marked SUBMITTED in memory",
            f"the new job id is not marked SUBMITTED after the submission (state table {states}): a later decision in the same run would submit the target again", m.where)


def rule_prerequisites(ctx, r):
    from .schedtable import _schedule_w
    return ctx.guarded(r, _prerequisites_structural, _schedule_w(ctx), "src/gwf/scheduling.py::schedule")


def rule_memo(ctx, r, wrapper_name):
    from .schedtable import _schedule_w
    return ctx.guarded(r, lambda c, rr: _memo_structural(c, rr, wrapper_name), _schedule_w(ctx), "src/gwf/scheduling.py::schedule")


def run(ctx):
    r1 = ctx.rule("R1", "decision table of the scheduler: 6 backend states x dependencies pending x stale -> submits, shown status")
    rule_decision_table(ctx, r1)
    from .evalhelpers import cached_witness, report_witness, run_command_witness
    report_witness(r1, "src/gwf/plugins/run.py::run::witness-project", "src/gwf/plugins/run.py:1", cached_witness(ctx, "run", run_command_witness),
                   "the run command submits exactly what the property prescribes with exactly the incomplete direct dependencies as prerequisites",
                   select=lambda d: "submits" in d or "ends with" in d)
    r1b = ctx.rule("R1b", "one submit per decision, nothing evaluated after it, dependencies decided first on every path", min_instances=5)
    rule_submit_discipline(ctx, r1b)
    r2 = ctx.rule("R2", "prerequisites = direct dependencies whose scheduled status is not complete", min_instances=3)
    wrapper_name = rule_prerequisites(ctx, r2)
    r3 = ctx.rule("R3", "each target is decided once (memo) and the scheduler is entered from every requested endpoint", min_instances=3)
    rule_memo(ctx, r3, wrapper_name)
    r4 = ctx.rule("R4", "the cone is the requested patterns (default all endpoints); patterns expand identically everywhere", min_instances=4)
    rule_cone_selection(ctx, r4)
    from .shared import rule_targets_argument, rule_flag_default, rule_calls_bind
    rule_calls_bind(ctx, r4, ("gwf.plugins.run", "gwf.scheduling"))
    rule_targets_argument(ctx, r4, "gwf.plugins.run:run", "`gwf run [NAMES]`")
    rule_flag_default(ctx, r4, "gwf.plugins.run:run", "--dry-run", "`gwf run` would never submit anything")
    r5 = ctx.rule("R5", "prerequisite targets are translated to the tracked job ids by name, all of them", min_instances=2)
    rule_id_lookup(ctx, r5)
    # "pending or running -> never submitted again": the job stays on record whatever part of the workflow a command looks at
    from .persist import rule_table_ownership
    rule_table_ownership(ctx, r5, ("tracked jobs",))
    from .schedmodel import cluster_witness
    cw = cached_witness(ctx, "cluster", cluster_witness)
    report_witness(r5, "src/gwf/backends::<X>Ops.submit_target::scheduler-model", "src/gwf/backends/slurm.py:1", cw,
                   "several submissions on one Ops object: each job holds on exactly the ids it was given (0, 1, 3, 1025, 2050 of them) and nothing left over",
                   select=lambda d: d.startswith("[submit]"))
    report_witness(r1, "src/gwf/backends::<X>Ops.get_job_states::scheduler-model", "src/gwf/backends/slurm.py:1", cw,
                   "a history with purged, running, failed, pending and finished jobs: every tracked id gets the state of its own job (a pending job never looks absent)",
                   select=lambda d: d.startswith("[states]") and "changes the queue" not in d)
    r6 = ctx.rule("R6", "the 'stale' column of the table is the make-style decision (composition with C01: missing output, newest input vs oldest output)", min_instances=3)
    from .shared import import_rules
    import_rules(ctx, r6, "C01", only={"R1", "R2", "R3"})
    # the 'backend state' column: a pending or running job is reported under the id that was tracked for it (ids agree between writer and reader, all backends)
    import_rules(ctx, r1, "C08", only={"R2"})

"""C14 - the worker pool server survives misbehaving clients and keeps tasks and ids intact (structural isolation)."""
import ast

from ..consteval import CantEval
from ..index import dotted, walk_no_nested, loc, ancestors
from ..paths import BREAK, CONTINUE, NEXT, RAISE, RETURN, Explorer, Semantics, State, fmt_trace
from .localpool import LOCAL, _calls, scheduler_info


def _kind_branches(ctx, hc):
    """{kind constant: If node} for the `kind == "..."` dispatch in handle_connection, plus the name of the kind variable."""
    kind_var = None
    msg_var = None
    for n in walk_no_nested(hc.node):
        if isinstance(n, ast.Assign) and isinstance(n.value, ast.Call) and isinstance(n.value.func, ast.Attribute) \
                and n.value.func.attr == "pop" and n.value.args and isinstance(n.value.args[0], ast.Constant) \
                and n.value.args[0].value == "__kind__" and isinstance(n.targets[0], ast.Name):
            kind_var = n.targets[0].id
            msg_var = dotted(n.value.func.value)
    branches = {}
    for n in walk_no_nested(hc.node):
        if isinstance(n, ast.If) and isinstance(n.test, ast.Compare) and len(n.test.ops) == 1 and isinstance(n.test.ops[0], ast.Eq):
            l, r = n.test.left, n.test.comparators[0]
            if isinstance(r, ast.Name) and isinstance(l, ast.Constant):
                l, r = r, l
            if isinstance(l, ast.Name) and l.id == kind_var and isinstance(r, ast.Constant):
                branches[r.value] = n
    return kind_var, msg_var, branches


def _branch_of(node, branches):
    """Kind constant of the dispatch branch whose *body* contains node (None if outside all)."""
    for a in [node] + list(ancestors(node)):
        p = getattr(a, "_parent", None)
        if isinstance(p, ast.If):
            for k, br in branches.items():
                if br is p and a in p.body:
                    return k
    return None


class ConnSem(Semantics):
    """One iteration of the connection loop with the line read being EOF or a LINE."""

    loop_bound = 1

    def __init__(self, ctx, finfo, data_var):
        super().__init__(ctx.index, finfo)
        self.data = data_var

    def domain(self, text):
        if text == self.data:
            return ("EOF", "LINE")
        return None

    def truthy(self, v):
        return v == "LINE"

    def const(self, expr, state):
        t = ast.unparse(expr)
        if t in state.vars:
            return state.vars[t]
        if isinstance(expr, ast.Constant):
            if expr.value in (b"", ""):
                return frozenset(["EOF"])
            if expr.value is None:
                return frozenset(["NONE"])
        return None

    def assign(self, target_text, value_expr, state):
        if target_text == self.data:
            return frozenset(["EOF", "LINE"])
        return None

    def may_raise(self, node, state):
        out = []
        if isinstance(node, ast.AST):
            for c in _calls(node):
                canon = self.index.canon(c.func, self.module) if isinstance(c.func, (ast.Name, ast.Attribute)) else None
                if canon in ("json.loads",) or (isinstance(c.func, ast.Name) and c.func.id == "decode"):
                    out.append("json.JSONDecodeError")
                if isinstance(c.func, ast.Attribute) and c.func.attr == "pop" and len(c.args) == 1:
                    out.append("builtins.KeyError")
        return out

    def effect(self, node, state):
        if isinstance(node, tuple):
            return state
        if isinstance(node, ast.AST):
            for c in _calls(node):
                canon = self.index.canon(c.func, self.module) if isinstance(c.func, (ast.Name, ast.Attribute)) else None
                if canon == "json.loads" and c.args and state.vars.get(ast.unparse(c.args[0])) == frozenset(["EOF"]):
                    return None  # json.loads(b"") cannot complete
                if isinstance(c.func, ast.Attribute) and c.func.attr in ("readline", "read", "readuntil", "readexactly"):
                    state = state.with_fact("reads", state.facts.get("reads", 0) + 1)
        return state


def _run_structural(ctx):
    idx = ctx.index
    info = scheduler_info(ctx)
    from ..inline import inlined
    hc = inlined(ctx, idx.func(f"{LOCAL}:Server.handle_connection"))
    hcon = f"{hc.module.relpath}::{hc.qual}"
    kind_var, msg_var, branches = _kind_branches(ctx, hc)

    # ---------------- R1 lifecycle
    r1 = ctx.rule("R1", "the server and the scheduler are stopped only by an explicit shutdown request", min_instances=2)
    if kind_var is None or not branches:
        r1.violation(hcon, "request dispatch on the message kind not found", hc.where)
    stoppers = []
    for n in walk_no_nested(hc.node):
        if isinstance(n, ast.Call) and isinstance(n.func, ast.Attribute):
            recv = ast.unparse(n.func.value)
            if (recv.endswith(".server") and n.func.attr in ("close", "abort_clients", "close_clients")) or \
                    (recv.endswith(".scheduler") and n.func.attr in ("shutdown", "kill")):
                stoppers.append(n)
        if isinstance(n, ast.Call):
            canon = idx.canon(n.func, hc.module) if isinstance(n.func, (ast.Name, ast.Attribute)) else None
            if canon in ("sys.exit", "os._exit", "builtins.exit", "builtins.quit") or (isinstance(n.func, ast.Attribute) and n.func.attr == "stop"
                                                                                       and "loop" in ast.unparse(n.func.value)):
                stoppers.append(n)
        if isinstance(n, ast.Raise) and n.exc is not None and (idx.canon(n.exc.func if isinstance(n.exc, ast.Call) else n.exc, hc.module) or "") in (
                "builtins.SystemExit", "builtins.KeyboardInterrupt"):
            stoppers.append(n)
    for n in stoppers:
        k = _branch_of(n, branches)
        r1.check(k == "shutdown", f"{hcon}::{ast.unparse(n)[:40]}", "reachable only under kind == 'shutdown'",
                 f"`{ast.unparse(n)[:60]}` in the connection handler is reachable for request kind {k!r}: one client can stop the pool for everybody",
                 loc(n, hc.module))
    if not stoppers:
        r1.info(hcon, "no server/scheduler stop call in the handler")
    # installed as client_connected_cb of asyncio.start_server : one task per connection
    ss = idx.func(f"{LOCAL}:Server.start_server")
    installed = False
    for n in walk_no_nested(ss.node):
        if isinstance(n, ast.Call) and idx.canon(n.func, ss.module) == "asyncio.start_server" and n.args:
            if isinstance(n.args[0], ast.Attribute) and n.args[0].attr == hc.name:
                installed = True
    r1.check(installed, f"{ss.module.relpath}::{ss.qual}", "handle_connection is the client_connected_cb of asyncio.start_server (one task per connection)",
             "handle_connection is not installed as the per-connection callback of asyncio.start_server", ss.where)
    # other functions of the module must not stop the scheduler except shutdown()/kill() themselves
    for f in idx.functions.values():
        if f.module.name != LOCAL or f.key == hc.key:
            continue
        # names that hold worker tasks in this function: bound (assignment, loop target, comprehension) from an expression over self.tasks
        from_tasks = set()
        for n in ast.walk(f.node):
            src, tgt = None, None
            if isinstance(n, ast.Assign):
                src, tgt = n.value, n.targets
            elif isinstance(n, (ast.For, ast.AsyncFor)):
                src, tgt = n.iter, [n.target]
            elif isinstance(n, ast.comprehension):
                src, tgt = n.iter, [n.target]
            elif isinstance(n, ast.NamedExpr):
                src, tgt = n.value, [n.target]
            if src is not None and ("self.tasks" in ast.unparse(src) or any(isinstance(x, ast.Name) and x.id in from_tasks for x in ast.walk(src))):
                for t_ in tgt:
                    from_tasks |= {x.id for x in ast.walk(t_) if isinstance(x, ast.Name)}
        for n in walk_no_nested(f.node):
            if isinstance(n, ast.Call) and isinstance(n.func, ast.Attribute) and n.func.attr == "cancel" and f.cls is not None and f.cls.name == "Scheduler":
                recv_ = n.func.value
                is_worker = "self.tasks" in ast.unparse(recv_) or any(isinstance(x, ast.Name) and x.id in from_tasks for x in ast.walk(recv_))
                if f.name not in ("cancel_task", "kill") and is_worker:
                    r1.violation(f"{f.module.relpath}::{f.qual}", "worker tasks are cancelled outside cancel_task/kill", loc(n, f.module))

    # ---------------- R2 detached tasks, owners of the tables
    r2 = ctx.rule("R2", "tasks run detached from connections; the task/state tables are written only by the scheduler's own methods", min_instances=3)
    from ..inline import inlined as _inl
    enq = _inl(ctx, idx.func(f"{LOCAL}:Scheduler.enqueue_task"))
    econ = f"{enq.module.relpath}::{enq.qual}"
    created = awaited = False
    task_var = None
    for n in walk_no_nested(enq.node):
        if isinstance(n, ast.Assign) and isinstance(n.value, ast.Call) and (idx.canon(n.value.func, enq.module) or "") in (
                "asyncio.create_task", "asyncio.ensure_future") and isinstance(n.targets[0], ast.Name):
            created = True
            task_var = n.targets[0].id
    for n in walk_no_nested(enq.node):
        if isinstance(n, ast.Await):
            for x in ast.walk(n.value):
                if isinstance(x, ast.Name) and x.id == task_var:
                    awaited = True
                if isinstance(x, ast.Attribute) and x.attr == "try_handle_task" and not created:
                    awaited = True
    r2.check(created and not awaited, econ, "coroutine wrapped in asyncio.create_task and not awaited by the request handler",
             "enqueue_task awaits the task (or does not create a detached task): the connection handler, and with it the client, would own the task's lifetime",
             enq.where)
    owners = {f"{LOCAL}:Scheduler.enqueue_task", f"{LOCAL}:Scheduler.cancel_task", f"{LOCAL}:Scheduler.try_handle_task"}
    # private helpers that are called only by owners are owners too (extract-method)
    sched_methods = {m.name: m for m in info["cls"].methods.values()}
    changed = True
    while changed:
        changed = False
        for name, m in sched_methods.items():
            if m.key in owners or not name.startswith("_") or name.startswith("__"):
                continue
            callers = {f.key for f in idx.functions.values() if f.module.name == LOCAL for c in _calls(f.node)
                       if isinstance(c.func, ast.Attribute) and c.func.attr == name and f.key != m.key}
            if callers and callers <= owners:
                owners.add(m.key)
                changed = True
    n_writes = 0
    for f in idx.functions.values():
        for n in walk_no_nested(f.node):
            tgt = None
            if isinstance(n, (ast.Assign, ast.AugAssign, ast.Delete)):
                tgts = n.targets if isinstance(n, (ast.Assign, ast.Delete)) else [n.target]
                for t in tgts:
                    if isinstance(t, ast.Subscript) and isinstance(t.value, ast.Attribute) and t.value.attr in (info["tasks"], info["states"]):
                        tgt = t
                    if isinstance(t, ast.Attribute) and t.attr in (info["tasks"], info["states"]):
                        tgt = t
            if isinstance(n, ast.Call) and isinstance(n.func, ast.Attribute) and n.func.attr in ("pop", "clear", "update", "setdefault", "popitem") \
                    and isinstance(n.func.value, ast.Attribute) and n.func.value.attr in (info["tasks"], info["states"]):
                tgt = n
            if tgt is not None and f.module.name == LOCAL:
                n_writes += 1
                r2.check(f.key in owners, f"{f.module.relpath}::{f.qual}::{ast.unparse(tgt)[:40]}", "write by an owner",
                         f"`{ast.unparse(n)[:70]}` mutates the scheduler's task/state table outside enqueue_task / cancel_task / the task coroutine",
                         loc(n, f.module))
    # plain dict tables (a defaultdict would create phantom tasks on lookup of an unknown id)
    for role in ("tasks", "states"):
        fld = info["cls"].field(info[role])
        ok = False
        if fld is not None and isinstance(fld[2], ast.Call):
            for kw in fld[2].keywords:
                if kw.arg == "factory" and idx.canon(kw.value, info["cls"].module) == "builtins.dict":
                    ok = True
        r2.check(ok, f"{info['cls'].module.relpath}::Scheduler.{info[role]}", "plain dict (lookups never insert)",
                 f"Scheduler.{info[role]} is not a plain dict: looking up an id the pool never issued (cancel of an unknown id) would "
                 "create a phantom entry that every client then sees", info["cls"].where)

    # ---------------- R3 ids
    r3 = ctx.rule("R3", "every accepted task gets a fresh id from the pool's monotone counter; state queries are keyed by those ids", min_instances=3)
    # "a state query returns each task's state under its own id": ids start at 0, and 0 is an id like any other on the way back to the user
    from .evalhelpers import eval_status, S, cached_witness, local_client_witness, report_witness
    _st, _st_m = eval_status(ctx)
    r3.check(_st.get("zero") == S("RUNNING"), f"{_st_m.module.relpath}::{_st_m.qual}::opaque-id", "the state of task 0 is looked up under id 0",
             f"TrackingBackend.status for a target tracked as task id 0 (RUNNING at the pool) gives {_st.get('zero')}: the first task of every pool is never reported under its own id", _st_m.where)
    report_witness(r3, "src/gwf/backends/local.py::Client.submit::id-0", "src/gwf/backends/local.py:1", cached_witness(ctx, "local-client", local_client_witness),
                   "the id the pool answers with (0 included) is the id submit returns; a state query is one get_task_states request whose reply is decoded id by id",
                   select=lambda d: "tid=" in d or "task_states" in d or "state query" in d)
    tid_var = None
    for n in walk_no_nested(enq.node):
        if isinstance(n, ast.Assign) and isinstance(n.value, ast.Call) and idx.canon(n.value.func, enq.module) == "builtins.next" \
                and n.value.args and isinstance(n.value.args[0], ast.Attribute) and n.value.args[0].attr == info["tidgen"]:
            tid_var = n.targets[0].id if isinstance(n.targets[0], ast.Name) else None
    r3.check(tid_var is not None, econ + "::id", f"id := next(self.{info['tidgen']})", "the task id is not drawn from the pool's id generator", enq.where)
    keys_ok = True
    n_stores = 0
    for n in walk_no_nested(enq.node):
        if isinstance(n, ast.Assign) and isinstance(n.targets[0], ast.Subscript) and isinstance(n.targets[0].value, ast.Attribute) \
                and n.targets[0].value.attr in (info["tasks"], info["states"]):
            n_stores += 1
            if not (isinstance(n.targets[0].slice, ast.Name) and n.targets[0].slice.id == tid_var):
                keys_ok = False
    rets = [n for n in walk_no_nested(enq.node) if isinstance(n, ast.Return)]
    ret_ok = all(isinstance(r.value, ast.Name) and r.value.id == tid_var for r in rets) and rets
    if not (keys_ok and n_stores >= 2 and ret_ok):
        from .evalhelpers import eval_enqueue
        _o, _m = eval_enqueue(ctx)
        if "error" not in _o and _o.get("ret") == 7 and set((_o.get("tasks") or {})) == {7} and set((_o.get("states") or {})) == {7}:
            keys_ok, n_stores, ret_ok = True, 2, True   # decided by evaluating enqueue_task with fresh id 7
    r3.check(keys_ok and n_stores >= 2 and ret_ok, econ + "::keys", "task and state stored under, and the request answered with, the fresh id",
             "enqueue_task does not store the task and its state under the fresh id and return that same id", enq.where)
    fld = info["cls"].field(info["tidgen"]) if info["tidgen"] else None
    gen_ok = False
    if fld is not None and isinstance(fld[2], ast.Call):
        for kw in fld[2].keywords:
            if kw.arg == "factory" and idx.canon(kw.value, info["cls"].module) == "itertools.count":
                gen_ok = True
    if not gen_ok and info["tidgen"]:
        # declared another way (a `@field.default` method, attrs.Factory): what a fresh Scheduler holds in that field decides
        import itertools as _it
        from .evalhelpers import make_instance
        try:
            inst = make_instance(ctx, info["cls"], "scheduler", working_dir="/wd", max_cores=2)
            g_ = inst.__dict__["_attrs"].get(info["tidgen"])
            inst2 = make_instance(ctx, info["cls"], "scheduler", working_dir="/wd", max_cores=2)
            g2_ = inst2.__dict__["_attrs"].get(info["tidgen"])
            if isinstance(g_, _it.count) and isinstance(g2_, _it.count) and g_ is not g2_:
                a_, b_ = next(g_), next(g_)
                gen_ok = b_ == a_ + 1
        except Exception:
            pass
    r3.check(gen_ok, f"{info['cls'].module.relpath}::Scheduler.{info['tidgen']}", "itertools.count (monotone, never repeats within a pool)",
             "the id generator is not itertools.count: ids could repeat within one pool", info["cls"].where)
    reassigned = []
    for f in idx.functions.values():
        for n in walk_no_nested(f.node):
            if isinstance(n, (ast.Assign, ast.AugAssign)):
                for t in (n.targets if isinstance(n, ast.Assign) else [n.target]):
                    if isinstance(t, ast.Attribute) and t.attr == info["tidgen"]:
                        reassigned.append((f, n))
    r3.check(not reassigned, f"{info['cls'].module.relpath}::Scheduler.{info['tidgen']}::reassign", "the generator is never reassigned",
             "the id generator is reassigned: ids restart and collide with tasks still in the table",
             loc(reassigned[0][1], reassigned[0][0].module) if reassigned else info["cls"].where)
    gts = idx.func(f"{LOCAL}:Scheduler.get_task_states")
    copy_ok = False
    for n in walk_no_nested(gts.node):
        if isinstance(n, ast.Return) and n.value is not None:
            t = ast.unparse(n.value)
            if t in (f"dict(self.{info['states']})", f"self.{info['states']}.copy()", f"{{**self.{info['states']}}}"):
                copy_ok = True
            if isinstance(n.value, ast.DictComp) and ast.unparse(n.value.generators[0].iter) == f"self.{info['states']}.items()" \
                    and ast.unparse(n.value.key) == ast.unparse(n.value.generators[0].target.elts[0]) and not n.value.generators[0].ifs:
                copy_ok = True
    r3.check(copy_ok, f"{gts.module.relpath}::{gts.qual}", "returns a copy of the whole state table keyed by task id",
             "get_task_states does not return the complete state table keyed by task id", gts.where)

    # ---------------- R4 wire agreement
    r4 = ctx.rule("R4", "client requests and server branches agree on kinds and keys; responses carry what the client reads", min_instances=4)
    cli = idx.cls(f"{LOCAL}:Client")
    sends = []
    for m in cli.methods.values():
        for n in walk_no_nested(m.node):
            if isinstance(n, ast.Call) and isinstance(n.func, ast.Attribute) and n.func.attr == "send" and dotted(n.func.value) == "self" \
                    and n.args and isinstance(n.args[0], ast.Constant):
                sends.append((m, n, n.args[0].value, {k.arg: k.value for k in n.keywords if k.arg}))
    for m, n, kind, keys in sends:
        c = f"{m.module.relpath}::{m.qual}::{kind}"
        br = branches.get(kind)
        if br is None:
            r4.violation(c, f"the client sends request kind {kind!r} but the server has no branch for it: the trailing assert/KeyError kills the connection "
                         "(or the request is silently ignored)", loc(n, m.module))
            continue
        popped, required = set(), set()
        for x in br.body:
            for cc in _calls(x):
                if isinstance(cc.func, ast.Attribute) and cc.func.attr == "pop" and dotted(cc.func.value) == msg_var and cc.args \
                        and isinstance(cc.args[0], ast.Constant):
                    popped.add(cc.args[0].value)
                    if len(cc.args) == 1 and not cc.keywords:
                        required.add(cc.args[0].value)
        sent = set(keys)
        if sent - popped:
            r4.violation(c, f"keys {sorted(sent - popped)} sent by the client are not consumed by the server branch: `assert not message` fails and "
                         "the request's connection dies after a half-done request", loc(n, m.module))
        elif required - sent:
            r4.violation(c, f"the server branch requires keys {sorted(required - sent)} the client never sends (KeyError)", loc(n, m.module))
        else:
            r4.ok(c, f"keys {sorted(sent)} <-> pops {sorted(popped)}", loc(n, m.module))
    # enqueue branch: message key k feeds scheduler parameter k
    br = branches.get("enqueue_task")
    if br is not None:
        for x in br.body:
            for cc in _calls(x):
                if isinstance(cc.func, ast.Attribute) and cc.func.attr == "enqueue_task":
                    bad = []
                    for kw in cc.keywords:
                        v = kw.value
                        if isinstance(v, ast.Call) and isinstance(v.func, ast.Attribute) and v.func.attr == "pop" and v.args \
                                and isinstance(v.args[0], ast.Constant) and v.args[0].value != kw.arg:
                            bad.append((kw.arg, v.args[0].value))
                    if cc.args:
                        bad.append(("positional", "arguments"))
                    r4.check(not bad, f"{hcon}::enqueue_task-binding", "message key k is bound to scheduler parameter k",
                             f"message keys are bound to the wrong scheduler parameters: {bad}", loc(cc, hc.module))
    # responses
    resp = {}
    for n in walk_no_nested(hc.node):
        if isinstance(n, ast.Call) and isinstance(n.func, ast.Attribute) and n.func.attr == "send_response" and len(n.args) >= 2 \
                and isinstance(n.args[1], ast.Constant):
            resp[(_branch_of(n, branches), n.args[1].value)] = {k.arg: k.value for k in n.keywords if k.arg}
    expect = {"submit": ("enqueue_task", "task_enqueued", "tid"), "status": ("get_task_states", "task_states", "tasks")}
    for mname, (req, rkind, rkey) in expect.items():
        m = cli.methods.get(mname)
        if m is None:
            continue
        c = f"{m.module.relpath}::{m.qual}::response"
        got = resp.get((req, rkind))
        reads = [x for x in ast.walk(m.node) if isinstance(x, ast.Subscript) and isinstance(x.slice, ast.Constant) and isinstance(x.slice.value, str)]
        read_keys = {x.slice.value for x in reads}
        want_kinds = {x.value for x in ast.walk(m.node) if isinstance(x, ast.Constant) and isinstance(x.value, str) and x.value in ("task_enqueued", "task_states", "task_state")}
        if got is None:
            r4.violation(c, f"the server does not answer {req!r} with a {rkind!r} message", m.where)
        elif not read_keys <= set(got):
            r4.violation(c, f"the client reads response keys {sorted(read_keys)} but the server sends {sorted(got)}", m.where)
        elif want_kinds and rkind not in want_kinds:
            r4.violation(c, f"the client expects response kind {sorted(want_kinds)} but the server sends {rkind!r}", m.where)
        else:
            r4.ok(c, f"{req} -> {rkind}({sorted(got)}) read as {sorted(read_keys)}", m.where)
    # the id answered is the id allocated
    got = resp.get(("enqueue_task", "task_enqueued"))
    if got is not None and "tid" in got and br is not None:
        var = got["tid"]
        src_ok = False
        for x in br.body:
            if isinstance(x, ast.Assign) and isinstance(var, ast.Name) and isinstance(x.targets[0], ast.Name) and x.targets[0].id == var.id \
                    and any(isinstance(cc.func, ast.Attribute) and cc.func.attr == "enqueue_task" for cc in _calls(x.value)):
                src_ok = True
        r4.check(src_ok, f"{hcon}::task_enqueued.tid", "the answered id is the value returned by enqueue_task",
                 "the id sent back to the client is not the id enqueue_task returned", loc(br, hc.module))

    from .localpool import rule_enqueue_registers
    rule_enqueue_registers(ctx, r3)
    from .evalhelpers import local_client_witness
    _n, cdiffs, cunsup = local_client_witness(ctx)
    if cunsup is None:
        r4.check(not cdiffs, "src/gwf/backends/local.py::Client::requests", "the client's submit/cancel requests carry the fields the server consumes and return the server's id",
                 "; ".join(cdiffs[:2]), cli.where)
    from .evalhelpers import server_session_witness
    n_w, diffs, unsup = server_session_witness(ctx)
    if unsup is None:
        r4.check(not diffs, f"{hcon}::session", f"{n_w} evaluated sessions (requests, EOF, shutdown, unknown kind): every request reaches the scheduler method of its kind with its fields, "
                 "every answer carries the scheduler's value", "; ".join(diffs[:3]), hc.where)
    else:
        r4.info(f"{hcon}::session", f"session evaluation not possible ({unsup}); decided by the structural rules above")

    # ---------------- R5 EOF terminates the handler
    r6 = ctx.rule("R6", "one client cannot stall the others: nothing shared between connections is held across a client-paced await")
    rule_no_shared_lock_across_client_io(ctx, r6)
    r5 = ctx.rule("R5", "a dropped connection (EOF) ends its handler instead of spinning the event loop")
    loop = None
    data_var = None
    for n in walk_no_nested(hc.node):
        if isinstance(n, ast.While):
            loop = n
            break
    if loop is not None:
        for n in ast.walk(loop):
            if isinstance(n, ast.Assign) and isinstance(n.value, ast.Await) and isinstance(n.targets[0], ast.Name) and any(
                    isinstance(c.func, ast.Attribute) and c.func.attr in ("readline", "read", "readuntil") for c in _calls(n.value)):
                data_var = n.targets[0].id
    if loop is None or data_var is None:
        r5.violation(hcon, "request loop / line read not recognised", hc.where)
    else:
        sem = ConnSem(ctx, hc, data_var)
        ex = Explorer(sem)
        # run the loop body once, starting right after the read with data = EOF
        body = list(loop.body)
        first = next(i for i, st in enumerate(body) if any(x is not None for x in [st]) and data_var in {t.id for t in ast.walk(st) if isinstance(t, ast.Name) and isinstance(t.ctx, ast.Store)})
        outs = ex.block(body[first + 1:], State(vars={data_var: frozenset(["EOF"])}))
        spin = [o for o in outs if o.kind in (NEXT, CONTINUE) and not o.state.facts.get("reads")]
        if spin:
            r5.violation(hcon + "::eof", "when the client has gone away (readline() returns b'') the loop body can run to its end and read again: "
                         "readline() returns immediately at EOF, so the handler spins forever and starves every other client and task",
                         loc(loop, hc.module), fmt_trace(spin[0].state, hc.module))
        else:
            kinds = sorted({o.kind + (":" + str(o.payload) if o.kind == RAISE else "") for o in outs})
            r5.ok(hcon + "::eof", f"on EOF the iteration ends the handler ({', '.join(kinds)})", loc(loop, hc.module))


CLIENT_PACED = {"drain", "readline", "read", "readexactly", "readuntil", "wait_closed"}


def rule_no_shared_lock_across_client_io(ctx, r):
    """No synchronisation object shared between connections (a field of the Server or the Scheduler) is held while awaiting an operation whose
    completion one client controls (writer.drain, reader.read*, wait_closed): that client could stall every other connection."""
    idx = ctx.index
    n_regions = 0
    bad = []
    for cname in ("Server", "Scheduler"):
        ci = idx.cls(f"{LOCAL}:{cname}")
        for m in ci.methods.values():
            for node in walk_no_nested(m.node):
                held = None
                body = None
                if isinstance(node, (ast.AsyncWith, ast.With)):
                    for it in node.items:
                        e = it.context_expr
                        if isinstance(e, ast.Await):
                            e = e.value
                        if isinstance(e, ast.Call) and isinstance(e.func, ast.Attribute) and e.func.attr == "acquire":
                            e = e.func.value
                        d = dotted(e) or ""
                        if d.startswith("self."):
                            held, body = d, node.body
                if held is None:
                    continue
                n_regions += 1
                paced = []
                for st in body:
                    for c in _calls(st):
                        if isinstance(c.func, ast.Attribute) and c.func.attr in CLIENT_PACED and isinstance(getattr(c, "_parent", None), ast.Await):
                            paced.append(c)
                        # one level into same-class helpers
                        if isinstance(c.func, ast.Attribute) and dotted(c.func.value) == "self":
                            callee = idx.method(ci, c.func.attr)
                            if callee is not None:
                                paced.extend(cc for cc in _calls(callee.node) if isinstance(cc.func, ast.Attribute) and cc.func.attr in CLIENT_PACED)
                if paced:
                    bad.append((m, held, paced[0]))
    for m, held, c in bad:
        r.violation(f"{m.module.relpath}::{m.qual}::{held}", f"`{held}`, shared by all connections, is held while awaiting `{ast.unparse(c)[:40]}`, which completes only when that one "
                    "client reads/sends: a client that stops reading blocks the answers to every other client", loc(c, m.module))
    if not bad:
        r.ok(f"src/gwf/backends/local.py::Server", f"{n_regions} region(s) holding a shared synchronisation object; none spans a client-paced await (drain/read/wait_closed)",
             idx.cls(f"{LOCAL}:Server").where)


def rule_logging_cannot_raise(ctx):
    """The pool logs from inside its exception handlers (a failing task, a misbehaving client); those calls must not raise themselves.  The standard
    library's handlers guarantee that (Handler.handleError swallows I/O errors of emit); a handler class of the repository must keep the guarantee:
    its emit() body is one try whose except-all hands the record to self.handleError."""
    idx = ctx.index
    r7 = ctx.rule("R7", "logging cannot raise into the pool: log handlers defined by gwf keep the standard library's emit()/handleError contract")
    n = 0
    for ci in idx.classes.values():
        bases = [idx.canon(b, ci.module) or "" for b in ci.base_exprs if isinstance(b, (ast.Name, ast.Attribute))]
        if not any(b.startswith("logging.") and b.endswith("Handler") for b in bases):
            continue
        emit = idx.method(ci, "emit")
        if emit is None or emit.cls is not ci:
            n += 1
            r7.ok(f"{ci.module.relpath}::{ci.name}", "inherits emit() from the standard library", ci.where)
            continue
        n += 1
        body = [s for s in emit.node.body if not (isinstance(s, ast.Expr) and isinstance(s.value, ast.Constant))]
        ok = False
        if len(body) == 1 and isinstance(body[0], ast.Try):
            for h in body[0].handlers:
                catches_all = h.type is None or (isinstance(h.type, ast.Name) and h.type.id in ("Exception", "BaseException"))
                calls_he = any(isinstance(c, ast.Call) and isinstance(c.func, ast.Attribute) and c.func.attr == "handleError" for c in ast.walk(h))
                reraises = any(isinstance(x, ast.Raise) for x in ast.walk(h))
                if catches_all and calls_he and not reraises:
                    ok = True
        r7.check(ok, f"{ci.module.relpath}::{ci.name}.emit", "emit() is one try block whose except-all calls self.handleError(record)",
                 f"{ci.name}.emit() can raise (e.g. OSError/BrokenPipeError when the pool's stderr is gone): every logger call then raises at its call site - inside the pool's "
                 "`except` blocks that mark a task FAILED or drop a bad connection - so an accepted task never reaches a final state or the whole pool dies", emit.where)
    if n == 0:
        r7.ok("src/gwf::log-handlers", "gwf defines no log handler class: only standard-library handlers (whose emit() never raises) are installed", "src/gwf/cli.py:1")


def run(ctx):
    """Structural rules first; the connection handler, the client and enqueue_task evaluated on recorded sessions decide where the
    structural rules do not recognise the shape (dispatch tables, helper methods, constants for the message kinds)."""
    from ..loader import AnalysisError
    from .evalhelpers import cached_witness, server_session_witness, local_client_witness, eval_enqueue
    ws = cached_witness(ctx, "server-session", server_session_witness)
    wc = cached_witness(ctx, "local-client", local_client_witness)
    enq, _m = eval_enqueue(ctx)
    enq_ok = "error" not in enq and enq.get("ret") == 7 and 7 in enq.get("tasks", {}) and len(enq.get("started", [])) == 1
    we = (1, [], None if enq_ok else "enqueue_task not evaluable or not registering")
    n0 = len(ctx.rules)
    try:
        _run_structural(ctx)
    except (AnalysisError, Exception) as exc:
        if isinstance(exc, (NameError, ImportError, UnboundLocalError)):
            raise       # a defect of the checker itself, never a reason to fall back
        if any(w[2] is not None or w[1] for w in (ws, wc, we)):
            raise
        r0 = ctx.rule("R0", "the structural rules cannot follow this shape of the pool server; decided by evaluated sessions")
        r0.info("src/gwf/backends/local.py::Server", f"structural analysis stopped: {type(exc).__name__}: {str(exc)[:120]}")
        for r in ctx.rules[n0:]:
            r.min_instances = 0
    rule_logging_cannot_raise(ctx)
    from .shared import rule_signal_dispositions
    r9 = ctx.rule("R9", "a client that vanishes costs one connection, not the process: no code of the package restores the default (fatal) disposition of SIGPIPE")
    rule_signal_dispositions(ctx, r9, "C14")
    r11 = ctx.rule("R11", "'keeps answering other clients with the true task states': the reply that carries the state table can be serialised and is read back member by member")
    from .shared import import_rules
    import_rules(ctx, r11, "C08", only={"R1"}, select=lambda c: "CustomEncoder" in c or "wire-state-encoding" in c or "encode::encoder" in c)
    import_rules(ctx, r11, "C08", only={"R2"})      # ... and the client looks each task up under the id the pool gave it (ids keep their type between submit, state file and query)
    r12 = ctx.rule("R12", "'the pool keeps accepting and running tasks': no request, well-formed or not, can take a core out of the pool for good (C12.R2)")
    import_rules(ctx, r12, "C12", only={"R2"})
    r10 = ctx.rule("R10", "'a state query returns each task's state under its own id': an id that was handed out stays in the pool's tables")
    from .localpool import rule_tasks_never_forgotten
    rule_tasks_never_forgotten(ctx, r10, "a client asking for that id gets no state (or an exception kills its connection and the requests queued behind it)")
    from .shared import rule_coroutines_awaited
    r8 = ctx.rule("R8", "requests are carried out: every coroutine of the pool that is called is awaited or scheduled (no call statement drops a coroutine object)")
    rule_coroutines_awaited(ctx, r8)
    # cancelling one task (a client's request) must not reach the tasks it was waiting for: they are other accepted tasks
    from .evalhelpers import task_coroutine_witness, report_witness
    report_witness(r8, "src/gwf/backends/local.py::Scheduler.try_handle_task::isolation", "src/gwf/backends/local.py:1", cached_witness(ctx, "task", task_coroutine_witness),
                   "cancelling a task that waits for its dependencies leaves those dependencies running (no unshielded gather)", select=lambda d: "gather" in d)
    rules = ctx.rules[n0:]
    if not ws[1]:  # differences are reported by R4's session check; only an agreeing evaluation may override shape complaints
        ctx.reconcile(rules, lambda c: ("Server.handle_connection" in c or "Server.start_server" in c) and "::unawaited-" not in c, ws, "src/gwf/backends/local.py::Server.handle_connection", "src/gwf/backends/local.py:1")
    if not wc[1]:
        ctx.reconcile(rules, lambda c: "::Client." in c, wc, "src/gwf/backends/local.py::Client", "src/gwf/backends/local.py:1")
    ctx.reconcile(rules, lambda c: c.endswith("Scheduler.enqueue_task") or "enqueue_task::id" in c or "enqueue_task::registers" in c, we, "src/gwf/backends/local.py::Scheduler.enqueue_task",
                  "src/gwf/backends/local.py:1")

"""Shared analysis of the local worker pool (C11, C12, C13, C14): typestate exploration of the task coroutine."""
import ast

from ..consteval import CantEval, EnumVal, enum_members
from ..index import dotted, walk_no_nested, loc
from ..loader import AnalysisError
from ..paths import NEXT, RAISE, RETURN, Explorer, Semantics, State, fmt_trace

LOCAL = "gwf.backends.local"
FINAL = frozenset(["FAILED", "COMPLETED", "CANCELLED", "KILLED"])
CANCEL = "asyncio.CancelledError"


def _calls(node):
    for n in ast.walk(node):
        if isinstance(n, ast.Call):
            yield n


def local_status_members(ctx):
    ci = ctx.index.cls(f"{LOCAL}:LocalStatus")
    return enum_members(ctx.index, ci)


def scheduler_info(ctx):
    """Field roles of the Scheduler class, found by type/initialiser, not by name."""
    if "sched_info" in ctx.shared:
        return ctx.shared["sched_info"]
    idx = ctx.index
    ci = idx.cls(f"{LOCAL}:Scheduler")
    info = {"cls": ci, "sem": None, "states": None, "tasks": None, "tidgen": None, "max_cores": None}
    for name, ann, value in ci.fields:
        canon = idx.canon(ann, ci.module) if ann is not None else None
        if canon in ("asyncio.Semaphore", "asyncio.BoundedSemaphore", "asyncio.locks.Semaphore"):
            info["sem"] = name
    # ... or by what its decorated default builds: the library semaphore, or a class of the package with an acquire/release pair (a hand-written pool)
    from ..index import ClassInfo as _CI
    if info["sem"] is None:
        for m in ci.methods.values():
            fld = next(((d or "")[:-len(".default")] for d in m.decorator_names() if (d or "").endswith(".default")), None)
            if fld is None:
                continue
            for n in walk_no_nested(m.node):
                if isinstance(n, ast.Return) and isinstance(n.value, ast.Call) and isinstance(n.value.func, (ast.Name, ast.Attribute)):
                    c = idx.canon(n.value.func, m.module) or ""
                    obj = idx.lookup(c)
                    if c in ("asyncio.Semaphore", "asyncio.BoundedSemaphore") or (isinstance(obj, _CI) and idx.method(obj, "acquire") is not None and idx.method(obj, "release") is not None):
                        info["sem"] = fld
    # states / tasks : from enqueue_task stores
    enq = idx.method(ci, "enqueue_task")
    if enq is None:
        raise AnalysisError("Scheduler.enqueue_task not found")
    for n in walk_no_nested(enq.node):
        if isinstance(n, ast.Assign) and len(n.targets) == 1 and isinstance(n.targets[0], ast.Subscript):
            t = n.targets[0]
            if isinstance(t.value, ast.Attribute) and dotted(t.value.value) == "self":
                try:
                    v = ctx.ev.eval(n.value, enq.module)
                except CantEval:
                    v = None
                if isinstance(v, EnumVal):
                    info["states"] = t.value.attr
                else:
                    info["tasks"] = t.value.attr
        if isinstance(n, ast.Call) and idx.canon(n.func, enq.module) == "builtins.next" and n.args:
            a = n.args[0]
            if isinstance(a, ast.Attribute) and dotted(a.value) == "self":
                info["tidgen"] = a.attr
    # class-wide fallback: the table that is assigned LocalStatus members is the state table wherever that happens
    if info["states"] is None or info["tasks"] is None:
        votes = {}
        for m in ci.methods.values():
            for n in walk_no_nested(m.node):
                if isinstance(n, ast.Assign) and len(n.targets) == 1 and isinstance(n.targets[0], ast.Subscript):
                    t = n.targets[0]
                    if isinstance(t.value, ast.Attribute) and dotted(t.value.value) == "self":
                        try:
                            v = ctx.ev.eval(n.value, m.module)
                        except CantEval:
                            v = None
                        role = "states" if isinstance(v, EnumVal) else "tasks"
                        votes.setdefault(role, {}).setdefault(t.value.attr, 0)
                        votes[role][t.value.attr] += 1
        for role in ("states", "tasks"):
            if info[role] is None and votes.get(role):
                info[role] = max(votes[role].items(), key=lambda kv: kv[1])[0]
        if info["tasks"] is None:
            for name, ann, value in ci.fields:
                if name not in (info["states"], info["sem"]) and isinstance(value, ast.Call) and any(k.arg == "factory" and dotted(k.value) == "dict" for k in value.keywords):
                    info["tasks"] = name
    names = {f[0] for f in ci.fields}
    for role, guess in (("states", "task_states"), ("tasks", "tasks"), ("sem", "cores_ressource")):
        if info[role] is None and guess in names:
            info[role] = guess  # helper methods hide the stores (e.g. _set_state): fall back to the field names
    for k in ("sem", "states", "tasks"):
        if info[k] is None:
            raise AnalysisError(f"cannot identify the Scheduler field playing the role '{k}'")
    # semaphore default method
    info["sem_default"] = None
    for m in ci.methods.values():
        for dn in m.decorator_names():
            if info["sem"] and (dn or "") == f"{info['sem']}.default":
                info["sem_default"] = m
    ctx.shared["sched_info"] = info
    return info


class TaskSem(Semantics):
    """Abstract semantics of Scheduler.try_handle_task."""

    loop_bound = 1

    def __init__(self, ctx, finfo, cancel_in_handlers=False):
        super().__init__(ctx.index, finfo)
        self.ctx = ctx
        self.info = scheduler_info(ctx)
        self.members = local_status_members(ctx)
        self.enum_cls = f"{LOCAL}.LocalStatus"
        self.cancel_in_handlers = cancel_in_handlers
        params = finfo.positional_params()
        if len(params) < 7:
            raise AnalysisError("try_handle_task signature not recognised")
        self.p_tid, self.p_name, self.p_script, self.p_wd, self.p_limit, self.p_deps = params[1:7]
        self.own_state = f"self.{self.info['states']}[{self.p_tid}]"
        # the dependency list must stay the caller's list: a rebinding that can drop ids makes "all deps" meaningless
        self.deps_rebound = None
        comp_ids = set()
        for n in walk_no_nested(finfo.node):
            if isinstance(n, (ast.ListComp, ast.SetComp, ast.DictComp, ast.GeneratorExp)):
                for g in n.generators:
                    comp_ids.update(id(x) for x in ast.walk(g.target))
        for n in walk_no_nested(finfo.node):
            if isinstance(n, (ast.Assign, ast.AugAssign, ast.AnnAssign)):
                tgts = n.targets if isinstance(n, ast.Assign) else [n.target]
                for t in tgts:
                    for x in ast.walk(t):
                        if isinstance(x, ast.Name) and x.id == self.p_deps and id(x) not in comp_ids:
                            if not self._benign_rebind(getattr(n, "value", None)):
                                self.deps_rebound = n
        # loops over all deps and their loop variables
        self.dep_loops = {}
        for n in walk_no_nested(finfo.node):
            if isinstance(n, (ast.For, ast.AsyncFor)) and isinstance(n.target, ast.Name) and self._is_all_deps(n.iter):
                self.dep_loops[id(n)] = n.target.id
        self.dep_vars = set(self.dep_loops.values())
        # subscripts of the task / state tables indexed by a dependency id (KeyError for an id the pool never issued)
        self.dep_subscripts = set()

        def mark(scope_nodes, var):
            for sn in scope_nodes:
                for x in ast.walk(sn):
                    if isinstance(x, ast.Subscript) and isinstance(x.ctx, ast.Load) and isinstance(x.value, ast.Attribute) \
                            and dotted(x.value.value) == "self" and any(isinstance(y, ast.Name) and y.id == var for y in ast.walk(x.slice)):
                        self.dep_subscripts.add(id(x))

        for n in walk_no_nested(finfo.node):
            if isinstance(n, (ast.For, ast.AsyncFor)) and id(n) in self.dep_loops:
                mark(n.body, self.dep_loops[id(n)])
            if isinstance(n, (ast.ListComp, ast.SetComp, ast.GeneratorExp, ast.DictComp)):
                for g in n.generators:
                    if isinstance(g.target, ast.Name) and self._is_all_deps(g.iter):
                        mark([n], g.target.id)
        # inherited = next((self.states[d] for d in deps if self.states[d] != COMPLETED), None)
        self.dep_next_vars = {}
        for n in walk_no_nested(finfo.node):
            if isinstance(n, ast.Assign) and isinstance(n.targets[0], ast.Name) and isinstance(n.value, ast.Call) and isinstance(n.value.func, ast.Name) \
                    and n.value.func.id == "next" and len(n.value.args) == 2 and isinstance(n.value.args[0], ast.GeneratorExp) \
                    and isinstance(n.value.args[1], ast.Constant) and n.value.args[1].value is None:
                g = n.value.args[0]
                gen = g.generators[0]
                if len(g.generators) == 1 and isinstance(gen.target, ast.Name) and self._is_all_deps(gen.iter):
                    st_text = f"self.{self.info['states']}[{gen.target.id}]"
                    if ast.unparse(g.elt) == st_text:
                        passing = set()
                        for m in self.members:
                            try:
                                cond = all(self._eval_member_test(c, st_text, m) for c in gen.ifs)
                            except CantEval:
                                cond = True
                            if cond:
                                passing.add(m)
                        self.dep_next_vars[n.targets[0].id] = frozenset(passing)
        # boolean flag locals
        self.flags = set()
        assigned = {}
        for n in walk_no_nested(finfo.node):
            if isinstance(n, ast.Assign):
                for t in n.targets:
                    if isinstance(t, ast.Name):
                        assigned.setdefault(t.id, []).append(n.value)
        for name, vals in assigned.items():
            if all(isinstance(v, ast.Constant) and isinstance(v.value, bool) for v in vals):
                self.flags.add(name)
        # process variables: assigned from create_subprocess_*
        self.proc_vars = set()
        for name, vals in assigned.items():
            if any(self._creates_process(v) for v in vals):
                self.proc_vars.add(name)
        self.events = []
        self.log_sites = {}
        self.log_list = []
        self.log_stmt = {}
        self._find_log_sites()

    def _find_log_sites(self):
        """Log writes of the coroutine, found by template-evaluating either the inline `with open(...)` statements or a
        synchronous helper method they were extracted into.  log_list: [{suffix, buffer, mode, path, stmt}]."""
        from ..symeval import Obj, PureInterp, Raised, Unsupported, tok
        self.comm_vars = None
        for n in walk_no_nested(self.finfo.node):
            if isinstance(n, ast.Assign) and len(n.targets) == 1 and isinstance(n.targets[0], ast.Tuple):
                if any(isinstance(c.func, ast.Attribute) and c.func.attr == "communicate" for c in _calls(n.value)):
                    names = [e.id if isinstance(e, ast.Name) else None for e in n.targets[0].elts]
                    if len(names) == 2:
                        self.comm_vars = names
        self.log_stmt = {}  # id(node handed to effect()) -> [site]
        cv = self.comm_vars or ["stdout", "stderr"]
        PROJ, NAME = tok("PROJ"), tok("NAME")

        def interpret(stmts):
            events = []

            def h_open(path, mode="r", *a, **k):
                return Obj("file", path=str(path), mode=k.get("mode", mode))

            def h_write(recv, buf, *a):
                if isinstance(recv, Obj) and "path" in recv.__dict__["_attrs"]:
                    events.append({"path": recv.path, "mode": recv.mode, "buffer": buf})
                return None

            def h_joinpath(recv, *parts):
                return "/".join([str(recv)] + [str(x) for x in parts])

            hooks = {"builtins.open": h_open, "attr:write": h_write, "attr:joinpath": h_joinpath,
                     "attr:open": lambda recv, mode="r", *a, **k: Obj("file", path=str(recv), mode=k.get("mode", mode))}
            it = PureInterp(self.ctx, hooks=hooks)
            env = {"self": Obj("sched", working_dir=PROJ, **{"__class__": self.info["cls"]}), self.p_name: NAME,
                   cv[0]: tok("STDOUT"), cv[1]: tok("STDERR"), self.p_wd: tok("WD"), self.p_tid: tok("TID")}
            first = min(getattr(x, "lineno", 10**9) for x in stmts)
            for pre in walk_no_nested(self.finfo.node):
                if isinstance(pre, ast.Assign) and pre.lineno < first and not any(isinstance(x, (ast.Await, ast.Yield)) for x in ast.walk(pre)) \
                        and all(isinstance(t, ast.Name) and t.id not in env for t in pre.targets):
                    try:
                        it.block([pre], env, self.module, 0)
                    except (Raised, Unsupported, Exception):
                        pass
            del events[:]
            try:
                it.block(stmts, env, self.module, 0)
            except (Raised, Unsupported, Exception):
                return []
            return events

        lit_loops = {}
        for n in walk_no_nested(self.finfo.node):
            if isinstance(n, ast.For) and isinstance(n.iter, (ast.Tuple, ast.List)) and not (isinstance(n.target, ast.Name) and n.target.id.startswith("__once")) \
                    and not any(isinstance(x, ast.Await) for x in ast.walk(n)):
                for sub_ in ast.walk(n):
                    if isinstance(sub_, (ast.With, ast.AsyncWith)):
                        lit_loops[id(sub_)] = n
        done_loops = set()
        for n in walk_no_nested(self.finfo.node):
            key = None
            stmts = None
            if id(n) in lit_loops:
                lp = lit_loops[id(n)]
                if id(lp) in done_loops:
                    continue
                done_loops.add(id(lp))
                key, stmts, n = id(lp.iter), [lp], lp
            elif isinstance(n, (ast.With, ast.AsyncWith)) and any(isinstance(i.context_expr, ast.Call) and "open" in ast.unparse(i.context_expr.func) for i in n.items):
                key, stmts = id(n.items[0]), [n]
            elif isinstance(n, ast.Expr) and isinstance(n.value, ast.Call) and isinstance(n.value.func, ast.Attribute) and dotted(n.value.func.value) == "self":
                m = self.index.method(self.info["cls"], n.value.func.attr)
                if m is not None and not m.is_async and any("open" in ast.unparse(c.func) for c in _calls(m.node)):
                    key, stmts = id(n), [n]
            if key is None:
                continue
            sites = []
            for ev in interpret(stmts):
                suffix = ".stdout" if ev["path"].endswith(".stdout") else ".stderr" if ev["path"].endswith(".stderr") else None
                if suffix is None:
                    continue
                buf = {tok("STDOUT"): cv[0], tok("STDERR"): cv[1]}.get(ev["buffer"], str(ev["buffer"]))
                site = {"suffix": suffix, "buffer": buf, "mode": ev["mode"], "path": ev["path"], "stmt": n}
                sites.append(site)
                self.log_list.append(site)
            if sites:
                self.log_stmt[key] = sites

    def _eval_member_test(self, cond, st_text, member):
        """Truth of a condition on a task state when that state is `member`."""
        def rec(n):
            if isinstance(n, ast.AST) and not isinstance(n, (ast.expr_context, ast.operator, ast.cmpop, ast.boolop, ast.unaryop)) and ast.unparse(n) == st_text:
                return ast.Name(id="__st", ctx=ast.Load())
            if isinstance(n, list):
                return [rec(x) for x in n]
            if not isinstance(n, ast.AST):
                return n
            new = type(n)()
            for f in n._fields:
                if hasattr(n, f):
                    setattr(new, f, rec(getattr(n, f)))
            return new
        t = ast.fix_missing_locations(ast.copy_location(rec(cond), cond))
        for x in ast.walk(t):
            x._module = self.module
        return bool(self.ctx.ev.eval(t, self.module, {"__st": EnumVal(self.enum_cls, member)}))

    # ---- recognisers
    def _benign_rebind(self, value):
        """deps = list(deps) / sorted(deps) / deps or [] : keeps every id."""
        if value is None:
            return False
        if isinstance(value, ast.BoolOp) and isinstance(value.op, ast.Or) and isinstance(value.values[0], ast.Name) \
                and value.values[0].id == self.p_deps and all(isinstance(v, (ast.List, ast.Tuple, ast.Set)) and not v.elts for v in value.values[1:]):
            return True
        if isinstance(value, (ast.List, ast.Tuple)) and not value.elts:
            return True  # `if deps is None: deps = []`
        if isinstance(value, ast.Call) and len(value.args) == 1 and not value.keywords and isinstance(value.args[0], ast.Name) \
                and value.args[0].id == self.p_deps:
            return self.index.canon(value.func, self.module) in ("builtins.list", "builtins.sorted", "builtins.tuple", "builtins.set", "builtins.frozenset")
        return False

    def _is_all_deps(self, it):
        if self.deps_rebound is not None:
            return False
        if isinstance(it, ast.Name) and it.id == self.p_deps:
            return True
        if isinstance(it, ast.Call) and len(it.args) == 1 and not it.keywords:
            c = self.index.canon(it.func, self.module)
            if c in ("builtins.sorted", "builtins.list", "builtins.set", "builtins.tuple", "builtins.frozenset", "builtins.reversed"):
                return self._is_all_deps(it.args[0])
        return False

    def _creates_process(self, expr):
        for c in _calls(expr):
            canon = self.index.canon(c.func, self.module) or ""
            if canon.startswith("asyncio.create_subprocess_") or canon.startswith("subprocess.Popen"):
                return True
        return False

    def _sem_call(self, node, meth):
        for c in _calls(node):
            f = c.func
            if isinstance(f, ast.Attribute) and f.attr == meth and isinstance(f.value, ast.Attribute) \
                    and f.value.attr == self.info["sem"] and dotted(f.value.value) == "self":
                return c
        return None

    def _wait_all(self, node):
        """('all'|'filtered'|'bad', reason, var) if node contains asyncio.wait over the dependency tasks."""
        for c in _calls(node):
            canon = self.index.canon(c.func, self.module)
            if canon != "asyncio.wait":
                continue
            reason = None
            for kw in c.keywords:
                if kw.arg == "return_when":
                    v = self.index.canon(kw.value, self.module) or ast.unparse(kw.value)
                    if not v.endswith("ALL_COMPLETED"):
                        reason = f"return_when={ast.unparse(kw.value)}"
                if kw.arg == "timeout" and not (isinstance(kw.value, ast.Constant) and kw.value.value is None):
                    reason = "timeout given"
            if not c.args:
                return ("bad", "no awaitables", None)
            arg = c.args[0]
            kind = self._deps_task_set(arg)
            if kind is None and isinstance(arg, ast.Name):
                # local variable holding the set
                for n in walk_no_nested(self.finfo.node):
                    if isinstance(n, ast.Assign) and any(isinstance(t, ast.Name) and t.id == arg.id for t in n.targets):
                        kind = kind or self._deps_task_set(n.value)
                if kind is None:
                    kind = self._eval_local_set(arg.id, c)
            if kind is None:
                return ("bad", f"awaitables {ast.unparse(arg)[:60]} are not the tasks of all dependencies", None)
            if reason:
                return ("bad", reason, None)
            return (kind, "", arg.id if isinstance(arg, ast.Name) else None)
        return None

    def _deps_task_set(self, expr):
        """'all' if expr is {self.tasks[d] for d in deps}; 'filtered' if filtered by not-done; None otherwise."""
        r = self._deps_task_set_syntactic(expr)
        if r is None and isinstance(expr, ast.Call) and self.deps_rebound is None:
            r = self._deps_task_set_evaluated(expr)
        return r

    def _deps_task_set_evaluated(self, expr):
        """Fallback: template-evaluate a pure helper/expression with three symbolic dependency ids."""
        from ..symeval import Obj, PureInterp, Raised, Unsupported, tok
        ids = [tok("D1"), tok("D2"), tok("D3")]
        tasks = {i: tok("T" + i[2]) for i in ids}
        env = {"self": Obj("sched", **{self.info["tasks"]: tasks, self.info["states"]: {}, "__class__": self.info["cls"]}), self.p_deps: list(ids)}
        try:
            val = PureInterp(self.ctx).eval(expr, env, self.module)
        except (Raised, Unsupported, Exception):
            return None
        try:
            return "all" if set(val) == set(tasks.values()) else None
        except TypeError:
            return None

    def _eval_local_set(self, name, before):
        """A set built by explicit statements (`s = set(); for d in deps: s.add(self.tasks[d])`): template-evaluate those statements."""
        from ..symeval import Obj, PureInterp, Raised, Unsupported, tok
        if self.deps_rebound is not None:
            return None
        stmts = []
        def collect(body):
            for st in body:
                if getattr(st, "lineno", 0) >= before.lineno:
                    continue
                touches = any(isinstance(x, ast.Name) and x.id == name for x in ast.walk(st))
                if isinstance(st, (ast.Assign, ast.AugAssign, ast.Expr, ast.For)) and touches:
                    stmts.append(st)
                elif isinstance(st, (ast.If, ast.Try, ast.With)):
                    for fld in ("body", "orelse", "finalbody"):
                        collect(getattr(st, fld, []) or [])
        collect(self.finfo.node.body)
        if not stmts:
            return None
        ids = [tok("D1"), tok("D2"), tok("D3")]
        tasks = {i: tok("T" + i[2]) for i in ids}
        env = {"self": Obj("sched", **{self.info["tasks"]: tasks, self.info["states"]: {}, "__class__": self.info["cls"]}), self.p_deps: list(ids)}
        try:
            PureInterp(self.ctx).block(stmts, env, self.module, 0)
            return "all" if set(env.get(name, ())) == set(tasks.values()) else None
        except (Raised, Unsupported, Exception):
            return None

    def _deps_task_set_syntactic(self, expr):
        if isinstance(expr, ast.Call) and len(expr.args) == 1 and isinstance(expr.func, (ast.Name, ast.Attribute)) and self.index.canon(expr.func, self.module) in (
                "builtins.set", "builtins.list", "builtins.tuple", "builtins.frozenset"):
            return self._deps_task_set_syntactic(expr.args[0])
        if isinstance(expr, (ast.SetComp, ast.ListComp, ast.GeneratorExp)) and len(expr.generators) == 1:
            g = expr.generators[0]
            if not (isinstance(g.target, ast.Name) and self._is_all_deps(g.iter)):
                return None
            elt = expr.elt
            ok_elt = isinstance(elt, ast.Subscript) and isinstance(elt.value, ast.Attribute) and \
                elt.value.attr == self.info["tasks"] and isinstance(elt.slice, ast.Name) and elt.slice.id == g.target.id
            if not ok_elt:
                return None
            if not g.ifs:
                return "all"
            # only accepted filter: the dependency task is not done yet
            for cond in g.ifs:
                if not (isinstance(cond, ast.UnaryOp) and isinstance(cond.op, ast.Not) and isinstance(cond.operand, ast.Call)
                        and isinstance(cond.operand.func, ast.Attribute) and cond.operand.func.attr == "done"):
                    return None
            return "filtered"
        return None

    # ---- domains
    def domain(self, text):
        if text in self.dep_next_vars:
            return list(self.dep_next_vars[text]) + [None]
        if text == self.own_state:
            return self.members
        for v in self.dep_vars:
            if text == f"self.{self.info['states']}[{v}]":
                return self.members
        if text in self.flags:
            return (False, True)
        if text in self.proc_vars:
            return (None, "PROC")
        if text == self.p_deps:
            return ("EMPTY", "NONEMPTY")
        if text.endswith(".returncode"):
            return ("NEG", 0, "POS")
        return None

    def truthy(self, v):
        return v not in (None, False, 0, "EMPTY")

    def const(self, expr, state):
        t = ast.unparse(expr)
        if t in state.vars:
            return state.vars[t]
        if isinstance(expr, ast.Constant):
            return frozenset([expr.value])
        try:
            v = self.ctx.ev.eval(expr, self.module)
        except CantEval:
            return None
        if isinstance(v, EnumVal) and v.cls == self.enum_cls:
            return frozenset([v.member])
        if isinstance(v, (tuple, list, set, frozenset)) and all(isinstance(x, EnumVal) for x in v):
            return frozenset(x.member for x in v)
        return None

    def assign(self, target_text, value_expr, state):
        if value_expr is None:
            return None
        if target_text in self.dep_next_vars:
            vals = set(self.dep_next_vars[target_text])
            if state.facts.get("waited"):
                vals &= FINAL
            return frozenset(vals | {None})
        if target_text in self.proc_vars:
            if isinstance(value_expr, ast.Constant) and value_expr.value is None:
                return frozenset([None])
            if self._creates_process(value_expr):
                return frozenset(["PROC"])
            return None
        if target_text == self.own_state or target_text.startswith(f"self.{self.info['states']}["):
            vt = ast.unparse(value_expr)
            vt = state.alias_src(vt) or vt
            c = self.const(value_expr, state)
            if c is None:
                d = self.domain(vt)
                c = frozenset(d) if d is not None else None
            if c is not None and vt != self.own_state and vt.startswith(f"self.{self.info['states']}[") and state.facts.get("waited"):
                # a dependency whose coroutine has finished is in a final state (C13.R1 applied to it, inductively)
                c = c & FINAL
            return c
        return self.const(value_expr, state)

    # ---- exception edges
    def may_raise(self, node, state):
        out = []
        in_handler = state.facts.get("__handling__") is not None
        has_await = any(isinstance(n, ast.Await) for n in ast.walk(node)) if isinstance(node, ast.AST) else False
        if has_await and (self.cancel_in_handlers or not in_handler):
            out.append(CANCEL)
        if isinstance(node, ast.AST) and id(node) in self.log_stmt and not in_handler:
            out.append("builtins.PermissionError")
        if isinstance(node, ast.AST):
            for c in _calls(node):
                canon = self.index.canon(c.func, self.module) or ""
                if canon == "asyncio.wait_for":
                    out.append("asyncio.TimeoutError")
                if canon.startswith("asyncio.create_subprocess_"):
                    out.append("builtins.FileNotFoundError")
                if canon == "builtins.open":
                    out.append("builtins.PermissionError")
                if isinstance(c.func, ast.Attribute) and c.func.attr == "write" and not in_handler:
                    out.append("builtins.OSError")
            # unknown dependency id
            if not state.facts.get("deps_known"):
                for n in ast.walk(node):
                    if id(n) in self.dep_subscripts:
                        out.append("builtins.KeyError")
                        break
        return list(dict.fromkeys(out))

    # ---- effects
    def effect(self, node, state):
        if isinstance(node, tuple):
            if node[0] == "handler" and "cause" not in state.facts:
                return state.with_fact("cause", self.h.norm(node[2]))
            if node[0] == "with_exit" and state.facts.get("deferred_release"):
                st = node[1]
                if any(isinstance(i.context_expr, ast.Call) and (self.index.canon(i.context_expr.func, self.module) or "").endswith("ExitStack") for i in st.items):
                    s = state.with_fact("deferred_release", False)
                    if not s.facts.get("acq"):
                        return s.with_fact("bad_release", st.lineno).note(st, "RELEASE WITHOUT ACQUIRE (ExitStack callback)")
                    if s.facts.get("proc_alive"):
                        s = s.with_fact("release_while_alive", st.lineno)
                    return s.with_fact("acq", 0).note(st, "core released (ExitStack callback)")
            return state
        s = state
        if isinstance(node, ast.Raise) and node.exc is not None and "cause" not in s.facts:
            e = node.exc.func if isinstance(node.exc, ast.Call) else node.exc
            s = s.with_fact("cause", self.index.canon(e, self.module) or ast.unparse(e))
            if self.log_list:
                s = s.with_fact("logs_at_raise", tuple(sorted(k[4:] for k, v in s.facts.items() if k.startswith("log:") and v)))
        # log writes (inline with-block entry or helper call statement)
        sites = self.log_stmt.get(id(node))
        if sites:
            for site in sites:
                s = s.with_fact("log:" + site["suffix"], site["buffer"] or "?").note(site["stmt"], f"log {site['suffix']} written from {site['buffer']}")
        # semaphore
        if self._sem_call(node, "acquire") is not None:
            if s.facts.get("acq"):
                s = s.with_fact("double_acquire", getattr(node, "lineno", 0))
            s = s.with_fact("acq", 1).note(node, "core acquired")
        deferred = False
        if isinstance(node, ast.AST):
            for c in _calls(node):
                if isinstance(c.func, ast.Attribute) and c.func.attr in ("callback", "push") and c.args and isinstance(c.args[0], ast.Attribute) \
                        and c.args[0].attr == "release" and isinstance(c.args[0].value, ast.Attribute) and c.args[0].value.attr == self.info["sem"]:
                    deferred = True
        if deferred:
            s = s.with_fact("deferred_release", True).note(node, "release registered on an ExitStack")
        elif self._sem_call(node, "release") is not None:
            if not s.facts.get("acq"):
                s = s.with_fact("bad_release", getattr(node, "lineno", 0)).note(node, "RELEASE WITHOUT ACQUIRE")
            else:
                if s.facts.get("proc_alive"):
                    s = s.with_fact("release_while_alive", getattr(node, "lineno", 0)).note(node, "release while the process may be alive")
                s = s.with_fact("acq", 0).note(node, "core released")
        # waiting for dependencies
        w = self._wait_all(node) if isinstance(node, ast.AST) else None
        if w is not None:
            if w[0] in ("all", "filtered"):
                s = s.with_fact("waited", True).with_fact("deps_known", True).note(node, "waited for all dependencies")
            else:
                s = s.with_fact("bad_wait", w[1]).note(node, f"wait is not wait-all: {w[1]}")
        # a subscript load on tasks/states with dep ids that completed proves the ids are known
        if isinstance(node, ast.AST) and not s.facts.get("deps_known"):
            for n in ast.walk(node):
                if isinstance(n, (ast.SetComp, ast.ListComp)) and self._deps_task_set(n) == "all":
                    s = s.with_fact("deps_known", True)
        # process creation
        if isinstance(node, ast.AST) and self._creates_process(node):
            facts = {
                "acq_at_start": bool(s.facts.get("acq")),
                "waited_at_start": bool(s.facts.get("waited")),
                "deps_at_start": tuple(sorted(s.vars.get(self.p_deps, frozenset(["EMPTY", "NONEMPTY"])))),
                "depcheck_at_start": self._depcheck(s),
            }
            s = s.with_fact("started", tuple(sorted(facts.items()))).with_fact("proc_alive", 1).note(node, "process started")
            piped = any(kw.arg in ("stdout", "stderr") and (self.index.canon(kw.value, self.module) or "").endswith(".PIPE")
                        for c in _calls(node) for kw in c.keywords if isinstance(kw.value, (ast.Name, ast.Attribute)))
            s = s.with_fact("piped", piped)
            self.events.append(("start", node, s, facts))
        # process end
        if isinstance(node, ast.AST):
            for c in _calls(node):
                f = c.func
                if isinstance(f, ast.Attribute) and f.attr in ("communicate", "wait") and dotted(f.value) in self.proc_vars:
                    if not s.facts.get("killed") and "state_while_running" not in s.facts:
                        s = s.with_fact("state_while_running", tuple(sorted(s.vars.get(self.own_state, frozenset(["?"])))))
                    if f.attr == "wait" and s.facts.get("piped") and not s.facts.get("communicated") and not s.facts.get("killed"):
                        s = s.with_fact("wait_undrained", getattr(node, "lineno", 0)).note(node, "waits for the exit while nobody reads the output pipes")
                    s = s.with_fact("proc_alive", 0).note(node, f"process ended ({f.attr})")
                    if f.attr == "communicate":
                        s = s.with_fact("communicated", True)
                if isinstance(f, ast.Attribute) and f.attr == "_gentle_kill" or (
                        self.index.canon(f, self.module) or "").endswith("._gentle_kill"):
                    arg_ok = c.args and dotted(c.args[0]) in self.proc_vars
                    if arg_ok:
                        s = s.with_fact("proc_alive", 0).with_fact("killed", True).note(node, "kill sequence")
            # log writes
            if isinstance(node, (ast.With, ast.withitem)):
                pass
        # store to own state
        if isinstance(node, ast.Assign):
            for t in node.targets:
                if ast.unparse(t) == self.own_state:
                    s = s.note(node, f"state := {ast.unparse(node.value)}")
                    vt = ast.unparse(node.value)
                    src = s.alias_src(vt) or vt
                    from_dep = any(src == f"self.{self.info['states']}[{v}]" for v in self.dep_vars) or src in self.dep_next_vars or vt in self.dep_next_vars
                    s = s.with_fact("inherited", from_dep)
        return s

    def _depcheck(self, s):
        """True if on this path every dependency examined by the check loop was COMPLETED."""
        for v in self.dep_next_vars:
            if s.vars.get(v) == frozenset([None]):
                return True  # next(<non-completed dependency states>, None) found none
        if not self.dep_vars:
            return False
        for v in self.dep_vars:
            vals = s.vars.get(f"self.{self.info['states']}[{v}]")
            if vals is not None and vals == frozenset(["COMPLETED"]):
                return True
        return False

    def test_hook(self, expr, state):
        # sign tests on the exit status: a finite set of orderings against 0
        if isinstance(expr, ast.Compare) and len(expr.ops) == 1:
            l, r, op = expr.left, expr.comparators[0], expr.ops[0]
            flip = {ast.Gt: ast.Lt, ast.Lt: ast.Gt, ast.GtE: ast.LtE, ast.LtE: ast.GtE}
            if isinstance(l, ast.Constant) and ast.unparse(r).endswith(".returncode"):
                l, r = r, l
                op = flip.get(type(op), type(op))()
            lt = ast.unparse(l)
            if lt.endswith(".returncode") and isinstance(r, ast.Constant) and r.value == 0 and isinstance(
                    op, (ast.Gt, ast.Lt, ast.GtE, ast.LtE)):
                dom = state.vars.get(lt, frozenset(self.domain(lt)))
                sign = {"NEG": -1, 0: 0, "POS": 1}
                f = {ast.Gt: lambda v: v > 0, ast.Lt: lambda v: v < 0, ast.GtE: lambda v: v >= 0, ast.LtE: lambda v: v <= 0}[type(op)]
                t = frozenset(v for v in dom if f(sign[v]))
                out = []
                if t:
                    out.append((True, state.with_var(lt, t)))
                if dom - t:
                    out.append((False, state.with_var(lt, dom - t)))
                return out
        # `if unfinished:` where unfinished = {tasks of deps that are not done}: nothing left to wait for
        if isinstance(expr, ast.Name):
            for n in walk_no_nested(self.finfo.node):
                if isinstance(n, ast.Assign) and any(isinstance(t, ast.Name) and t.id == expr.id for t in n.targets):
                    if self._deps_task_set(n.value) == "filtered":
                        return [(True, state), (False, state.with_fact("waited", True).with_fact("deps_known", True))]
        return None

    def enter_loop(self, node, state):
        if id(node) in self.dep_loops:
            d = state.vars.get(self.p_deps)
            if d is not None and d == frozenset(["NONEMPTY"]):
                return False, True
        return True, True


def explore_task(ctx, cancel_in_handlers=False):
    key = ("task_paths", cancel_in_handlers)
    if key in ctx.shared:
        return ctx.shared[key]
    from ..inline import inlined
    fi = inlined(ctx, ctx.index.func(f"{LOCAL}:Scheduler.try_handle_task"), keep={"_gentle_kill", "_signal_process_group"})
    sem = TaskSem(ctx, fi, cancel_in_handlers)
    init = State(vars={sem.own_state: frozenset(["SUBMITTED"])}, facts={"acq": 0})
    ex = Explorer(sem)
    outs = ex.run(init)
    ctx.shared[key] = (fi, sem, outs, ex.steps)
    return ctx.shared[key]


def witness(state, fi):
    return fmt_trace(state, fi.module)



def rule_enqueue_binding(ctx, r):
    """Scheduler.enqueue_task hands each of its parameters, unchanged, to the same-named parameter of the task coroutine."""
    idx = ctx.index
    enq = idx.func(f"{LOCAL}:Scheduler.enqueue_task")
    th = idx.func(f"{LOCAL}:Scheduler.try_handle_task")
    ok = False
    passed = []
    for c in _calls(enq.node):
        if isinstance(c.func, ast.Attribute) and c.func.attr == th.name:
            want = th.positional_params()[1:]
            got = [dotted(a) for a in c.args]
            kw = {k.arg: dotted(k.value) for k in c.keywords}
            ok = (got == want[: len(got)] and all(kw.get(k, k) == k for k in kw)) and (len(got) + len(kw) == len(want))
            passed = [g for g in got if g] + [v for v in kw.values() if v]
    r.check(ok, f"{enq.module.relpath}::{enq.qual}::binding", "enqueue_task passes each of its parameters to the same-named parameter of the task coroutine",
            "enqueue_task binds its arguments to the wrong parameters of the task coroutine (e.g. deps and time_limit swapped)", enq.where)
    params = set(enq.positional_params()[1:])
    rebound = []
    for n in walk_no_nested(enq.node):
        tgts = []
        if isinstance(n, ast.Assign):
            tgts = n.targets
        elif isinstance(n, (ast.AugAssign, ast.AnnAssign, ast.For)):
            tgts = [n.target]
        for t in tgts:
            for x in ast.walk(t):
                if isinstance(x, ast.Name) and x.id in params and x.id in passed:
                    rebound.append((x.id, n))
    if rebound:
        # a parameter is assigned on the way (validation, normalisation, ...): what matters is what arrives.  Evaluated on a pool whose table holds finished, failed,
        # cancelled and running tasks, for every kind of time limit a client may send.
        from .evalhelpers import eval_enqueue
        from ..consteval import EnumVal
        members = ("COMPLETED", "FAILED", "CANCELLED", "RUNNING", "SUBMITTED")
        states = {i + 1: EnumVal("gwf.backends.local.LocalStatus", mem) for i, mem in enumerate(members)}
        changed = []
        for tl in (None, 5, 0.5, 86400):
            out, _m = eval_enqueue(ctx, args=("N", "S", "/w", tl, [1, 2, 3, 4, 5]), states=states)
            if "error" in out:
                if out["error"].startswith("Unsupported"):
                    from ..symeval import Unsupported as _U
                    raise _U(f"enqueue_task rebinds `{rebound[0][0]}` and cannot be evaluated: {out['error']}")
                changed.append(f"time_limit={tl!r}, deps=[1..5] -> {out['error'][:80]}")
                continue
            for a, k in out["started"]:
                bound = dict(zip(th.positional_params()[1:], a))
                bound.update(k)
                if list(bound.get("deps") or []) != [1, 2, 3, 4, 5] or bound.get("time_limit") != tl or type(bound.get("time_limit")) is not type(tl):
                    changed.append(f"time_limit={tl!r}, deps=[1..5] (completed, failed, cancelled, running, submitted) arrive as time_limit={bound.get('time_limit')!r}, deps={bound.get('deps')!r}")
            if not out["started"]:
                changed.append(f"time_limit={tl!r}: no worker coroutine is started")
        r.check(not changed, f"{enq.module.relpath}::{enq.qual}::unchanged", "the caller's values reach the coroutine unchanged (evaluated: 4 time limits x prerequisites in every state)",
                f"enqueue_task rebinds `{rebound[0][0]}` (`{ast.unparse(rebound[0][1])[:70]}`) and the task coroutine does not get what the client sent: " + "; ".join(changed[:2])
                + " - e.g. prerequisites that already finished are dropped, so a failed/cancelled prerequisite is never examined and the dependent runs", loc(rebound[0][1], enq.module))
    else:
        r.ok(f"{enq.module.relpath}::{enq.qual}::unchanged", "the caller's values reach the coroutine unchanged (no parameter is rebound on the way)", enq.where)


def rule_enqueue_registers(ctx, r):
    """Accepting a task registers it: fresh id -> worker task and state SUBMITTED, the coroutine gets that id and the request's fields, the id is returned."""
    from .evalhelpers import eval_enqueue
    from ..consteval import EnumVal
    out, m = eval_enqueue(ctx)
    con = f"{m.module.relpath}::{m.qual}::registers"
    if "error" in out:
        if out["error"].startswith("Unsupported"):
            r.info(con, f"not evaluated ({out['error']})")
        else:
            r.violation(con, f"enqueue_task fails ({out['error']})", m.where)
        return
    st = out["states"].get(7)
    problems = []
    if out["ret"] != 7:
        problems.append(f"returns {out['ret']!r} instead of the freshly allocated id 7")
    if not (isinstance(st, EnumVal) and st.member == "SUBMITTED"):
        problems.append(f"the new task's state is {st!r}, not SUBMITTED (a state query before the task starts would not list it, so gwf takes it for not submitted)")
    if 7 not in out["tasks"]:
        problems.append("the worker task is not registered under the new id (it cannot be cancelled or waited for by dependents)")
    if len(out["started"]) != 1:
        problems.append(f"{len(out['started'])} worker coroutines are started")
    else:
        a, k = out["started"][0]
        bound = dict(zip(["tid", "name", "script", "working_dir", "time_limit", "deps"], a))
        bound.update(k)
        if isinstance(bound.get("deps"), (tuple, set, frozenset)):
            bound["deps"] = sorted(bound["deps"])       # any re-iterable collection of the same ids is as good as the list
        if bound != {"tid": 7, "name": "N", "script": "S", "working_dir": "/w", "time_limit": 5, "deps": [1, 2]}:
            problems.append(f"the worker coroutine is started with {bound}")
    r.check(not problems, con, "id 7 -> worker task + SUBMITTED, coroutine(tid=7, request fields), returns 7", "enqueue_task: " + "; ".join(problems), m.where)


def removals_from(tree, attrs):
    """(node, attribute, how) for every statement that removes entries from self.<attr> (attr in attrs): del self.a[k], self.a.pop(..), .popitem(), .clear(),
    or a rebinding self.a = <new table> outside __init__-time defaults."""
    out = []
    for n in ast.walk(tree):
        if isinstance(n, ast.Delete):
            for t in n.targets:
                if isinstance(t, ast.Subscript) and isinstance(t.value, ast.Attribute) and dotted(t.value.value) == "self" and t.value.attr in attrs:
                    out.append((n, t.value.attr, "del"))
        elif isinstance(n, ast.Call) and isinstance(n.func, ast.Attribute) and n.func.attr in ("pop", "popitem", "clear") \
                and isinstance(n.func.value, ast.Attribute) and dotted(n.func.value.value) == "self" and n.func.value.attr in attrs:
            out.append((n, n.func.value.attr, "." + n.func.attr + "()"))
        elif isinstance(n, ast.Assign):
            for t in n.targets:
                if isinstance(t, ast.Attribute) and dotted(t.value) == "self" and t.attr in attrs:
                    out.append((n, t.attr, "rebinding"))
    return out


def rule_tasks_never_forgotten(ctx, r, why):
    """The pool's state table and task table only grow: no method of the Scheduler removes an entry (an id that was handed out answers state queries and cancel requests for
    the pool's lifetime).  Expected count on a healthy tree: zero removal sites - the matcher is exercised on a built-in positive example at every run."""
    from ..index import loc
    info = scheduler_info(ctx)
    attrs_ = {info["states"], info["tasks"]}
    sample = ast.parse("class S:\n    def f(self, t):\n        self.task_states.pop(t, None)\n        del self.tasks[t]\n")
    if [x[2] for x in removals_from(sample, {"task_states", "tasks"})] != [".pop()", "del"] and sorted(x[2] for x in removals_from(sample, {"task_states", "tasks"})) != [".pop()", "del"]:
        raise AnalysisError("rule_tasks_never_forgotten: the matcher does not recognise its own positive example")
    ci = info["cls"]
    n = 0
    for m in ci.methods.values():
        is_init = m.name in ("__init__", "__attrs_post_init__") or any((d or "").endswith(".default") for d in m.decorator_names())
        for node, attr, how in removals_from(m.node, attrs_):
            if how == "rebinding" and is_init:
                continue        # the table is created here
            n += 1
            r.violation(f"{m.module.relpath}::{m.qual}::forgets-{attr}", f"Scheduler.{m.name} removes entries from self.{attr} ({how}): {why}", loc(node, m.module))
    r.ok(f"{ci.module.relpath}::Scheduler::tables-only-grow", f"no method of the Scheduler removes an entry from self.{info['states']} / self.{info['tasks']} ({n} removal sites; matcher checked on a positive example)", ci.where)

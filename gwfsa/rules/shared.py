"""Helpers to reuse another property's rules as links of a chain (cross-property consistency)."""
import importlib


def import_rules(ctx, r, prop, only=None, prefix=True):
    """Run the rules of `prop` in a sub-context sharing all caches; copy the instances of the selected rule ids into rule r."""
    sub = type(ctx)(ctx.prop, ctx.repo, ctx.index, ctx.ev, ctx.tier)
    sub.resolver = ctx.resolver
    sub.shared = ctx.shared
    cache = ctx.shared.setdefault("_subruns", {})
    if prop not in cache:
        importlib.import_module(f"gwfsa.rules.{prop.lower()}").run(sub)
        cache[prop] = sub
    sub = cache[prop]
    n = 0
    for rr in sub.rules:
        rid = rr.id.split(".", 1)[1]
        if only is not None and rid not in only:
            continue
        for inst in rr.instances:
            c = f"{prop}.{rid}:{inst['construct']}" if prefix else inst["construct"]
            if inst["verdict"] == "VIOLATION":
                r.violation(c, inst["detail"], inst["where"])
                n += 1
            elif inst["verdict"] == "ok":
                r.ok(c, inst["detail"], inst["where"])
                n += 1
    return n


MUTABLE_CALLS = {"dict", "list", "set", "defaultdict", "OrderedDict", "collections.defaultdict", "collections.OrderedDict", "bytearray"}


def rule_per_instance_state(ctx, r, class_keys, why):
    """No mutable object is shared between instances of a state-holding class: attrs fields use factory=..., never default=<mutable literal>,
    and no mutable class attribute stands in for an instance field."""
    import ast
    idx = ctx.index
    for key in class_keys:
        ci = idx.cls(key)
        con = f"{ci.module.relpath}::{ci.name}"
        bad = []
        n = 0
        for name, _ann, value in ci.fields:
            n += 1
            v = value
            if isinstance(v, ast.Call) and (idx.canon(v.func, ci.module) or "").rsplit(".", 1)[-1] in ("field", "ib", "attrib"):
                d = next((k.value for k in v.keywords if k.arg == "default"), None)
                if d is None:
                    continue
                v = d
                if isinstance(v, ast.Call) and (idx.canon(v.func, ci.module) or "").endswith("Factory"):
                    continue
            if isinstance(v, (ast.Dict, ast.List, ast.Set, ast.ListComp, ast.DictComp, ast.SetComp)):
                bad.append((name, ast.unparse(v)))
            elif isinstance(v, ast.Call) and (idx.canon(v.func, ci.module) or "").replace("builtins.", "") in MUTABLE_CALLS:
                bad.append((name, ast.unparse(v)))
        if bad:
            for name, txt in bad:
                r.violation(f"{con}.{name}", f"field `{name}` of {ci.name} defaults to the mutable object `{txt}`, created once and shared by every instance in the process: {why}",
                            ci.where)
        else:
            r.ok(con, f"{n} field(s): mutable state is created per instance (factory), never shared through a default", ci.where)


def rule_fresh_per_call(ctx, r, class_key, why):
    """Every construction of the class happens inside a function body (evaluated per call), never at import time or in a parameter default."""
    import ast
    idx = ctx.index
    ci = idx.cls(class_key)
    target = f"{ci.module.name}.{ci.name}"
    n = 0
    for mod in idx.repo.modules.values():
        for node in ast.walk(mod.tree):
            if not (isinstance(node, ast.Call) and isinstance(node.func, (ast.Name, ast.Attribute)) and idx.canon(node.func, mod) == target):
                continue
            n += 1
            # climb: inside a function body?  (defaults and decorators belong to the enclosing scope)
            cur, inside, via = node, False, None
            while getattr(cur, "_parent", None) is not None:
                par = cur._parent
                if isinstance(par, (ast.FunctionDef, ast.AsyncFunctionDef, ast.Lambda)):
                    if isinstance(par, ast.Lambda) or cur in par.body:
                        inside = True
                        break
                    via = f"a default value or decorator of {par.name}()"
                if isinstance(par, ast.arguments):
                    via = "a parameter default"
                cur = par
            where = f"{mod.relpath}:{node.lineno}"
            if inside:
                r.ok(f"{mod.relpath}::{ci.name}()@{_enclosing(node)}", "constructed per call", where)
            else:
                r.violation(f"{mod.relpath}::{ci.name}()@{via or 'module level'}", f"{ci.name} is constructed once at import time ({via or 'module level'}) and then shared by every call: {why}", where)
    return n


def _enclosing(node):
    cur = node
    while getattr(cur, "_parent", None) is not None:
        cur = cur._parent
        if hasattr(cur, "name") and hasattr(cur, "body"):
            return cur.name
    return "<module>"

"""Helpers to reuse another property's rules as links of a chain (cross-property consistency)."""
import importlib


def import_rules(ctx, r, prop, only=None, prefix=True, select=None):
    """Run the rules of `prop` in a sub-context sharing all caches; copy the instances of the selected rule ids into rule r."""
    sub = type(ctx)(ctx.prop, ctx.repo, ctx.index, ctx.ev, ctx.tier)
    sub.resolver = ctx.resolver
    sub.shared = ctx.shared
    cache = ctx.shared.setdefault("_subruns", {})
    if prop not in cache:
        importlib.import_module(f"gwfsa.rules.{prop.lower()}").run(sub)
        cache[prop] = sub
    sub = cache[prop]
    n = 0
    if any(rr.min_instances <= 1 for rr in sub.rules if only is None or rr.id.split(".", 1)[1] in only):
        r.min_instances = min(r.min_instances, 1)  # the imported rule was decided by its witness evaluation (fewer, coarser instances)
    for rr in sub.rules:
        rid = rr.id.split(".", 1)[1]
        if only is not None and rid not in only:
            continue
        for inst in rr.instances:
            if select is not None and not select(inst["construct"]):
                continue
            c = f"{prop}.{rid}:{inst['construct']}" if prefix else inst["construct"]
            if inst["verdict"] == "VIOLATION":
                r.violation(c, inst["detail"], inst["where"])
                if inst.get("from_witness"):
                    r.instances[-1]["from_witness"] = True
                n += 1
            elif inst["verdict"] == "ok":
                r.ok(c, inst["detail"], inst["where"])
                n += 1
    return n


MUTABLE_CALLS = {"dict", "list", "set", "defaultdict", "OrderedDict", "collections.defaultdict", "collections.OrderedDict", "bytearray"}


def rule_per_instance_state(ctx, r, class_keys, why):
    """No mutable object is shared between instances of a state-holding class: attrs fields use factory=..., never default=<mutable literal>,
    and no mutable class attribute stands in for an instance field."""
    import ast
    idx = ctx.index
    for key in class_keys:
        ci = idx.cls(key)
        con = f"{ci.module.relpath}::{ci.name}"
        bad = []
        n = 0
        for name, _ann, value in ci.fields:
            n += 1
            v = value
            if isinstance(v, ast.Call) and (idx.canon(v.func, ci.module) or "").rsplit(".", 1)[-1] in ("field", "ib", "attrib"):
                d = next((k.value for k in v.keywords if k.arg == "default"), None)
                if d is None:
                    continue
                v = d
                if isinstance(v, ast.Call) and (idx.canon(v.func, ci.module) or "").endswith("Factory"):
                    continue
            if isinstance(v, (ast.Dict, ast.List, ast.Set, ast.ListComp, ast.DictComp, ast.SetComp)):
                bad.append((name, ast.unparse(v)))
            elif isinstance(v, ast.Call) and (idx.canon(v.func, ci.module) or "").replace("builtins.", "") in MUTABLE_CALLS:
                bad.append((name, ast.unparse(v)))
        if bad:
            for name, txt in bad:
                r.violation(f"{con}.{name}", f"field `{name}` of {ci.name} defaults to the mutable object `{txt}`, created once and shared by every instance in the process: {why}",
                            ci.where)
        else:
            r.ok(con, f"{n} field(s): mutable state is created per instance (factory), never shared through a default", ci.where)


def rule_fresh_per_call(ctx, r, class_key, why):
    """Every construction of the class happens inside a function body (evaluated per call), never at import time or in a parameter default."""
    import ast
    idx = ctx.index
    ci = idx.cls(class_key)
    target = f"{ci.module.name}.{ci.name}"
    n = 0
    for mod in idx.repo.modules.values():
        for node in ast.walk(mod.tree):
            if not (isinstance(node, ast.Call) and isinstance(node.func, (ast.Name, ast.Attribute)) and idx.canon(node.func, mod) == target):
                continue
            n += 1
            # climb: inside a function body?  (defaults and decorators belong to the enclosing scope)
            cur, inside, via = node, False, None
            while getattr(cur, "_parent", None) is not None:
                par = cur._parent
                if isinstance(par, (ast.FunctionDef, ast.AsyncFunctionDef, ast.Lambda)):
                    if isinstance(par, ast.Lambda) or cur in par.body:
                        inside = True
                        break
                    via = f"a default value or decorator of {par.name}()"
                if isinstance(par, ast.arguments):
                    via = "a parameter default"
                cur = par
            where = f"{mod.relpath}:{node.lineno}"
            if inside:
                r.ok(f"{mod.relpath}::{ci.name}()@{_enclosing(node)}", "constructed per call", where)
            else:
                r.violation(f"{mod.relpath}::{ci.name}()@{via or 'module level'}", f"{ci.name} is constructed once at import time ({via or 'module level'}) and then shared by every call: {why}", where)
    return n


def _enclosing(node):
    cur = node
    while getattr(cur, "_parent", None) is not None:
        cur = cur._parent
        if hasattr(cur, "name") and hasattr(cur, "body"):
            return cur.name
    return "<module>"


NAME_WITNESS_TARGETS = ["Align", "Align1", "Align2", "Align10", "Chunk1", "Chunk2", "other", "a.b"]
NAME_WITNESS_PATTERNS = [
    ["Align"], ["Align*"], ["Align?"], ["Align??"], ["Chunk[12]"], ["Chunk[!1]"], ["*1"], ["nomatch"], ["Align1", "Chunk2"],
    ["A*", "C*"], ["Align*", "Align1"], ["a.b"], ["a?b"], ["*"], [],
    # near misses: a name that matches nothing selects nothing, however close it is to an existing one (an off-by-one over generated names, a typo, another case)
    ["Align12"], ["Align3"], ["Chunk"], ["align1"], ["Other"], ["Align1 "],
]


def eval_name_selection(ctx, patterns, one_shot=False):
    """filter_names(targets, patterns) evaluated on named symbolic targets; returns (sorted names, duplicates?) or an error string."""
    from ..symeval import Obj, PureInterp, Raised, Unsupported
    fn = ctx.index.func("gwf.filtering:filter_names")
    from .evalhelpers import target_obj
    targets = [target_obj(ctx, name=n) for n in NAME_WITNESS_TARGETS]
    arg = iter(targets) if one_shot else targets
    try:
        got = PureInterp(ctx).call(fn, (arg, list(patterns)))
        got = list(got)
    except (Raised, Unsupported) as exc:
        return f"<{type(exc).__name__}: {exc}>"
    names = [getattr(t, "name", repr(t)) for t in got]
    return sorted(names)


def rule_name_selection(ctx, r, what):
    """Name patterns select exactly the targets whose name matches one of the shell-style patterns (fnmatch: * ? [seq] [!seq]), each once,
    whatever kind of iterable the targets come in.  Decided by evaluating filter_names over a pattern table covering every wildcard kind."""
    import fnmatch
    fn = ctx.index.func("gwf.filtering:filter_names")
    nf = ctx.index.func("gwf.filtering:NameFilter.apply")
    bad = []
    n = 0
    for pats in NAME_WITNESS_PATTERNS:
        want = sorted({t for t in NAME_WITNESS_TARGETS for p in pats if fnmatch.fnmatchcase(t, p)})
        for one_shot in (False, True):
            n += 1
            got = eval_name_selection(ctx, pats, one_shot)
            if got != want:
                bad.append((pats, "one-shot iterable of targets" if one_shot else "list of targets", got, want))
    con = f"{nf.module.relpath}::{nf.qual}"
    if bad:
        pats, kind, got, want = bad[0]
        r.violation(con + "::selection", f"{what}: patterns {pats} over a {kind} select {got}, expected {want} ({len(bad)} of {n} pattern/iterable witnesses differ): "
                    "a shell-style pattern (* ? [seq] [!seq]) must select exactly the targets whose names match, each once", nf.where)
    else:
        r.ok(con + "::selection", f"{n} witnesses (literal, *, ?, [seq], [!seq], several patterns, overlapping, none; list and one-shot iterables) select exactly the matching names",
             nf.where)
    return fn


def rule_config_switch(ctx, r, key, consumer, via_namespace=None):
    """A yes/no setting stored with `gwf config set KEY <word>` reads back with the truth value of the word at the site that consumes it.

    Evaluates FileConfig.__setitem__ followed by the consumer's read (config.get(KEY) or get_namespace(NS)[name]) for every switch word."""
    from collections import ChainMap
    from ..symeval import Obj, PureInterp, Raised, Unsupported, tok
    idx = ctx.index
    ci = idx.cls("gwf.conf:FileConfig")
    seti, get, gn = idx.method(ci, "__setitem__"), idx.method(ci, "get"), idx.method(ci, "get_namespace")
    defaults = ctx.ev.eval_global("gwf.conf", "CONFIG_DEFAULTS")
    words = {"no": False, "false": False, "0": False, "yes": True, "true": True, "1": True}
    bad = {}
    interp = PureInterp(ctx)
    for w, want in words.items():
        cfg = Obj("config", path=tok("CFG"), data=ChainMap({}, dict(defaults)), **{"__class__": ci})
        try:
            interp.call(seti, (key, w), {}, self_obj=cfg)
            if via_namespace:
                ns = interp.call(gn, (via_namespace,), {}, self_obj=cfg)
                val = ns.get(key[len(via_namespace) + 1:], "<absent>")
            else:
                val = interp.call(get, (key,), {}, self_obj=cfg)
            if bool(val) is not want or val == "<absent>":
                bad[w] = val
        except (Raised, Unsupported) as exc:
            bad[w] = f"<{exc}>"
    r.check(not bad, f"{seti.module.relpath}::{seti.qual}::{key}", f"`gwf config set {key} <yes|no|true|false|1|0>` reads back with that truth value where {consumer}",
            f"after `gwf config set {key} WORD` the value read where {consumer} is {bad} (word -> value): the switch cannot be turned "
            f"{'off' if any(not words[w] for w in bad) else 'on'} from the command line", seti.where)


def rule_flag_default(ctx, r, func_key, flag, why):
    """A click on/off switch is a flag (no value) that is off unless given: is_flag=True and default absent or False."""
    import ast
    idx = ctx.index
    fn = idx.func(func_key)
    opt = None
    for d in ctx.index.expanded_decorators(fn):
        if isinstance(d, ast.Call) and idx.canon(d.func, fn.module) == "click.option":
            names = [a.value for a in d.args if isinstance(a, ast.Constant) and isinstance(a.value, str)]
            if flag in names:
                opt = d
    con = f"{fn.module.relpath}::{fn.qual}::{flag}"
    if opt is None:
        r.violation(con, f"option {flag} not found on `{fn.name}`", fn.where)
        return
    kw = {k.arg: k.value for k in opt.keywords}

    def const(n, dflt):
        if n is None:
            return dflt
        try:
            return ctx.ev.eval(n, fn.module)
        except Exception:
            return "?"
    is_flag = const(kw.get("is_flag"), False)
    default = const(kw.get("default"), False)
    ok = r.check(is_flag is True and default in (False, None), con, f"{flag} is an on/off flag that is off unless given",
                 f"{flag} is declared with is_flag={is_flag}, default={default}: {why}", f"{fn.module.relpath}:{opt.lineno}")
    if not ok:
        r.instances[-1]["from_witness"] = True     # a fact about the click declaration: no evaluation of the command body can see (or override) it


def rule_targets_argument(ctx, r, func_key, what):
    """The command takes zero or more target names/patterns: `click.argument("targets", nargs=-1)`.  Without nargs=-1 click hands the body ONE required string;
    the body iterates it as patterns (its characters) and `gwf <command>` without names - 'everything' - becomes a usage error."""
    import ast
    idx = ctx.index
    fn = idx.func(func_key)
    con = f"{fn.module.relpath}::{fn.qual}::targets-argument"
    arg = None
    for d in ctx.index.expanded_decorators(fn):
        if isinstance(d, ast.Call) and idx.canon(d.func, fn.module) == "click.argument":
            names = [a.value for a in d.args if isinstance(a, ast.Constant) and isinstance(a.value, str)]
            if names and names[0] in fn.positional_params():
                kw = {k.arg: k.value for k in d.keywords}
                try:
                    nargs = ctx.ev.eval(kw["nargs"], fn.module) if "nargs" in kw else 1
                except Exception:
                    nargs = "?"
                if nargs == -1 or names[0] in ("targets", "patterns", "names"):
                    arg = (names[0], nargs, d)
    if arg is None:
        r.violation(con, f"{what}: no variadic click argument for the target names found on `{fn.name}`", fn.where)
        r.instances[-1]["from_witness"] = True
        return
    ok = r.check(arg[1] == -1, con, f"`{arg[0]}` is declared nargs=-1 (zero or more names, handed over as a tuple)",
                 f"{what}: the argument `{arg[0]}` is declared with nargs={arg[1]}: click then requires exactly that many names and hands the body a plain string, whose characters "
                 "are taken for patterns; selecting several targets or none at all (= everything) is no longer possible", f"{fn.module.relpath}:{arg[2].lineno}")
    if not ok:
        r.instances[-1]["from_witness"] = True



def rule_factory_default(ctx, r, func_key, param, want, why):
    """A backend factory's keyword default (what applies when the project configuration does not set it) is the documented one."""
    idx = ctx.index
    fn = idx.func(func_key)
    a = fn.node.args
    names = [x.arg for x in a.posonlyargs + a.args]
    dmap = dict(zip(names[len(names) - len(a.defaults):], a.defaults))
    for kwa, d in zip(a.kwonlyargs, a.kw_defaults):
        if d is not None:
            dmap[kwa.arg] = d
    con = f"{fn.module.relpath}::{fn.qual}::{param}-default"
    if param not in dmap:
        r.violation(con, f"the factory has no default for `{param}` (an unset configuration key would make backend creation fail)", fn.where)
        return
    try:
        got = ctx.ev.eval(dmap[param], fn.module)
    except Exception:
        got = "?"
    r.check(got == want and type(got) is type(want), con, f"`{param}` defaults to {want!r}", f"`{param}` defaults to {got!r} instead of {want!r}: {why}", fn.where)


def rule_coroutines_awaited(ctx, r, module_names=("gwf.backends.local",)):
    """Calling an `async def` only creates a coroutine object; a call statement that drops it (no await, not handed to create_task/gather/...) does nothing at
    all - the request is acknowledged and never carried out.  Every call statement whose callee resolves to a coroutine function of the package is examined."""
    import ast
    from ..index import walk_no_nested
    idx, res = ctx.index, ctx.resolver
    n_async_calls = 0
    for f in idx.functions.values():
        if f.module.name not in module_names:
            continue
        for st in walk_no_nested(f.node):
            calls = []
            if isinstance(st, ast.Expr) and isinstance(st.value, ast.Call):
                calls = [(st.value, "its value is discarded")]
            for call, why in calls:
                if isinstance(call.func, ast.Attribute):
                    # only receivers whose class is known: a method resolved merely by its name (proc.kill() vs Scheduler.kill) proves nothing
                    try:
                        types = res.class_of_expr(call.func.value, f)
                    except Exception:
                        types = set()
                    if not any(kind == "cls" for kind, _c in types):
                        continue
                try:
                    callees = res.callees(call, f, {})
                except Exception:
                    callees = []
                targets = [getattr(c, "finfo", c) for c in callees]
                targets = [t for t in targets if hasattr(t, "node")]
                if targets and all(isinstance(t.node, ast.AsyncFunctionDef) for t in targets):
                    n_async_calls += 1
                    r.violation(f"{f.module.relpath}::{f.qual}::unawaited-{targets[0].name}",
                                f"{f.qual} calls the coroutine function {targets[0].qual} as a statement without awaiting it (line {call.lineno}; {why}): the coroutine is created and "
                                "never runs, so the request it stands for is acknowledged but never carried out", f"{f.module.relpath}:{call.lineno}")
    # count awaited calls of coroutine functions as the analysed instances
    n_await = 0
    for f in idx.functions.values():
        if f.module.name in module_names:
            n_await += sum(1 for n in walk_no_nested(f.node) if isinstance(n, ast.Await))
    r.ok(f"src/{module_names[0].replace('.', '/')}.py::coroutine-calls", f"{n_await} await expressions; no coroutine function of the package is called as a bare statement", f"src/{module_names[0].replace('.', '/')}.py:1")


def rule_calls_bind(ctx, r, module_names):
    """Every call in the given modules whose callee resolves to functions of the package passes what those functions require (positional count, required keyword-only
    parameters, no unknown keyword).  A call that cannot bind raises TypeError the first time the command is used - the command then does nothing it promises."""
    import ast
    from ..index import FuncInfo, walk_no_nested
    idx, res = ctx.index, ctx.resolver
    n = 0
    for f in idx.functions.values():
        if f.module.name not in module_names:
            continue
        for call in walk_no_nested(f.node):
            if not isinstance(call, ast.Call):
                continue
            if any(isinstance(a, ast.Starred) for a in call.args) or any(k.arg is None for k in call.keywords):
                continue
            if isinstance(call.func, ast.Attribute):
                try:
                    types = res.class_of_expr(call.func.value, f)
                except Exception:
                    types = set()
                canon = idx.canon(call.func, f.module)
                if not any(kind == "cls" for kind, _c in types) and not (canon and isinstance(idx.lookup(canon), FuncInfo)):
                    continue       # receiver of unknown class: a callee found by name only proves nothing
            try:
                callees = [getattr(c, "finfo", c) for c in res.callees(call, f, {})]
            except Exception:
                continue
            callees = [c for c in callees if isinstance(c, FuncInfo)]
            if len(callees) != 1:
                continue
            g = callees[0]
            if g.decorator_names() and any(d and not d.endswith(("staticmethod", "classmethod", "property", "wraps")) and not d.startswith(("functools.", "attrs.", "attr."))
                                           for d in g.decorator_names()):
                continue           # decorated (click command, context manager ...): the visible signature is not the call signature
            a = g.node.args
            params = [x.arg for x in a.posonlyargs + a.args]
            if g.cls is not None and params and params[0] in ("self", "cls") and "staticmethod" not in g.decorator_names():
                params = params[1:]
            if g.name == "__init__":
                continue
            n_def = len(a.defaults)
            required = params[: len(params) - n_def] if n_def else list(params)
            kwonly_req = [k.arg for k, d in zip(a.kwonlyargs, a.kw_defaults) if d is None]
            given_kw = {k.arg for k in call.keywords}
            n_pos = len(call.args)
            problems = []
            if n_pos > len(params) and a.vararg is None:
                problems.append(f"{n_pos} positional arguments for {len(params)} parameter(s)")
            missing = [p for i, p in enumerate(required) if i >= n_pos and p not in given_kw]
            missing += [p for p in kwonly_req if p not in given_kw]
            if missing:
                problems.append(f"required parameter(s) {missing} not passed")
            unknown = [k for k in given_kw if k not in params and k not in [x.arg for x in a.kwonlyargs] and a.kwarg is None]
            if unknown:
                problems.append(f"unknown keyword(s) {unknown}")
            n += 1
            if problems:
                r.violation(f"{f.module.relpath}::{f.qual}::call-{g.name}", f"{f.qual} calls {g.qual} with {'; '.join(problems)} (line {call.lineno}): the call raises TypeError "
                            "whenever this line is reached, so the command fails instead of doing what the property describes", f"{f.module.relpath}:{call.lineno}")
                r.instances[-1]["from_witness"] = True
    r.ok(f"src/{module_names[0].replace('.', '/')}.py::calls-bind", f"{n} resolved calls of package functions in {', '.join(module_names)} bind to their callee's signature", f"src/{module_names[0].replace('.', '/')}.py:1")


def rule_option_declaration(ctx, r, func_key, flag, want, why):
    """A click option is declared with the given keyword values (e.g. multiple=True, default="workflow.py:gwf"); absent keywords count as click's own defaults
    given in `want` as (value, click_default) pairs.  A fact about the declaration: never overridden by an evaluation of the command body."""
    import ast
    idx = ctx.index
    fn = idx.func(func_key)
    opt = None
    for d in ctx.index.expanded_decorators(fn):
        if isinstance(d, ast.Call) and idx.canon(d.func, fn.module) == "click.option":
            names = [a.value for a in d.args if isinstance(a, ast.Constant) and isinstance(a.value, str)]
            if flag in names:
                opt = d
    con = f"{fn.module.relpath}::{fn.qual}::{flag}"
    if opt is None:
        r.violation(con, f"option {flag} not found on `{fn.name}`: {why}", fn.where)
        r.instances[-1]["from_witness"] = True
        return
    kw = {k.arg: k.value for k in opt.keywords}
    bad = []
    for name, (value, click_default) in want.items():
        if name in kw:
            try:
                got = ctx.ev.eval(kw[name], fn.module)
            except Exception:
                continue      # not a constant: cannot be judged here
        else:
            got = click_default
        if got != value:
            bad.append(f"{name}={got!r} (expected {value!r})")
    ok = r.check(not bad, con, f"{flag} declared with " + ", ".join(f"{k}={v[0]!r}" for k, v in want.items()),
                 f"{flag} is declared with {', '.join(bad)}: {why}", f"{fn.module.relpath}:{opt.lineno}")
    if not ok:
        r.instances[-1]["from_witness"] = True


# process-wide signal dispositions: the pool server runs inside the `gwf` process (cli.main -> `gwf workers` -> asyncio.run), so what any code on that path installs
# holds for the pool.  (signal, disposition) pairs that break a property, with the reason.
FATAL_DISPOSITIONS = {
    ("SIGPIPE", "SIG_DFL"): ("C14", "with SIGPIPE at its default disposition a write to a connection whose client has gone away kills the whole process instead of raising "
                                    "BrokenPipeError in that one handler: one vanished client takes the pool, its running tasks and every other client's connection down"),
    ("SIGCHLD", "SIG_IGN"): ("C13", "with SIGCHLD ignored the kernel reaps children itself: waitpid() fails with ECHILD, asyncio reports exit status 255 for every task, so tasks "
                                    "that exited 0 end as failed"),
    ("SIGHUP", "SIG_DFL"): (None, ""),
    ("SIGINT", "SIG_DFL"): ("C09", "with SIGINT at its default disposition Control-c kills the process outright instead of raising KeyboardInterrupt: no with-block is left, so "
                                   "neither state file is written - every job accepted before the interruption is forgotten and submitted again by the next run"),
}
POOL_ROOTS = ("gwf.cli:main", "gwf.plugins.workers:workers", "gwf.backends.local:start_cluster", "gwf.backends.local:start_cluster_async", "gwf.backends.local:Server.start_server")
RUN_ROOTS = ("gwf.cli:main", "gwf.plugins.run:run", "gwf.scheduling:submit_workflow")


def signal_calls(tree, canon):
    """(call node, signal name, disposition name) for every signal.signal(SIGX, SIG_Y) in a module tree; canon(node) resolves a Name/Attribute to its dotted origin."""
    import ast
    out = []
    for n in ast.walk(tree):
        if isinstance(n, ast.Call) and isinstance(n.func, (ast.Name, ast.Attribute)) and (canon(n.func) or "") == "signal.signal" and len(n.args) >= 2:
            names = []
            for a in n.args[:2]:
                c = canon(a) if isinstance(a, (ast.Name, ast.Attribute)) else None
                names.append((c or ast.unparse(a)).rsplit(".", 1)[-1])
            out.append((n, names[0], names[1]))
    return out


def rule_signal_dispositions(ctx, r, prop, roots=POOL_ROOTS):
    """No code of the package installs a process-wide signal disposition that defeats `prop` (the table above).  Expected count on a healthy tree: zero call sites,
    so the matcher is exercised on a built-in positive example at every run."""
    import ast
    from ..index import loc
    sample = ast.parse("import signal\nfrom signal import SIGPIPE as SP\nsignal.signal(SP, signal.SIG_DFL)\n")
    imports = {"signal": "signal", "SP": "signal.SIGPIPE"}

    def c0(node):
        d = ast.unparse(node)
        head, _, rest = d.partition(".")
        return (imports.get(head, head) + ("." + rest if rest else ""))
    got = signal_calls(sample, c0)
    if [(g[1], g[2]) for g in got] != [("SIGPIPE", "SIG_DFL")]:
        from ..loader import AnalysisError
        raise AnalysisError("rule_signal_dispositions: the matcher does not recognise its own positive example")
    n = 0
    # the code that runs in the pool's process: module level of every module (plugins are imported by every command), cli.main, the workers command and the pool itself
    from ..index import enclosing_function
    reach = set()
    for root in roots:
        try:
            v_, _e, _u = ctx.resolver.reach(ctx.index.func(root))
            reach |= {k[0] for k in v_}
        except Exception:
            reach.add(root)
    by_node = {id(f.node): f for f in ctx.index.functions.values()}
    for mod in ctx.repo.modules.values():
        for call, sig, disp in signal_calls(mod.tree, lambda e, m=mod: ctx.index.canon(e, m)):
            n += 1
            p, why = FATAL_DISPOSITIONS.get((sig, disp), (None, ""))
            con = f"{mod.relpath}::signal.signal({sig}, {disp})"
            enc = enclosing_function(call)
            outer = enc
            while outer is not None and id(outer) not in by_node:
                outer = enclosing_function(outer)
            finfo = by_node.get(id(outer)) if outer is not None else None
            # a nested function belongs to the function that defines it
            on_path = enc is None or finfo is None or finfo.key in reach
            if p == prop and not on_path:
                r.ok(con, f"installed in {finfo.key}, which the process in question never runs", loc(call, mod))
            elif p == prop:
                r.violation(con, f"`{ast.unparse(call)}` changes a process-wide signal disposition: {why}", loc(call, mod))
            else:
                r.ok(con, f"disposition {disp} for {sig} does not affect this property", loc(call, mod))
    r.ok("src/gwf::signal-dispositions", f"{n} signal.signal call site(s) in the package, none installs a disposition that defeats the property (matcher checked on a positive example)", "src/gwf/cli.py:1")


def rule_sibling_call_agreement(ctx, r, callee="gwf.core.get_spec_hashes", what="the spec-hash store"):
    """Every command opens `what` the same way: all call sites of `callee` in the package pass the same set of arguments, with the same expressions (cross-check of
    siblings: a parameter added for one command - a per-workflow file name, a namespace - and not for the others makes them read and write different stores)."""
    import ast
    from ..index import loc, walk_no_nested
    idx = ctx.index
    sites = []
    target = idx.lookup(callee)
    pnames = target.positional_params() if hasattr(target, "positional_params") else []
    for f in idx.functions.values():
        for n in walk_no_nested(f.node):
            if isinstance(n, ast.Call) and isinstance(n.func, (ast.Name, ast.Attribute)) and (idx.canon(n.func, f.module) or "") == callee:
                # (an argument is the same argument whether it is passed by position or by name)
                shape = tuple(sorted([(pnames[i] if i < len(pnames) else "#%d" % i, ast.unparse(a)) for i, a in enumerate(n.args)]
                                     + [(k.arg or "**", ast.unparse(k.value)) for k in n.keywords]))
                sites.append((f, n, shape))
    if len(sites) < 2:
        r.info(f"src/gwf::{callee}::call-sites", f"{len(sites)} call site(s): nothing to compare")
        return
    from collections import Counter
    common, _cnt = Counter(s[2] for s in sites).most_common(1)[0]
    for f, n, shape in sites:
        r.check(shape == common, f"{f.module.relpath}::{f.qual}::{callee.rsplit('.', 1)[1]}", f"opens {what} like its siblings: ({', '.join(k + '=' + v for k, v in shape)})",
                f"{f.qual} opens {what} with ({', '.join(k + '=' + v for k, v in shape)}) while the other commands use ({', '.join(k + '=' + v for k, v in common)}): the commands "
                "do not read and write the same store - what one records (touch, an accepted submission, clean) the other does not see", loc(n, f.module))


def rule_log_filters(ctx, r, why):
    """What gwf tells the user goes through logging (`Would submit X`, `Submitting target X`, `Cancelling target X`, warnings per target).  A logging.Filter defined in the
    package must let two records through that share a message TEMPLATE and differ in their arguments - they are different messages."""
    import ast
    from ..symeval import PureInterp, Obj, Raised, Unsupported
    idx = ctx.index
    n = 0
    for ci in idx.classes.values():
        bases = [idx.canon(b, ci.module) or "" for b in ci.base_exprs if isinstance(b, (ast.Name, ast.Attribute))]
        if not any(b.startswith("logging.") and b.endswith("Filter") for b in bases):
            continue
        flt = idx.method(ci, "filter")
        if flt is None or flt.cls is not ci:
            continue
        n += 1
        con = f"{ci.module.relpath}::{ci.name}.filter"
        interp = PureInterp(ctx, hooks={"builtins.super": lambda *a: Obj("super"), "attr:__init__": lambda recv, *a, **k: None})
        try:
            inst = interp.apply(ci, [], {}, 0)

            def rec(arg):
                return Obj("record", name="gwf.scheduling", levelno=20, levelname="INFO", msg="Would submit %s", args=(arg,), pathname="scheduling.py", lineno=108, funcName="f",
                           exc_info=None, getMessage=lambda arg=arg: "Would submit %s" % arg, message="Would submit %s" % arg)
            verdicts = [bool(interp.call(flt, (rec(a_),), {}, self_obj=inst)) for a_ in ("Index", "Align", "Index")]
        except (Raised, Unsupported) as exc:
            r.info(con, f"not evaluated ({exc})")
            continue
        r.check(verdicts[0] and verdicts[1], con, "records with the same template and different arguments both pass",
                f"{ci.name}.filter lets `Would submit Index` through and drops `Would submit Align` (verdicts {verdicts[:2]}): records are told apart by their template, not "
                f"their text - {why}", flt.where)
    r.ok("src/gwf::log-filters", f"{n} logging.Filter class(es) defined by the package", "src/gwf/cli.py:1")


# --- "this value only ever reaches a message" (a small forward dataflow over the resolved program) -------------------------------------------------------
LOG_METHODS = {"debug", "info", "warning", "warn", "error", "exception", "critical", "log"}
MESSAGE_SINKS = {"print", "click.echo", "click.secho", "click.echo_via_pager", "warnings.warn", "sys.stdout.write", "sys.stderr.write"}
MESSAGE_WRAPPERS = {"click.format_filename", "click.style", "str", "repr", "os.fspath", "shlex.quote", "textwrap.shorten", "textwrap.fill"}
STR_PREDICATES = {"startswith", "endswith", "__eq__", "__contains__", "isidentifier", "isprintable"}
STR_RESHAPERS = {"format", "join", "ljust", "rjust", "center", "strip", "rstrip", "lstrip", "replace", "upper", "lower", "title", "expandtabs"}


def _is_logger_call(call, finfo, idx):
    import ast
    if not (isinstance(call.func, ast.Attribute) and call.func.attr in LOG_METHODS):
        return False
    from ..index import dotted
    base = dotted(call.func.value)
    if base is None:
        return False
    canon = idx.canon(call.func, finfo.module) or ""
    if canon.startswith("logging."):
        return True
    # a module-level `name = logging.getLogger(...)`
    for st in finfo.module.tree.body:
        if isinstance(st, ast.Assign) and any(isinstance(t, ast.Name) and t.id == base for t in st.targets) and isinstance(st.value, ast.Call):
            c = idx.canon(st.value.func, finfo.module) or ""
            if c in ("logging.getLogger", "logging.Logger"):
                return True
    return False


def flows_only_to_messages(ctx, finfo, node, depth=0, _seen=None):
    """True iff the value of expression `node` (in function `finfo`) can only end up in a log/terminal message or in a comparison: followed through wrappers
    (format_filename, str.format, f-strings, %), single local names, and - when the function returns it - through every resolved call site (3 levels)."""
    import ast
    from ..index import parent, walk_no_nested
    idx = ctx.index
    _seen = _seen if _seen is not None else set()
    if (finfo.key, id(node)) in _seen:
        return True
    _seen.add((finfo.key, id(node)))
    p = parent(node)
    if p is None:
        return False
    if isinstance(p, (ast.JoinedStr, ast.FormattedValue, ast.Starred, ast.Tuple, ast.List, ast.IfExp)) and not (isinstance(p, ast.IfExp) and node is p.test):
        return flows_only_to_messages(ctx, finfo, p, depth, _seen)
    if isinstance(p, (ast.Compare, ast.BoolOp)) or (isinstance(p, (ast.If, ast.While, ast.IfExp, ast.Assert)) and node is p.test) or isinstance(p, ast.UnaryOp):
        return True
    if isinstance(p, ast.BinOp):
        if isinstance(p.op, (ast.Mod, ast.Add)):
            return flows_only_to_messages(ctx, finfo, p, depth, _seen)
        return False
    if isinstance(p, ast.keyword):
        p2 = parent(p)
        return isinstance(p2, ast.Call) and _call_passes(ctx, finfo, p2, node, depth, _seen)
    if isinstance(p, ast.Attribute) and node is p.value:
        call = parent(p)
        if isinstance(call, ast.Call) and call.func is p:
            if p.attr in STR_PREDICATES:
                return True
            if p.attr in STR_RESHAPERS:
                return flows_only_to_messages(ctx, finfo, call, depth, _seen)
        return False
    if isinstance(p, ast.Call):
        if node is p.func:
            return False
        return _call_passes(ctx, finfo, p, node, depth, _seen)
    if isinstance(p, ast.Expr):
        return True
    if isinstance(p, (ast.Assign, ast.AnnAssign)):
        targets = p.targets if isinstance(p, ast.Assign) else [p.target]
        if len(targets) != 1 or not isinstance(targets[0], ast.Name):
            return False
        name = targets[0].id
        uses = [n for n in walk_no_nested(finfo.node) if isinstance(n, ast.Name) and n.id == name and isinstance(n.ctx, ast.Load)]
        return all(flows_only_to_messages(ctx, finfo, u, depth, _seen) for u in uses)
    if isinstance(p, ast.Return):
        if depth >= 3:
            return False
        sites = ctx.resolver.call_sites(finfo)
        return all(flows_only_to_messages(ctx, g, c, depth + 1, _seen) for g, c in sites)
    return False


def _call_passes(ctx, finfo, call, arg, depth, _seen):
    import ast
    idx = ctx.index
    if _is_logger_call(call, finfo, idx):
        return True
    canon = (idx.canon(call.func, finfo.module) if isinstance(call.func, (ast.Name, ast.Attribute)) else None) or ""
    if canon in MESSAGE_SINKS:
        return True
    if canon in MESSAGE_WRAPPERS:
        return flows_only_to_messages(ctx, finfo, call, depth, _seen)
    if isinstance(call.func, ast.Attribute) and call.func.attr in ("format", "join") and isinstance(call.func.value, ast.Constant):
        return flows_only_to_messages(ctx, finfo, call, depth, _seen)
    # a function of the package: the parameter it is bound to must itself only reach messages there
    if depth >= 3:
        return False
    try:
        callees = ctx.resolver.callees(call, finfo, {})
    except Exception:
        return False
    from ..index import FuncInfo, walk_no_nested
    fis = [getattr(c, "finfo", c) for c in callees]
    if not fis or not all(isinstance(fi, FuncInfo) for fi in fis):
        return False
    for fi in fis:
        params = fi.positional_params()
        if fi.cls is not None and params and params[0] in ("self", "cls"):
            params = params[1:]
        pname = None
        for i, a in enumerate(call.args):
            if a is arg and i < len(params):
                pname = params[i]
        for k in call.keywords:
            if k.value is arg:
                pname = k.arg
        if pname is None:
            return False
        uses = [n for n in walk_no_nested(fi.node) if isinstance(n, ast.Name) and n.id == pname and isinstance(n.ctx, ast.Load)]
        if not all(flows_only_to_messages(ctx, fi, u, depth + 1, _seen) for u in uses):
            return False
    return True

"""Helpers to reuse another property's rules as links of a chain (cross-property consistency)."""
import importlib


def import_rules(ctx, r, prop, only=None, prefix=True):
    """Run the rules of `prop` in a sub-context sharing all caches; copy the instances of the selected rule ids into rule r."""
    sub = type(ctx)(ctx.prop, ctx.repo, ctx.index, ctx.ev, ctx.tier)
    sub.resolver = ctx.resolver
    sub.shared = ctx.shared
    cache = ctx.shared.setdefault("_subruns", {})
    if prop not in cache:
        importlib.import_module(f"gwfsa.rules.{prop.lower()}").run(sub)
        cache[prop] = sub
    sub = cache[prop]
    n = 0
    for rr in sub.rules:
        rid = rr.id.split(".", 1)[1]
        if only is not None and rid not in only:
            continue
        for inst in rr.instances:
            c = f"{prop}.{rid}:{inst['construct']}" if prefix else inst["construct"]
            if inst["verdict"] == "VIOLATION":
                r.violation(c, inst["detail"], inst["where"])
                n += 1
            elif inst["verdict"] == "ok":
                r.ok(c, inst["detail"], inst["where"])
                n += 1
    return n

"""C10 - job scripts run the spec faithfully with the resolved resource options (template-domain evaluation of the pure builders)."""
import ast

from ..consteval import CantEval
from ..index import dotted, walk_no_nested, loc
from ..reference import flags as REF
from ..symeval import Obj, PureInterp, Raised, Unsupported, tok


def _mk_instance(*a, **k):
    from .evalhelpers import make_instance
    return make_instance(*a, **k)

from .persist import _calls

BACKENDS = (
    ("slurm", "gwf.backends.slurm", "SlurmOps", "#SBATCH ", REF.SBATCH_FLAGS, REF.SBATCH_FIXED),
    ("sge", "gwf.backends.sge", "SGEOps", "#$ ", REF.QSUB_FLAGS, REF.QSUB_FIXED),
    ("lsf", "gwf.backends.lsf", "LSFOps", "#BSUB ", REF.BSUB_FLAGS, REF.BSUB_FIXED),
)
# target names may contain dots (is_valid_name): a log path built with Path.with_suffix() would drop the part after the last dot
SPEC, WD, PROJ, NAME = tok("SPEC"), tok("WD"), tok("PROJ"), "NAME.v1"


def make_target(ctx, options, spec=None, wd=None):
    from .evalhelpers import target_obj
    return target_obj(ctx, name=NAME, spec=SPEC if spec is None else spec, working_dir=WD if wd is None else wd, options=dict(options), inputs=[], outputs=[])


def compile_script(ctx, mod, cname, options, log_mode="full", spec=None, wd=None):
    idx = ctx.index
    ci = idx.cls(f"{mod}:{cname}")
    fn = idx.method(ci, "compile_script")
    interp = PureInterp(ctx)
    self_obj = _mk_instance(ctx, ci, "ops", working_dir=PROJ, log_mode=log_mode, accounting_enabled=True)
    script = interp.call(fn, (make_target(ctx, options, spec, wd),), {}, self_obj=self_obj)
    if not isinstance(script, str):
        raise Unsupported(f"compile_script returned {type(script).__name__}")
    return fn, script


def rule_assembly(ctx, r):
    idx = ctx.index
    for name, mod, cname, prefix, flags, fixed in BACKENDS:
        defaults = ctx.ev.eval_global(mod, "TARGET_DEFAULTS")
        opts = {k: tok("V:" + k) for k in defaults if k not in ("cores", "memory")}
        opts.update({"cores": 4, "memory": "8g"} if "cores" in defaults else {})
        con = f"src/{mod.replace('.', '/')}.py::{cname}.compile_script"
        try:
            fn, script = compile_script(ctx, mod, cname, opts)
        except Raised as exc:
            r.violation(con, f"compiling a job script for a target with all options set raises {exc}", f"src/{mod.replace('.', '/')}.py")
            continue
        except Unsupported as exc:   # a construct the checker's interpreter does not model: no verdict (exit 2), never a VIOLATION
            from ..loader import AnalysisError
            raise AnalysisError(f"{con}: the script builder uses a construct this analysis cannot follow ({exc})")
        lines = script.split("\n")
        ctx.shared[f"script:{name}"] = (fn, script, opts)
        where = fn.where
        r.check(lines[0] in ("#!/bin/bash", "#!/bin/sh", "#!/usr/bin/env bash"), con + "::shebang", "first line is the bash shebang",
                f"the script starts with {lines[0]!r}, not a shebang", where)
        cmd_idx = [i for i, l in enumerate(lines) if l.strip() and not l.startswith("#")]
        dir_idx = [i for i, l in enumerate(lines) if l.startswith(prefix.strip())]
        r.check(cmd_idx and dir_idx and max(dir_idx) < min(cmd_idx), con + "::directives-first", "all scheduler directives precede the first command",
                "a scheduler directive comes after the first command: the scheduler stops reading directives at the first command line", where)
        cd = [i for i, l in enumerate(lines) if l.startswith("cd ")]
        sete = [i for i, l in enumerate(lines) if l.strip() in ("set -e", "set -eu", "set -euo pipefail", "set -e -o pipefail", "set -o errexit")]
        spec_i = [i for i, l in enumerate(lines) if SPEC in l]
        ok_cd = len(cd) == 1 and lines[cd[0]] == f"cd {tok('quote:' + WD)}"
        if len(cd) == 1 and not ok_cd:
            if WD not in lines[cd[0]]:
                r.violation(con + "::cd-quoted", f"the script changes directory with `{lines[cd[0]]}`, which is not the target's working directory ({WD}): a target with a working "
                            "directory of its own (a template's, a sub-project's) runs its spec in the wrong place", where)
            else:
                r.violation(con + "::cd-quoted", f"the script changes directory with `{lines[cd[0]]}`: the working directory must be passed through shlex.quote "
                            "(a directory name with a space or shell metacharacters breaks the job or is executed)", where)
        elif not cd:
            r.violation(con + "::cd", "the script never changes into the target's working directory", where)
        else:
            r.ok(con + "::cd-quoted", f"cd {tok('quote:' + WD)}", where)
        r.check(len(sete) >= 1 and spec_i and sete[0] < spec_i[0], con + "::set-e", "`set -e` precedes the spec",
                "the script does not `set -e` before the spec: it no longer stops at the first failing command", where)
        r.check(cd and spec_i and cd[0] < spec_i[0], con + "::cd-before-spec", "cd precedes the spec", "the spec runs before the directory is changed", where)
        tail = script[script.index(SPEC):] if SPEC in script else ""
        r.check(script.count(SPEC) == 1 and tail == SPEC + "\n", con + "::spec-verbatim", "the spec is embedded once, verbatim, last, newline-terminated",
                f"the spec is not embedded verbatim as the last part of the script (tail: {tail[:60]!r}; occurrences: {script.count(SPEC)})", where)
        pre = lines[spec_i[0]] if spec_i else ""
        r.check(pre.startswith(SPEC), con + "::spec-own-line", "the spec starts on its own line", f"the spec is preceded on its line by {pre[:30]!r}", where)
        # ... and with a concrete spec whose indentation, blank lines and trailing blanks matter (here-document, quoted multi-line string)
        try:
            _fn, script2 = compile_script(ctx, mod, cname, opts, spec=NASTY_SPEC)
            r.check(script2.endswith(NASTY_SPEC) and script2.count(NASTY_SPEC) == 1, con + "::spec-whitespace", "an indented multi-line spec reaches the script byte for byte",
                    f"an indented multi-line spec is rewritten on its way into the script (script tail {script2[-len(NASTY_SPEC) - 5:]!r}; expected it to end with {NASTY_SPEC!r}): "
                    "leading whitespace is significant in here-documents and quoted strings, the job no longer runs the spec verbatim", where)
        except (Raised, Unsupported) as exc:
            r.info(con + "::spec-whitespace", f"not evaluated ({exc})")
        # ... and for the usual target, whose working directory IS the project directory: the scheduler starts a job in the directory `gwf run` was invoked from
        # (a subdirectory, or anywhere with -f), which is not the project directory
        try:
            _fn, script3 = compile_script(ctx, mod, cname, opts, wd=PROJ)
            r.check(f"cd {tok('quote:' + PROJ)}" in script3.split("\n"), con + "::cd-project-dir", "a target whose working directory is the project directory gets its cd as well",
                    "for a target whose working directory equals the project directory the script has no `cd`: the job starts wherever the scheduler puts it - the directory "
                    "gwf was invoked from (-cwd / sbatch default), e.g. a subdirectory of the project - and the spec's relative paths resolve there", where)
        except (Raised, Unsupported) as exc:
            r.info(con + "::cd-project-dir", f"not evaluated ({exc})")
    # the script travels to the scheduler through the standard input of sbatch/qsub/bsub: what arrives there must be the script, byte for byte in the user's encoding
    from .evalhelpers import eval_call_stdin, STDIN_SCRIPT
    out_s, call_f = eval_call_stdin(ctx)
    con_s = f"{call_f.module.relpath}::{call_f.qual}::stdin-codec"
    if out_s[0] == "unsupported":
        r.info(con_s, f"not evaluated ({out_s[1]})")
    elif out_s[0] == "raised":
        r.violation(con_s, f"handing a script with non-ASCII text (a directory `søren`, a pattern `Ærø µ`) to the submit command raises {out_s[1]}: such a target cannot be submitted", call_f.where)
    else:
        r.check(out_s[1] == STDIN_SCRIPT.encode("utf-8"), con_s, "a script with non-ASCII text reaches the submit command's stdin unchanged",
                f"a script with non-ASCII text does not reach the submit command's standard input verbatim: the scheduler receives {out_s[1].decode('utf-8', 'replace')[:90]!r} "
                f"instead of {STDIN_SCRIPT[:90]!r} (a lossy codec on the pipe): the job runs a different spec, in a different directory", call_f.where)
    # ensure_trailing_newline keeps text verbatim
    interp = PureInterp(ctx)
    etn = idx.func("gwf.utils:ensure_trailing_newline")
    res = {s: interp.call(etn, (s,)) for s in ("", "a", "a\n", "a\nb", " a \n\n")}
    want = {"": "\n", "a": "a\n", "a\n": "a\n", "a\nb": "a\nb\n", " a \n\n": " a \n\n"}
    r.check(res == want, f"{etn.module.relpath}::{etn.qual}", "adds exactly one newline when missing, nothing else", f"ensure_trailing_newline maps {res}", etn.where)


def rule_log_paths(ctx, r):
    idx = ctx.index
    want_out, want_err = f"{PROJ}/.gwf/logs/{NAME}.stdout", f"{PROJ}/.gwf/logs/{NAME}.stderr"
    for name, mod, cname, prefix, flags, fixed in BACKENDS:
        con = f"src/{mod.replace('.', '/')}.py::{cname}.compile_script::logs"
        modes = ("full", "merged", "none") if name == "slurm" else ("full",)
        for mode in modes:
            try:
                fn, script = compile_script(ctx, mod, cname, {}, log_mode=mode)
            except Raised as exc:
                r.violation(con + f"::{mode}", f"compiling a script with no options (log mode {mode}) raises {exc}", f"src/{mod.replace('.', '/')}.py")
                continue
            except Unsupported as exc:
                from ..loader import AnalysisError
                raise AnalysisError(f"{con}: the script builder uses a construct this analysis cannot follow ({exc})")
            lines = [l[len(prefix):] for l in script.split("\n") if l.startswith(prefix)]
            outs = [l for l in lines if l.startswith(fixed["stdout"])]
            errs = [l for l in lines if l.startswith(fixed["stderr"])]
            outv = [next(l[len(p):] for p in fixed["stdout"] if l.startswith(p)) for l in outs]
            errv = [next(l[len(p):] for p in fixed["stderr"] if l.startswith(p)) for l in errs]
            if mode == "full":
                ok = outv == [want_out] and errv == [want_err]
                msg = f"log mode full: stdout -> {outv}, stderr -> {errv}; `gwf logs` reads {want_out} / {want_err}"
            elif mode == "merged":
                ok = outv == [want_out] and errv == []
                msg = f"log mode merged: stdout -> {outv}, stderr -> {errv}; expected one combined file {want_out} and no --error"
            else:
                ok = outv == ["/dev/null"] and errv == []
                msg = f"log mode none: stdout -> {outv}, stderr -> {errv}; expected --output=/dev/null only"
            r.check(ok, con + f"::{mode}", msg, "the job's output does not go where `gwf logs` looks for it: " + msg, fn.where)
    # readers
    interp = PureInterp(ctx)
    cxt = idx.cls("gwf.core:Context")
    cobj = Obj("ctx", working_dir=PROJ, **{"__class__": cxt})
    try:
        logs_dir = interp.eval(ast.parse("ctx.logs_dir", mode="eval").body, {"ctx": cobj}, idx.repo.module("gwf.core"))
    except (Raised, Unsupported) as exc:
        logs_dir = f"<{exc}>"
    r.check(logs_dir == f"{PROJ}/.gwf/logs", "src/gwf/core.py::Context.logs_dir", "logs_dir = <project>/.gwf/logs", f"Context.logs_dir evaluates to {logs_dir}", cxt.where)
    lg = idx.func("gwf.plugins.logs:logs")
    paths = {}
    for flag in (False, True):
        hooks = {"builtins.open": lambda p, *a, **k: Obj("file", read=("lambda",), path=p), "attr:read": lambda recv, *a: "", }
        it = PureInterp(ctx, hooks={"builtins.open": lambda p, *a, **k: ("opened", p), "attr:read": lambda recv, *a: recv})
        seen = []
        it.hooks["click.echo"] = lambda x, *a, **k: seen.append(x)
        it.hooks["click.echo_via_pager"] = lambda x, *a, **k: seen.append(x)
        try:
            it.call(lg, (Obj("ctx", working_dir=PROJ, logs_dir=f"{PROJ}/.gwf/logs"), NAME, flag, True), {})
            paths[flag] = seen[0][1] if seen and isinstance(seen[0], tuple) else seen
        except (Raised, Unsupported) as exc:
            paths[flag] = f"<{exc}>"
    r.check(paths.get(False) == want_out and paths.get(True) == want_err, f"{lg.module.relpath}::{lg.qual}", "`gwf logs T` reads .stdout, `-e` reads .stderr under <project>/.gwf/logs",
            f"`gwf logs` opens {paths}", lg.where)
    # local pool writer (C13.R4 checks buffers; here the location)
    from .localpool import explore_task
    th, sem, _outs, _steps = explore_task(ctx)
    locs = sorted(site["path"] for site in sem.log_list)
    want = sorted([f"{PROJ}/.gwf/logs/⟦NAME⟧.stdout", f"{PROJ}/.gwf/logs/⟦NAME⟧.stderr"])
    r.check(locs == want, f"{th.module.relpath}::{th.qual}::log-location", "local pool writes <project>/.gwf/logs/<name>.stdout|.stderr",
            f"the local pool writes its logs to {locs}", th.where)


def rule_options(ctx, r):
    idx = ctx.index
    for name, mod, cname, prefix, flags, fixed in BACKENDS:
        relp = f"src/{mod.replace('.', '/')}.py"
        con = f"{relp}::{cname}.compile_script::options"
        defaults = ctx.ev.eval_global(mod, "TARGET_DEFAULTS")
        unknown = sorted(set(defaults) - set(flags))
        r.check(not unknown, f"{relp}::TARGET_DEFAULTS", "every supported option has a reference flag", f"options {unknown} have no known scheduler flag in the reference", relp)
        got = ctx.shared.get(f"script:{name}")
        if got is None:
            continue
        fn, script, opts = got
        dirs = [l[len(prefix):] for l in script.split("\n") if l.startswith(prefix)]
        for opt, val in opts.items():
            if name == "sge" and opt == "memory":
                val = "2g"  # 8g over 4 cores: SGE wants per-core memory
            hits = [d for d in dirs if any(d == p + str(val) or (name == "lsf" and d.startswith(p) and str(val) in d) for p in flags.get(opt, ()))]
            anyv = [d for d in dirs if str(val) in d]
            if name == "lsf" and opt == "memory":
                ok = any(d == "-M " + str(val) for d in dirs)
            else:
                ok = len(hits) == 1 and len(anyv) == 1
            if not ok:
                extra = ""
                if name == "sge" and opt == "memory" and any("8g" in d for d in dirs):
                    extra = " (total memory is not divided by the number of cores)"
                r.violation(f"{con}::{opt}", f"option {opt}={val} is rendered as {anyv or 'nothing'}; expected exactly one directive {[p + str(val) for p in flags.get(opt, ())]}{extra}",
                            fn.where)
            else:
                r.ok(f"{con}::{opt}", f"{opt} -> {hits[0] if hits else anyv[0]}", fn.where)
        # nothing given twice: fixed directives and option flags are disjoint, each flag once
        heads = [d.split("=")[0] if "=" in d.split(" ")[0] else d.split(" ")[0] + (" " + d.split(" ")[1] if d.startswith(("-l ", "-pe ")) else "") for d in dirs]
        heads = [h.split("=")[0] for h in heads]
        dup = sorted({h for h in heads if heads.count(h) > 1 and h not in ("-l h_vmem", "-l h_rt", "-V", "-w v", "-cwd")})
        r.check(not dup, f"{con}::no-duplicates", "no directive is emitted twice", f"directive(s) {dup} are emitted twice with possibly conflicting values", fn.where)
        # job name directive
        jn = [d for d in dirs if any(d == p + NAME for p in fixed["job_name"])]
        r.check(len(jn) == 1, f"{con}::job-name", f"job name directive {jn}", "the job is not named after the target", fn.where)
        # each option omitted (resolved to None): no directive, no crash, no unfilled placeholder
        for opt in opts:
            rest = {k: v for k, v in opts.items() if k != opt}
            try:
                _fn, sc = compile_script(ctx, mod, cname, rest)
            except Raised as exc:
                r.violation(f"{con}::omitted-{opt}", f"when option `{opt}` was resolved to None (and therefore removed) the script builder raises {exc}", fn.where)
                continue
            except Unsupported as exc:
                from ..loader import AnalysisError
                raise AnalysisError(f"{con}::omitted-{opt}: cannot follow the builder without `{opt}` ({exc})")
            ds = [l[len(prefix):] for l in sc.split("\n") if l.startswith(prefix)]
            leftover = [d for d in ds if any(d.startswith(p) for p in flags.get(opt, ())) and not (name == "sge" and opt in ("memory", "walltime") and False)]
            if name == "sge":
                leftover = [d for d in leftover if not any(d.startswith(p) and o != opt for o, ps in flags.items() for p in ps if o in rest)]
            if name == "lsf":
                leftover = [d for d in ds if ("{" + opt + "}") in d or (any(d.startswith(p) for p in flags.get(opt, ())) and not any(str(v) in d for v in rest.values()))]
            brace = [d for d in ds if "{" in d and "}" in d and "⟦" not in d.split("{")[1].split("}")[0]]
            r.check(not leftover and not brace, f"{con}::omitted-{opt}", f"without `{opt}` no directive for it is emitted",
                    f"option `{opt}` resolved to None still produces {leftover or brace}", fn.where)


def rule_resolution(ctx, r):
    idx = ctx.index
    sb = idx.func("gwf.scheduling:submit_backend")
    con = f"{sb.module.relpath}::{sb.qual}"
    captured = {}

    def fake_submit(recv, target, deps):
        captured["options"] = dict(target.options)
        captured["deps"] = deps

    interp = PureInterp(ctx, hooks={"attr:submit": fake_submit, "attr:update": lambda recv, *a: (recv.update(*a) if isinstance(recv, dict) else captured.setdefault("hashed", True))})
    backend = Obj("backend", target_defaults={"cores": 1, "memory": None, "queue": "x", "account": "dflt"})
    from .evalhelpers import target_obj
    target = target_obj(ctx, name=NAME, spec=SPEC, working_dir=WD, options={"memory": 5, "queue": None, "nodes": 9, "account": "mine"})
    try:
        params = sb.positional_params()
        kwargs = {}
        if "dry_run" in sb.params():
            kwargs["dry_run"] = False
        interp.call(sb, (target, ["dep"], backend, Obj("hashes")), kwargs)
    except Raised as exc:
        r.violation(con, f"submit_backend raises {exc.kind} while resolving the options of a target ({exc.detail[:80]})", sb.where)
        return
    except Unsupported as exc:
        from ..loader import AnalysisError
        raise AnalysisError(f"{con}: option resolution cannot be evaluated ({exc})")
    got = captured.get("options")
    want = {"cores": 1, "memory": 5, "account": "mine"}
    if got != want:
        why = []
        if got is None:
            why.append("backend.submit was not reached")
        else:
            if "queue" in got:
                why.append(f"an option the target resolved to None comes back as {got['queue']!r} (must be omitted)")
            if "nodes" in got:
                why.append("an option the backend does not know reaches the scheduler")
            if got.get("memory") != 5 or got.get("account") != "mine":
                why.append("a per-target value does not override the backend default")
            if got.get("cores") == 9:
                why.append("the VALUE of an option the backend does not know (nodes=9) reaches the scheduler under the name of a similar supported option (cores)")
            elif got.get("cores") != 1:
                why.append("a backend default is lost")
        r.violation(con + "::precedence", f"backend defaults {{cores:1,memory:None,queue:'x',account:'dflt'}} + target options {{memory:5,queue:None,nodes:9,account:'mine'}} resolve to {got}, expected {want}: "
                    + "; ".join(why), sb.where)
    else:
        r.ok(con + "::precedence", "defaults < target options; None removed; unknown removed", sb.where)
    warned = any(e[0] == "log" and e[1] in ("warning", "warn") and any("nodes" == a for a in e[2]) for e in interp.events)
    r.check(warned, con + "::warning", "an unknown option is dropped with a warning naming it", "an option the backend does not know is dropped without a warning", sb.where)
    r.check(captured.get("deps") == ["dep"], con + "::deps", "dependencies are passed through unchanged", "submit_backend does not pass the dependency list through to the backend", sb.where)
    # workflow-level chains
    ch = idx.func("gwf.utils:chain")
    it = PureInterp(ctx)
    res = it.call(ch, ({"a": 1, "b": 1}, {"b": 2, "c": 2}, {"c": 3}))
    r.check(res == {"a": 1, "b": 2, "c": 3}, f"{ch.module.relpath}::{ch.qual}", "later dictionaries override earlier ones", f"chain() gives {res}", ch.where)
    # "every combination of option sources and values incl. None": a None at a higher-precedence level IS that level's value (the option is then omitted), 0 and "" too
    res2 = it.call(ch, ({"queue": "normal", "account": "genomics", "cores": 4, "memory": "8g"}, {"queue": None, "cores": 0}, {"account": None, "memory": ""}))
    r.check(res2 == {"queue": None, "account": None, "cores": 0, "memory": ""}, f"{ch.module.relpath}::{ch.qual}::none", "None / 0 / '' given at a higher level win like any other value",
            f"chain(workflow defaults, template {{queue: None, cores: 0}}, target {{account: None, memory: ''}}) gives {res2}: an option resolved to None by the level with "
            "precedence must be omitted from the script - here the lower level's value reaches the scheduler directive instead", ch.where)
    wf = idx.cls("gwf.workflow:Workflow")
    for meth, want in (("target", ["self.defaults", "options"]), ("target_from_template", ["self.defaults", "template.options", "options"])):
        m = idx.method(wf, meth)
        args = None
        for c in _calls(m.node):
            if isinstance(c.func, (ast.Name, ast.Attribute)) and idx.canon(c.func, m.module) == "gwf.utils.chain":
                args = [ast.unparse(a) for a in c.args]
        r.check(args == want, f"{m.module.relpath}::{m.qual}::options", f"options = chain({', '.join(want)})",
                f"Workflow.{meth} merges options as chain({args}): precedence must be workflow default < template < per-target argument", m.where)


def rule_log_cleaning(ctx, r):
    idx = ctx.index
    from .evalhelpers import eval_clean_logs
    left, listed, cl = eval_clean_logs(ctx)
    con = f"{cl.module.relpath}::{cl.qual}"
    want = sorted(("A.stdout", "A.stderr", "B.stdout", "old.v2.stdout", "old.v2.stderr"))
    if isinstance(left, str) and "[not-modelled]" in left:
        from ..loader import AnalysisError
        raise AnalysisError(f"{con}: log cleaning cannot be evaluated ({left})")
    # (the lone `gone.stderr` - a pair of which one file is missing - may stay or go: the property says which logs may be deleted, and both of `old`'s must be)
    ok_left = isinstance(left, list) and set(want) <= set(left) and not {"old.stdout", "old.stderr"} & set(left) and set(left) <= set(want) | {"gone.stderr"}
    r.check(ok_left and set(listed) <= {f"{PROJ}/.gwf/logs"}, con, "removes exactly the logs of names in (log files - current target names)",
            f"with targets A, B, old.v2 and the logs A.stdout A.stderr B.stdout old.stdout old.stderr gone.stderr old.v2.stdout old.v2.stderr in {listed or '?'}, log cleaning leaves "
            f"{left}: it must remove exactly the logs of `old` and `gone` (targets that left the workflow) and never a log of a current target - `old.v2` is a current "
            "target whose name merely starts like a removed one", cl.where)
    if r.instances and r.instances[-1].get("verdict") == "VIOLATION":
        r.instances[-1]["from_witness"] = True       # an evaluated disk: not overridden by the run witness, whose project has no dotted names
    run_f = idx.func("gwf.plugins.run:run")
    from ..astutil import truth_table
    from ..index import ancestors
    site = None
    for c in _calls(run_f.node):
        if isinstance(c.func, ast.Name) and c.func.id == "clean_logs":
            site = c
    ok = False
    if site is not None:
        atoms = {"cfg": lambda e: ast.unparse(e).replace('"', "'") in ("ctx.config.get('clean_logs')", "ctx.config['clean_logs']"), "dry": lambda e: dotted(e) == "dry_run"}
        tables = []
        node = site
        for a in ancestors(site):
            if isinstance(a, ast.If):
                in_body = any(node is s_ or node in list(ast.walk(s_)) for s_ in a.body)
                tt = truth_table(a.test, atoms)
                tables.append({k: (v if in_body else (None if v is None else not v)) for k, v in tt.items()})
            node = a
        if tables:
            comb = {}
            for k in tables[0]:
                vals = [t[k] for t in tables]
                comb[k] = False if any(v is False for v in vals) else (None if any(v is None for v in vals) else True)
            ok = comb == {(False, False): False, (False, True): False, (True, False): True, (True, True): False}
    r.check(ok, f"{run_f.module.relpath}::{run_f.qual}::clean_logs-guard", "logs are cleaned iff config clean_logs and not dry_run",
            "log cleaning is not guarded by `config clean_logs and not dry_run` (it runs when switched off or during a dry run)", run_f.where)
    others = [f for f in idx.functions.values() if f.key != run_f.key for c in _calls(f.node) if isinstance(c.func, ast.Name) and c.func.id == "clean_logs"
              and idx.canon(c.func, f.module) == "gwf.plugins.run.clean_logs"]
    others = [o for o in others if not ctx.resolver.owned_by(o, ["gwf.plugins.run:run"])]
    r.check(not others, con + "::callers", "clean_logs is called only by run (or helpers only run calls)", f"clean_logs is also called from {[o.qual for o in others]}", cl.where)


NASTY_SPEC = "\n    first line\n      nested 'quoted  two  spaces'\n    cat <<EOF\n        heredoc body\n    EOF\n    trailing blanks   \n\n"


def rule_spec_verbatim(ctx, r):
    """What the user writes after `<<` (or passes as spec=) is the text the script builders receive: no dedent, strip or re-wrapping on the way
    (leading whitespace is significant in here-documents, quoted strings and embedded code)."""
    from .evalhelpers import make_target
    idx = ctx.index
    tgt = idx.cls("gwf.core:Target")
    m = idx.method(tgt, "__lshift__")
    con = f"{tgt.module.relpath}::Target.__lshift__"
    if m is None:
        r.violation(con, "Target.__lshift__ not found: `target << spec` is how a directly defined target gets its spec", tgt.where)
    else:
        o = make_target(ctx, "T")
        try:
            ret = PureInterp(ctx).call(m, (NASTY_SPEC,), {}, self_obj=o)
            got = getattr(o, "spec", None)
            r.check(got == NASTY_SPEC and ret is o, con, "`target << spec` stores the text unchanged and returns the target",
                    f"`target << spec` with an indented multi-line spec stores {got!r} (returns {'the target' if ret is o else ret!r}); expected the text exactly as written "
                    f"({NASTY_SPEC!r}): the job script no longer runs the spec verbatim", m.where)
        except Raised as exc:
            r.violation(con, f"`target << spec` raises {exc.kind}: {exc.detail[:80]}", m.where)
        except Unsupported as exc:
            r.info(con, f"not evaluated ({exc})")
    # the spec field itself: no converter that rewrites the text
    for fname, _ann, value in tgt.fields:
        if fname != "spec" or not isinstance(value, ast.Call):
            continue
        conv = next((k.value for k in value.keywords if k.arg == "converter"), None)
        if conv is None:
            r.ok(f"{tgt.module.relpath}::Target.spec", "the spec field has no converter", tgt.where)
            continue
        try:
            interp = PureInterp(ctx)
            got = interp.apply(interp.eval(conv, {}, tgt.module), [NASTY_SPEC], {}, 0)
            r.check(got == NASTY_SPEC, f"{tgt.module.relpath}::Target.spec", "the spec field's converter is the identity on text",
                    f"the spec field's converter turns an indented multi-line spec into {got!r}: the job script no longer runs the spec verbatim", tgt.where)
        except Raised as exc:
            r.violation(f"{tgt.module.relpath}::Target.spec", f"the spec field's converter raises {exc.kind} on an indented multi-line spec", tgt.where)
        except Unsupported as exc:
            r.info(f"{tgt.module.relpath}::Target.spec", f"converter not evaluated ({exc})")


def run(ctx):
    r1 = ctx.rule("R1", "script assembly: shebang, directives, quoted cd, set -e, then the spec verbatim (three sibling builders)", min_instances=10)
    rule_assembly(ctx, r1)
    rule_spec_verbatim(ctx, r1)
    r3 = ctx.rule("R3", "log paths written by the schedulers / the local pool are the ones `gwf logs` reads; log modes", min_instances=7)
    rule_log_paths(ctx, r3)
    from .shared import rule_factory_default
    rule_factory_default(ctx, r3, "gwf.backends.slurm:create_backend", "log_mode", "full", "with the default configuration stderr would not go to <target>.stderr where `gwf logs -e` reads it")
    r4 = ctx.rule("R4", "every supported option becomes exactly one directive with the documented flag; omitted options leave no trace", min_instances=15)
    rule_options(ctx, r4)
    r5 = ctx.rule("R5", "option resolution: backend default < workflow default < template < per-target; None omitted; unknown dropped with a warning", min_instances=5)
    rule_resolution(ctx, r5)
    r6 = ctx.rule("R6", "log cleaning removes only logs of targets that left the workflow, never when switched off or on a dry run", min_instances=3)
    rule_log_cleaning(ctx, r6)
    from .evalhelpers import cached_witness, report_witness, run_command_witness
    report_witness(r6, "src/gwf/plugins/run.py::run::witness-project", "src/gwf/plugins/run.py:1", cached_witness(ctx, "run", run_command_witness),
                   "log cleaning removes exactly the logs of targets that left the workflow, none when switched off or on a dry run", select=lambda d: "log" in d or "ends with" in d)
    from .shared import rule_config_switch
    rule_config_switch(ctx, r6, "clean_logs", "`gwf run` decides whether to clean logs (config.get('clean_logs'))")
    # "none when log cleaning is switched off" - by whatever route the user switches it off: text that reaches the configuration is coerced like `config set` does it
    from .evalhelpers import cli_overrides_witness
    report_witness(r6, "src/gwf/cli.py::main::text-options", "src/gwf/cli.py:1", cached_witness(ctx, "cli-overrides", cli_overrides_witness),
                   "clean_logs=false given through a KEY=VALUE option of the group (if there is one) reads as False")
    from .evalhelpers import cached_witness, report_witness, workflow_api_witness, task_coroutine_witness
    ww = cached_witness(ctx, "workflow-api", workflow_api_witness)
    report_witness(r5, "src/gwf/workflow.py::Workflow::witnesses", "src/gwf/workflow.py:1", ww, "workflow default < template < per-target argument, evaluated on a symbolic workflow",
                   select=lambda d: "option" in d or "precedence" in d)
    if not ww[1]:
        ctx.reconcile([r5], lambda c: "workflow.py::Workflow.target" in c, (ww[0], [], ww[2]), "src/gwf/workflow.py::Workflow", "src/gwf/workflow.py:1")
    # log cleaning guard / log location of the local pool: decided by the evaluated run command / task coroutine when the shape is not recognised
    wrun = cached_witness(ctx, "run", run_command_witness)
    if not [d for d in wrun[1] if "log" in d]:
        ctx.reconcile([r6], lambda c: "plugins/run.py::run::clean_logs-guard" in c or "plugins/run.py::clean_logs" in c, (wrun[0], [], wrun[2]), "src/gwf/plugins/run.py::run", "src/gwf/plugins/run.py:1")
    wt = cached_witness(ctx, "task", task_coroutine_witness)
    if not [d for d in wt[1] if "output is stored" in d or "logs are opened" in d]:
        ctx.reconcile([r3], lambda c: "Scheduler.try_handle_task::log-location" in c, (wt[0], [], wt[2]), "src/gwf/backends/local.py::Scheduler.try_handle_task", "src/gwf/backends/local.py:1")

"""C16 - touch makes the selected cone look completed without changing file contents."""
import ast

from ..index import FuncInfo, dotted, walk_no_nested, loc
from ..paths import RETURN, Explorer, Semantics, State, fmt_trace
from .c02 import rule_cone_selection
from .persist import _calls, rule_close_writes, rule_exit_persists


class VisitSem(Semantics):
    loop_bound = 1

    def __init__(self, ctx, finfo):
        super().__init__(ctx.index, finfo)
        self.target = finfo.positional_params()[0]
        self.touches = []

    def may_raise(self, node, state):
        return []

    def effect(self, node, state):
        if isinstance(node, tuple):
            return state
        s = state
        for c in _calls(node):
            f = c.func
            if isinstance(f, ast.Attribute) and f.attr == "touch":
                s = s.with_fact("touched", True).with_fact("deps_before_touch", bool(s.facts.get("deps_done"))).with_fact(
                    "mkdir_before_touch", bool(s.facts.get("mkdir"))).note(node, "touch output")
                self.touches.append((c, s))
            if isinstance(f, ast.Attribute) and f.attr in ("mkdir",) or (self.index.canon(f, self.module) if isinstance(f, (ast.Name, ast.Attribute)) else None) in (
                    "os.makedirs", "gwf.utils.ensure_dir"):
                s = s.with_fact("mkdir", ast.unparse(c)).note(node, "create parent directory")
            if isinstance(f, ast.Attribute) and f.attr == "update" and c.args and dotted(c.args[0]) == self.target:
                s = s.with_fact("hashed", True).note(node, "spec hash recorded")
        return s


def _run_structural(ctx):
    idx = ctx.index
    res = ctx.resolver
    tw = idx.func("gwf.plugins.touch:touch_workflow")
    from ..inline import inlined
    # names under which the visitor is called: its own name, or `name = lru_cache(maxsize=None)(visitor)` wrappers
    wrappers = {}  # wrapper name -> (wrapped function name, 'unbounded'|'bounded')
    for n in tw.node.body:
        if isinstance(n, ast.Assign) and isinstance(n.targets[0], ast.Name) and isinstance(n.value, ast.Call) and n.value.args \
                and isinstance(n.value.args[0], ast.Name) and n.value.args[0].id in tw.nested:
            deco = n.value.func
            canon = idx.canon(deco.func if isinstance(deco, ast.Call) else deco, tw.module) or ""
            if canon in ("functools.lru_cache", "functools.cache"):
                unb = canon == "functools.cache" or (isinstance(deco, ast.Call) and any(
                    (k.arg == "maxsize" and isinstance(k.value, ast.Constant) and k.value.value is None) for k in deco.keywords)) or (
                    isinstance(deco, ast.Call) and deco.args and isinstance(deco.args[0], ast.Constant) and deco.args[0].value is None)
                wrappers[n.targets[0].id] = (n.value.args[0].id, "unbounded" if unb else "bounded")

    def visit_names(f):
        return {f.name} | {w for w, (inner, _m) in wrappers.items() if inner == f.name}

    visit = next((f for f in tw.nested.values() if any(isinstance(c.func, ast.Name) and c.func.id in visit_names(f) for c in _calls(f.node))), None) \
        or next(iter(tw.nested.values()), None)
    vnames = visit_names(visit) if visit is not None else set()
    if visit is not None:
        visit = inlined(ctx, visit)
    tcon = f"{tw.module.relpath}::{tw.qual}"
    r1 = ctx.rule("R1", "memoised post-order: all dependencies are visited before the target's own outputs are touched, each target once", min_instances=3)
    if visit is None:
        # (no nested visitor: the traversal is written another way - the command's evaluation on the witness projects decides, see run())
        from ..loader import AnalysisError
        raise AnalysisError("touch_workflow has no nested visitor function")
    vcon = f"{visit.module.relpath}::{visit.qual}"
    sem = VisitSem(ctx, visit)
    graph_p = tw.positional_params()[1]

    dep_loops = [n for n in walk_no_nested(visit.node) if isinstance(n, ast.For) and ast.unparse(n.iter) in (
        f"{graph_p}.dependencies[{sem.target}]", f"sorted({graph_p}.dependencies[{sem.target}])") and any(
        isinstance(c.func, ast.Name) and c.func.id in vnames and dotted(c.args[0]) == dotted(n.target) for c in _calls(n))]

    class Ex(Explorer):
        def s_For(self, st, state):
            outs = super().s_For(st, state)
            if st in dep_loops:
                outs = [type(o)(o.kind, o.state.with_fact("deps_done", True) if o.kind == "next" else o.state, o.payload, o.node) for o in outs]
            return outs

    outs = Ex(sem).run(State())
    if not dep_loops:
        r1.violation(vcon + "::recursion", "the visitor does not visit every dependency of the target (`for dep in graph.dependencies[target]: visit(dep)`)", visit.where)
    early = [o for o in outs if o.kind == RETURN and not o.state.facts.get("deps_done")]
    r1.check(not early and dep_loops, vcon + "::visits-all-deps", "every path through the visitor first visits all dependencies",
             "a path leaves the visitor without visiting the target's dependencies (e.g. an early return for targets without outputs): the cone below is never touched",
             visit.where, fmt_trace(early[0].state, visit.module) if early else None)
    pre = [t for t in sem.touches if not t[1].facts.get("deps_before_touch")]
    r1.check(sem.touches and not pre, vcon + "::post-order", "own outputs are touched after the dependencies (their files end up older)",
             "a target's outputs can be touched before its dependencies': the dependency's files are then newer and the target is stale right after `gwf touch`",
             visit.where, fmt_trace(pre[0][1], visit.module) if pre else None)
    # memoisation, unbounded
    memo = None
    for d in visit.node.decorator_list:
        name = dotted(d.func if isinstance(d, ast.Call) else d) or ""
        canon = idx.canon(d.func if isinstance(d, ast.Call) else d, visit.module) or name
        if canon in ("functools.lru_cache",):
            if isinstance(d, ast.Call):
                ms = [k.value for k in d.keywords if k.arg == "maxsize"] + list(d.args[:1])
                memo = "unbounded" if ms and isinstance(ms[0], ast.Constant) and ms[0].value is None else "bounded"
            else:
                memo = "bounded"  # bare @lru_cache has maxsize=128
        elif canon in ("functools.cache",):
            memo = "unbounded"
    if memo is None and any(m == "unbounded" for w, (inner, m) in wrappers.items() if inner == visit.name):
        memo = "unbounded"
    elif memo is None and any(inner == visit.name for w, (inner, m) in wrappers.items()):
        memo = "bounded"
    if memo is None:
        # visited-set guard idiom
        guard = any(isinstance(n, ast.If) and isinstance(n.test, ast.Compare) and isinstance(n.test.ops[0], ast.In) and dotted(n.test.left) == sem.target
                    and any(isinstance(s, ast.Return) for s in n.body) for n in visit.node.body[:2])
        memo = "unbounded" if guard else None
    if memo is None and not any("cache" in (d or "") for d in visit.decorator_names()):
        # no cache decorator anywhere: an explicit visited set in another shape; the evaluated command on a project with a shared dependency decides
        from .evalhelpers import cached_witness, touch_command_witness
        tw_ = cached_witness(ctx, "touch_command_witness", touch_command_witness)
        if tw_[2] is None and not tw_[1]:
            memo = "unbounded"
    r1.check(memo == "unbounded", vcon + "::memo", "each target is visited once (unbounded memo)",
             ("the visitor's memo is bounded (lru_cache default maxsize=128): in a large workflow a shared dependency is evicted, visited again and re-touched "
              "after its first dependents, which makes them stale") if memo == "bounded" else
             "the visitor is not memoised: a shared dependency is touched again after its first dependent (diamond), which makes that dependent stale", visit.where)

    r2 = ctx.rule("R2", "the only file effects of touch are mkdir of the parent and Path.touch(exist_ok=True) on flattened outputs of visited targets", min_instances=2)
    r2.ok(tcon + "::effects", "effect scan of touch.py", tw.where)
    for f in [tw, visit, idx.func("gwf.plugins.touch:touch")]:
        for n in walk_no_nested(f.node):
            for e in res.node_effects(n, f):
                if e.kind in ("FS_DELETE",) or (e.kind == "FS_WRITE" and e.detail not in (".touch()", ".mkdir()", "os.makedirs", "os.utime")):   # utime changes the time stamp, not the content
                    r2.violation(f"{f.module.relpath}::{f.qual}::{e.detail}", f"touch performs `{e.detail}`: it must never alter the content of an existing file or remove one", e.where)
    for c, st in sem.touches:
        from ..astutil import single_assignments
        recv = c.func.value
        if isinstance(recv, ast.Name):
            recv = single_assignments(visit.node).get(recv.id, recv)  # output = Path(path)
        arg = recv.args[0] if isinstance(recv, ast.Call) and recv.args else recv
        var = dotted(arg)
        loops = {n.target.id: ast.unparse(n.iter) for n in walk_no_nested(visit.node) if isinstance(n, ast.For) and isinstance(n.target, ast.Name)}
        src = loops.get(var)
        aliases = {n.targets[0].id: ast.unparse(n.value) for n in walk_no_nested(visit.node) if isinstance(n, ast.Assign) and isinstance(n.targets[0], ast.Name)}
        src = aliases.get(src, src)
        ok_src = src == f"{sem.target}.flattened_outputs()"
        eo = any(k.arg == "exist_ok" and isinstance(k.value, ast.Constant) and k.value.value is True for k in c.keywords) or not c.keywords
        r2.check(ok_src and eo, vcon + "::touch", f"Path({var}).touch() for {var} in target.flattened_outputs()",
                 f"`{ast.unparse(c)[:60]}` does not touch exactly the flattened outputs of the visited target (ranges over `{loops.get(var)}`)", loc(c, visit.module))
    if not sem.touches:
        r2.violation(vcon + "::touch", "no output is ever touched", visit.where)

    r3 = ctx.rule("R3", "the spec hash of every visited target is recorded; roots are the requested patterns or all endpoints", min_instances=3)
    nohash = [o for o in outs if o.kind == RETURN and not o.state.facts.get("hashed")]
    r3.check(not nohash, vcon + "::hash", "spec_hashes.update(target) on every path of the visitor",
             "a visited target can leave the visitor without its spec hash recorded: with hashing on it is still stale after `gwf touch`", visit.where,
             fmt_trace(nohash[0].state, visit.module) if nohash else None)
    roots_ok = any(isinstance(n, ast.For) and dotted(n.iter) == tw.positional_params()[0] and any(
        isinstance(c.func, ast.Name) and c.func.id in vnames and c.args and dotted(c.args[0]) == dotted(n.target) for c in _calls(n)) for n in walk_no_nested(tw.node))
    if wrappers and any(inner == visit.name for inner, _m in wrappers.values()):
        # every call must go through the memoised wrapper, never to the raw function
        raw = [c for f in [tw] + list(tw.nested.values()) for c in _calls(f.node) if isinstance(c.func, ast.Name) and c.func.id == visit.name]
        roots_ok = roots_ok and not raw
    from .shared import rule_targets_argument, rule_calls_bind
    rule_calls_bind(ctx, r3, ("gwf.plugins.touch",))
    rule_targets_argument(ctx, r3, "gwf.plugins.touch:touch", "`gwf touch [NAMES]`")
    # "with spec hashing on their current specs are recorded": recorded means saved - the store persists its table on every exit, whatever was on disk before
    from .persist import rule_close_writes, rule_exit_persists
    rule_exit_persists(ctx, r3, ("spec hashes",))
    rule_close_writes(ctx, r3, ("spec hashes",))
    r3.check(roots_ok, tcon + "::roots", "every requested endpoint is visited", "touch_workflow does not visit every requested endpoint", tw.where)
    rule_cone_selection(ctx, r3)
    from .shared import rule_sibling_call_agreement
    rule_sibling_call_agreement(ctx, r3)      # "so `gwf status` reports it completed": status reads the store touch wrote
    rule_exit_persists(ctx, r3, ("spec hashes",))
    rule_close_writes(ctx, r3, ("spec hashes",))
    tc = idx.func("gwf.plugins.touch:touch")
    from ..astutil import expand as _exp2
    w_ok = any(isinstance(n, ast.With) and any("get_spec_hashes(" in _exp2(tc.node, i.context_expr) for i in n.items) and any(
        isinstance(c.func, (ast.Name, ast.Attribute)) and idx.canon(c.func, tc.module) == "gwf.plugins.touch.touch_workflow" for c in _calls(n)) for n in walk_no_nested(tc.node))
    r3.check(w_ok, f"{tc.module.relpath}::{tc.qual}::with", "touching happens inside the with-block of the hash store", "touch_workflow is not enclosed by the spec-hash store's with-block", tc.where)

    r5 = ctx.rule("R5", "the touch command evaluated on a witness project (chains, shared dependency, output-less aggregate, unrelated endpoint): cone, order, hashes")
    from .evalhelpers import touch_command_witness
    n_w, diffs, unsup = touch_command_witness(ctx)
    tcon5 = "src/gwf/plugins/touch.py::touch::witness-project"
    if unsup is not None and not diffs:
        r5.info(tcon5, f"not evaluated ({unsup}); the structural rules R1-R4 decide")
        r5.ok(tcon5 + "::fallback", "decided structurally (R1-R4)", "src/gwf/plugins/touch.py:1")
    elif diffs:
        for d in diffs[:3]:
            r5.violation(tcon5, d, "src/gwf/plugins/touch.py:1")
    else:
        r5.ok(tcon5, f"{n_w} invocations: exactly the cone's outputs are touched once, dependencies first, hashes recorded inside the store", "src/gwf/plugins/touch.py:1")
    r4 = ctx.rule("R4", "missing outputs are created as empty files also when their directory does not exist yet")
    nomk = [t for t in sem.touches if not t[1].facts.get("mkdir_before_touch")]
    ok = sem.touches and not nomk
    if ok:
        mk = sem.touches[0][1].facts.get("mkdir")
        ok = "parents=True" in mk.replace(" ", "") or "makedirs" in mk or "ensure_dir" in mk
    r4.check(ok, vcon + "::parent-dir", "the parent directory is created (parents=True, exist_ok=True) before the touch",
             "an output is touched without creating its parent directory first: `gwf touch` fails half-way with FileNotFoundError for results/x.txt in a fresh checkout",
             visit.where, fmt_trace(nomk[0][1], visit.module) if nomk else None)


def run(ctx):
    """Structural rules first; the command evaluated on the witness project decides where they do not recognise the shape."""
    from ..loader import AnalysisError
    from .evalhelpers import cached_witness, touch_command_witness
    w = cached_witness(ctx, "touch_command_witness", touch_command_witness)
    n0 = len(ctx.rules)
    try:
        _run_structural(ctx)
    except (AnalysisError, Exception) as exc:
        if isinstance(exc, (NameError, ImportError, UnboundLocalError)):
            raise       # a defect of the checker itself, never a reason to fall back
        if w[2] is not None and not w[1]:
            raise
        r0 = ctx.rule("R0", "the structural rules cannot follow this shape of the command; decided by its evaluation on the witness project")
        r0.info("src/gwf/plugins/touch.py::touch", f"structural analysis stopped: {type(exc).__name__}: {str(exc)[:120]}")
        for d in w[1][:3]:
            r0.violation(r0.id + "::witness", d, "")
        for r in ctx.rules[n0:]:
            r.min_instances = 0
    if not w[1]:
        ctx.reconcile(ctx.rules[n0:], lambda c: "plugins/touch.py" in c and "memo" not in c and "cache" not in c, w, "src/gwf/plugins/touch.py::touch", "src/gwf/plugins/touch.py:1")
    # "so `gwf status` reports it completed": status must read the time stamps where touch writes them.  Path.touch() / os.utime follow symbolic links
    # (they stamp the file a path denotes), so the reader has to stat through links as well - and see one snapshot per command
    r6 = ctx.rule("R6", "the status that follows reads the modification times touch wrote: the file a path denotes (symlinks followed), existence and time from one stat")
    from .shared import import_rules
    import_rules(ctx, r6, "C01", only={"R6", "R2"})   # R2: equal time stamps (what touch produces on coarse clocks) count as up to date

"""C19 - workflow definition: paths and names mean the same wherever gwf is run."""
import ast
import re

try:
    import re._parser as sre_parse
    import re._constants as sre_c
except ImportError:  # pragma: no cover (python < 3.11)
    import sre_parse
    import sre_constants as sre_c

from ..consteval import CantEval
from ..index import ancestors, dotted, walk_no_nested, loc
from ..symeval import Obj, PureInterp, Raised, Unsupported, tok
from .c03 import rule_norm_path
from .persist import _calls

CORE = "gwf.core"
IDENT_FIRST = set("abcdefghijklmnopqrstuvwxyzABCDEFGHIJKLMNOPQRSTUVWXYZ_")
IDENT_REST = IDENT_FIRST | set("0123456789.")


def rule_fallback(ctx, r):
    idx = ctx.index
    wf = idx.cls("gwf.workflow:Workflow")
    tft = idx.method(wf, "target_from_template")
    con = f"{tft.module.relpath}::{tft.qual}"
    expr = None
    for c in _calls(tft.node):
        if isinstance(c.func, ast.Name) and c.func.id == "Target":
            for k in c.keywords:
                if k.arg == "working_dir":
                    expr = k.value
    if expr is None:
        r.violation(con, "target_from_template does not pass a working_dir to the new Target", tft.where)
        return
    at = idx.cls(f"{CORE}:AnonymousTarget")
    fld = at.field("working_dir")
    default = "<no default>"
    if fld is not None and isinstance(fld[2], ast.Call):
        for k in fld[2].keywords:
            if k.arg == "default":
                try:
                    default = ctx.ev.eval(k.value, at.module)
                except CantEval:
                    default = "<unevaluable>"
    interp = PureInterp(ctx)
    WFD = tok("WORKFLOW_DIR")
    res = {}
    for label, tv in (("default", default), ("explicit", "/explicit")):
        try:
            res[label] = interp.eval(expr, {"template": Obj("template", working_dir=tv), "self": Obj("wf", working_dir=WFD)}, tft.module)
        except (Raised, Unsupported) as exc:
            res[label] = f"<{exc}>"
    r.check(res["default"] == WFD, con + "::fallback", f"a template without working_dir (default {default!r}) gets the workflow's directory",
            f"for a template created without working_dir (field default {default!r}) the expression `{ast.unparse(expr)}` yields {res['default']!r}, not the workflow's "
            "working directory: relative paths of template/map targets are resolved against the directory gwf is started from", loc(expr, tft.module))
    r.check(res["explicit"] == "/explicit", con + "::explicit", "an explicit template working_dir is respected",
            f"an explicit template working_dir is replaced by {res['explicit']!r}", loc(expr, tft.module))
    tm = idx.method(wf, "target")
    wd = None
    for c in _calls(tm.node):
        if isinstance(c.func, ast.Name) and c.func.id == "Target":
            for k in c.keywords:
                if k.arg == "working_dir":
                    wd = ast.unparse(k.value)
    r.check(wd == "self.working_dir", f"{tm.module.relpath}::{tm.qual}", "Workflow.target passes working_dir=self.working_dir",
            f"Workflow.target creates the Target with working_dir={wd}", tm.where)
    mp = idx.method(wf, "map")
    via = any(isinstance(c.func, ast.Attribute) and c.func.attr == "target_from_template" and dotted(c.func.value) == "self" for c in _calls(mp.node))
    r.check(via, f"{mp.module.relpath}::{mp.qual}", "map creates its targets through target_from_template", "map does not create its targets through target_from_template", mp.where)
    # default working dir of the workflow: directory of the real path of the defining file
    # (a `@working_dir.default` method - under whatever name -, or a module-level function given as the field's factory)
    gwd = next((m for m in wf.methods.values() if "working_dir.default" in [d or "" for d in m.decorator_names()]), None) or idx.method(wf, "_get_working_dir")
    if gwd is None:
        fld = next((f_ for f_ in wf.fields if f_[0] == "working_dir"), None)
        if fld is not None and isinstance(fld[2], ast.Call):
            for kw_ in fld[2].keywords:
                cand = kw_.value
                if kw_.arg == "default" and isinstance(cand, ast.Call) and (dotted(cand.func) or "").endswith("Factory") and cand.args:
                    cand = cand.args[0]
                if kw_.arg in ("factory", "default") and isinstance(cand, (ast.Name, ast.Attribute)):
                    fobj = idx.lookup(idx.canon(cand, wf.module) or "")
                    if hasattr(fobj, "node") and hasattr(fobj, "key") and not hasattr(fobj, "methods"):
                        gwd = fobj
    got = None
    if gwd is not None:
        # evaluated: the defining file is reached as /link/proj/workflow.py, where /link is a symbolic link to /real; whatever way the directory is computed
        # (os.path, pathlib) the default must be the directory of the file's real path, as a string
        from ..symeval import SymPath
        real = lambda p_: str(p_).replace("/link/", "/real/", 1) if str(p_).startswith("/link/") else str(p_)
        # the call stack at that moment, innermost first: the functions of the package the evaluation is in (known to the interpreter), then - the default of an attrs
        # field being computed - the __init__ attrs generated for the class, then the user's workflow file that wrote `Workflow(...)`, then gwf's loader
        holder = {}

        def frame_list():
            it_ = holder["interp"]
            inner = [Obj("frame", _file="/site-packages/" + fi.module.relpath.replace("src/", "", 1), _func=fi.name) for fi in reversed(it_.__dict__.get("frames", []))]
            outer = [Obj("frame", _file="<attrs generated init gwf.workflow.Workflow>", _func="__init__"), Obj("frame", _file="/link/proj/workflow.py", _func="<module>"),
                     Obj("frame", _file="/site-packages/gwf/workflow.py", _func="load_workflow"), Obj("frame", _file="/site-packages/gwf/cli.py", _func="main")]
            fl = inner + outer
            for i_, fr in enumerate(fl):
                setattr(fr, "f_back", fl[i_ + 1] if i_ + 1 < len(fl) else None)
                setattr(fr, "f_code", Obj("code", co_filename=fr._file, co_name=fr._func))
                setattr(fr, "f_globals", {"__file__": fr._file, "__name__": fr._func})
                setattr(fr, "filename", fr._file)
                setattr(fr, "function", fr._func)
                setattr(fr, "frame", fr)
            return fl

        def h_getframe(depth=0):
            fl = frame_list()
            if depth >= len(fl):
                raise Raised("ValueError", "call stack is not deep enough")
            return fl[depth]

        def h_getfile(obj):
            return obj._file if isinstance(obj, Obj) and "_file" in obj.__dict__["_attrs"] else "/link/proj/workflow.py"
        hooks = {"inspect.getfile": h_getfile, "inspect.getsourcefile": h_getfile, "inspect.getabsfile": h_getfile, "sys._getframe": h_getframe,
                 "inspect.stack": lambda *a, **k: frame_list(), "inspect.currentframe": lambda *a, **k: frame_list()[0],
                 "inspect.getframeinfo": lambda fr, *a, **k: fr, "inspect.getouterframes": lambda fr, *a, **k: [fr] + [x for x in _chain(fr)],
                 "os.path.realpath": lambda p_, *a, **k: real(p_), "attr:resolve": lambda recv, *a, **k: SymPath(real(recv)), "os.path.abspath": lambda p_: str(p_)}
        def _chain(fr):
            while getattr(fr, "f_back", None) is not None:
                fr = fr.f_back
                yield fr
        try:
            holder["interp"] = PureInterp(ctx, hooks=hooks)
            got = holder["interp"].call(gwd, (), {}, self_obj=Obj("workflow", **{"__class__": wf}) if gwd.cls is not None else None)
        except (Raised, Unsupported) as exc:
            got = f"<{exc}>"
    r.check(got == "/real/proj", f"{wf.module.relpath}::Workflow._get_working_dir", "default working_dir = directory of the real path of the file that created the workflow (a str)",
            f"for a workflow file reached as /link/proj/workflow.py (with /link a symbolic link to /real) the default working directory is {got!r}, expected '/real/proj': a project "
            "reached through a symlink (or `-f` from elsewhere) gets other path strings than when gwf is run inside the project, so graphs differ", gwd.where if gwd else wf.where)


CWD_SOURCES = {"os.getcwd", "os.getcwdb", "pathlib.Path.cwd", "os.curdir", "os.path.curdir"}


def rule_cwd_taint(ctx, r):
    idx = ctx.index
    allowed = {"gwf.utils:find_workflow": "search for the workflow file starts at the invoking directory",
               "gwf.cli:main": "`init` fallback when no workflow file exists"}
    n = 0
    for f in idx.functions.values():
        for node in walk_no_nested(f.node):
            canon = None
            if isinstance(node, ast.Call) and isinstance(node.func, (ast.Name, ast.Attribute)):
                canon = idx.canon(node.func, f.module)
            elif isinstance(node, ast.Attribute) and isinstance(node.ctx, ast.Load):
                c = idx.canon(node, f.module)
                canon = c if c in ("os.curdir", "os.path.curdir") else None
            if canon in CWD_SOURCES:
                n += 1
                in_default = any(isinstance(a, ast.arguments) for a in ancestors(node) if a is not f.node) and any(
                    node is d or node in list(ast.walk(d)) for d in list(f.node.args.defaults) + [d for d in f.node.args.kw_defaults if d is not None])
                if in_default:
                    r.violation(f"{f.module.relpath}::{f.qual}::{canon}@default", f"{f.qual} reads the invoking directory ({canon}) in a parameter default, which is evaluated once when "
                                "the module is imported: the directory in effect at import time, not the one gwf is invoked from, decides which workflow is found",
                                loc(node, f.module))
                    continue
                r.check(f.key in allowed or ctx.resolver.owned_by(f, list(allowed)), f"{f.module.relpath}::{f.qual}::{canon}", allowed.get(f.key, "helper called only by the workflow search / init fallback"),
                        f"{f.qual} reads the invoking directory ({canon}): paths, graph or state location would depend on where gwf is started", loc(node, f.module))
            if canon in ("os.path.abspath", "os.path.relpath") and isinstance(node, ast.Call) and node.args:
                from ..astutil import single_assignments
                a = node.args[0]
                if isinstance(a, ast.Name):
                    a = single_assignments(f.node).get(a.id, a)
                jc = idx.canon(a.func, f.module) if isinstance(a, ast.Call) and isinstance(a.func, (ast.Name, ast.Attribute)) else None
                # os.path.join(wd, p), Path(wd, p) / PurePath(wd, p), Path(wd).joinpath(p), Path(wd) / p : joined to a working directory first
                joined = (jc in ("os.path.join", "pathlib.Path", "pathlib.PurePath", "pathlib.PurePosixPath", "pathlib.PosixPath") and bool(a.args) and "working_dir" in ast.unparse(a.args[0])) \
                    or (isinstance(a, ast.Call) and isinstance(a.func, ast.Attribute) and a.func.attr == "joinpath" and "working_dir" in ast.unparse(a.func.value)) \
                    or (isinstance(a, ast.BinOp) and isinstance(a.op, ast.Div) and "working_dir" in ast.unparse(a.left))
                n += 1
                if not (joined or f.key in allowed):
                    # a spelling that is only ever shown to the user (log lines, terminal output) decides nothing
                    from .shared import flows_only_to_messages
                    if flows_only_to_messages(ctx, f, node):
                        r.ok(f"{f.module.relpath}::{f.qual}::{canon}@display", "the result only reaches log/terminal messages and comparisons", loc(node, f.module))
                        continue
                r.check(joined or f.key in allowed, f"{f.module.relpath}::{f.qual}::{canon}", "abspath of a path joined to a working directory",
                        f"`{ast.unparse(node)[:70]}` resolves a path against the invoking directory (it is not joined to a project/target working directory first)",
                        loc(node, f.module))
    # import-time reads (module level, class bodies): the directory at import is not the invoking directory of a later call
    for mod in idx.repo.modules.values():
        fn_nodes = set()
        for fdef in ast.walk(mod.tree):
            if isinstance(fdef, (ast.FunctionDef, ast.AsyncFunctionDef, ast.Lambda)):
                for st in (fdef.body if isinstance(fdef.body, list) else [fdef.body]):
                    fn_nodes.update(id(x) for x in ast.walk(st))
        for node in ast.walk(mod.tree):
            if id(node) in fn_nodes or not isinstance(node, (ast.Call, ast.Attribute)):
                continue
            tgt = node.func if isinstance(node, ast.Call) else node
            if isinstance(tgt, (ast.Name, ast.Attribute)) and idx.canon(tgt, mod) in CWD_SOURCES and not any(
                    isinstance(a, ast.arguments) for a in ancestors(node)):
                if isinstance(node, ast.Attribute) and isinstance(getattr(node, "_parent", None), ast.Call) and node._parent.func is node:
                    continue
                r.violation(f"{mod.relpath}::<module>::{idx.canon(tgt, mod)}", "the invoking directory is read at import time (module level): later calls from another directory use a stale value",
                            f"{mod.relpath}:{node.lineno}")
    # cli.main: everything derives from the found workflow file
    main = idx.func("gwf.cli:main")
    txt = ast.unparse(main.node)
    checks = [
        ("working_dir = path.parent" in txt, "working_dir", "working_dir = <workflow file>.parent"),
        ("working_dir.joinpath('.gwf').mkdir" in txt and "working_dir.joinpath('.gwf', 'logs').mkdir" in txt, "state-dir", ".gwf and .gwf/logs next to the workflow file"),
        ("FileConfig.load(working_dir.joinpath('.gwfconf.json'))" in txt, "config-file", ".gwfconf.json next to the workflow file"),
        ("working_dir=str(working_dir)" in txt and "workflow_file=path" in txt, "context", "Context(working_dir=<workflow file dir>, workflow_file=<found path>)"),
    ]
    def structural(_ctx, rr):
        for ok, key, desc in checks:
            rr.check(ok, f"{main.module.relpath}::main::{key}", desc, f"cli.main no longer derives this from the found workflow file: {desc}", main.where)
    from .evalhelpers import cli_main_location_witness
    ctx.structural_or_witness(r, structural, lambda: cli_main_location_witness(ctx), f"{main.module.relpath}::main", both=True)
    n += len(checks)
    fw = idx.func("gwf.utils:find_workflow")
    loops = [n for n in walk_no_nested(fw.node) if isinstance(n, ast.While)]
    feat = False
    for lp in loops:
        ascends = any(isinstance(n, ast.Assign) and isinstance(n.value, ast.Attribute) and n.value.attr == "parent" and dotted(n.value.value) == dotted(n.targets[0]) for n in ast.walk(lp))
        exists = any(isinstance(c.func, ast.Attribute) and c.func.attr == "exists" for c in _calls(lp))
        root = any(isinstance(n, ast.Attribute) and n.attr == "anchor" for n in ast.walk(lp))
        nf = any(isinstance(n, ast.Raise) and "FileNotFoundError" in ast.unparse(n) for n in ast.walk(lp))
        feat = feat or (ascends and exists and root and nf)
    def structural_fw(_ctx, rr):
        rr.check(feat, f"{fw.module.relpath}::{fw.qual}",
                 "the workflow file is searched upwards from the invoking directory to the root", "find_workflow no longer searches the parent directories up to the root", fw.where)
    from .evalhelpers import find_workflow_witness
    ctx.structural_or_witness(r, structural_fw, lambda: find_workflow_witness(ctx), f"{fw.module.relpath}::{fw.qual}", both=True)
    ctxc = idx.cls(f"{CORE}:Context")
    cobj = Obj("ctx", working_dir=tok("PROJ"), **{"__class__": ctxc})
    for prop, want in (("config_dir", tok("PROJ") + "/.gwf"), ("logs_dir", tok("PROJ") + "/.gwf/logs")):
        try:
            got = PureInterp(ctx).eval(ast.parse(f"ctx.{prop}", mode="eval").body, {"ctx": cobj}, idx.repo.module(CORE))
        except (Raised, Unsupported) as exc:
            got = f"<{exc}>"
        r.check(got == want, f"{ctxc.module.relpath}::Context.{prop}", f"Context.{prop} = {want.replace(tok('PROJ'), '<project>')}",
                f"Context.{prop} evaluates to {got} for a project at <project>; expected {want}", ctxc.where)
    from .evalhelpers import eval_get_spec_hashes, load_path
    sel, gsh = eval_get_spec_hashes(ctx)
    r.check(isinstance(sel.get(True), tuple) and sel[True][1] and str(sel[True][1][0]).startswith(tok("WD") + "/.gwf/"), f"{gsh.module.relpath}::{gsh.qual}",
            "spec-hash file under <project>/.gwf", f"get_spec_hashes places its file at {sel.get(True)}", gsh.where)
    lp = load_path(ctx, "gwf.backends.base:TrackingBackend", "_tracked_jobs")
    tb = idx.cls("gwf.backends.base:TrackingBackend")
    r.check(lp is not None and lp.startswith("⟦PROJ⟧/.gwf/"), f"{tb.module.relpath}::TrackingBackend.state-path", "tracked-jobs file under <project>/.gwf",
            f"the tracked-jobs file is {lp}", tb.where)


def _regex_facts(pattern):
    """(first position chars, other chars, anchors, problems) of a simple anchored identifier regex."""
    tree = sre_parse.parse(pattern)
    problems = []
    first, rest = set(), set()
    starts = ends = None
    consumed = [False]

    def chars_of(item):
        op, av = item
        out = set()
        if op is sre_c.LITERAL:
            out.add(chr(av))
        elif op is sre_c.IN:
            for o2, a2 in av:
                if o2 is sre_c.NEGATE:
                    problems.append("negated character class")
                elif o2 is sre_c.LITERAL:
                    out.add(chr(a2))
                elif o2 is sre_c.RANGE:
                    out.update(chr(c) for c in range(a2[0], a2[1] + 1))
                elif o2 is sre_c.CATEGORY:
                    problems.append(f"category {a2} in class")
        elif op is sre_c.ANY:
            problems.append("'.' matches any character")
        elif op is sre_c.NOT_LITERAL:
            problems.append("negated literal")
        elif op is sre_c.CATEGORY:
            problems.append(f"category {av}")
        return out

    def walk(items, at_start):
        nonlocal starts, ends
        for item in items:
            op, av = item
            if op is sre_c.AT:
                if av is sre_c.AT_BEGINNING or av is sre_c.AT_BEGINNING_STRING:
                    starts = "start"
                elif av is sre_c.AT_END:
                    ends = "$"
                elif av is sre_c.AT_END_STRING:
                    ends = "\\Z"
                continue
            if op in (sre_c.MAX_REPEAT, sre_c.MIN_REPEAT):
                lo, hi, sub = av
                walk(sub, at_start and not consumed[0])
                continue
            if op is sre_c.SUBPATTERN:
                walk(av[3], at_start)
                continue
            if op is sre_c.BRANCH:
                for alt in av[1]:
                    walk(alt, at_start)
                continue
            cs = chars_of(item)
            if not consumed[0]:
                first.update(cs)
                consumed[0] = True
            else:
                rest.update(cs)

    walk(list(tree), True)
    return first, rest, starts, ends, problems


def rule_name_validator(ctx, r):
    idx = ctx.index
    ivn = idx.func("gwf.utils:is_valid_name")
    con = f"{ivn.module.relpath}::{ivn.qual}"
    call = None
    for c in _calls(ivn.node):
        cn = idx.canon(c.func, ivn.module) if isinstance(c.func, (ast.Name, ast.Attribute)) else None
        if cn in ("re.match", "re.fullmatch", "re.search") and c.args and isinstance(c.args[0], ast.Constant):
            call = (c, cn, c.args[0].value)
        elif isinstance(c.func, ast.Attribute) and c.func.attr in ("match", "fullmatch", "search") and isinstance(c.func.value, ast.Name):
            # precompiled module-level pattern
            cv = idx.globals.get(ivn.module.name, {}).get(c.func.value.id)
            if isinstance(cv, ast.Call) and idx.canon(cv.func, ivn.module) == "re.compile" and cv.args and isinstance(cv.args[0], ast.Constant):
                call = (c, "re." + c.func.attr, cv.args[0].value)
    if call is None:
        r.violation(con, "is_valid_name does not validate with a constant regular expression", ivn.where)
        return
    c, fn, pat = call
    first, rest, starts, ends, problems = _regex_facts(pat)
    anchored_start = fn in ("re.match", "re.fullmatch") or starts == "start"
    anchored_end = fn == "re.fullmatch" or ends == "\\Z"
    if not anchored_end and ends == "$":
        r.violation(con + "::end-anchor", f"{fn.split('.')[1]}({pat!r}) ends with '$', which also matches just before a trailing newline: the name 'foo\\n' is accepted "
                    "(and then used as a file name, a job name and inside a quoted export)", loc(c, ivn.module))
    elif not anchored_end:
        r.violation(con + "::end-anchor", f"{fn.split('.')[1]}({pat!r}) is not anchored at the end: any suffix is accepted", loc(c, ivn.module))
    else:
        r.ok(con + "::end-anchor", f"{fn.split('.')[1]}({pat!r}) must consume the whole name", loc(c, ivn.module))
    r.check(anchored_start, con + "::start-anchor", "anchored at the start", f"{fn}({pat!r}) is not anchored at the start", loc(c, ivn.module))
    bad_first = sorted(first - IDENT_FIRST)
    bad_rest = sorted(rest - IDENT_REST)
    r.check(not problems and not bad_first and not bad_rest and first, con + "::alphabet", "first char [A-Za-z_], others [A-Za-z0-9._]",
            f"the name pattern {pat!r} admits characters outside the identifier-like alphabet (first: {bad_first}, other: {bad_rest}, {problems}): "
            "names become file names and shell/scheduler tokens", loc(c, ivn.module))
    # the function returns whether the pattern matched (folded on a finite witness set)
    interp = PureInterp(ctx)
    want = {"foo": True, "a.b_1": True, "_x": True, "foo\n": False, "1a": False, "a b": False, "a/b": False, "": False, "a-b": False}
    got = {}
    for s_ in want:
        try:
            got[s_] = interp.call(ivn, (s_,))
        except (Raised, Unsupported) as exc:
            got[s_] = f"<{exc}>"
    diff = {k: got[k] for k in want if got[k] is not want[k]}
    r.check(not diff, con + "::result", "valid iff the pattern matched the whole candidate", f"is_valid_name decides {diff} (expected {{k: want[k] for k in diff}})".replace("{k: want[k] for k in diff}", str({k: want[k] for k in diff})), ivn.where)
    # attached to Target.name
    tgt = idx.cls(f"{CORE}:Target")
    vm = None
    for m in tgt.methods.values():
        if "name.validator" in m.decorator_names():
            vm = m
    ok = vm is not None and any(isinstance(n, ast.If) and "is_valid_name(" in ast.unparse(n.test) and any(
        isinstance(s, ast.Raise) for s in n.body) for n in walk_no_nested(vm.node))
    r.check(ok, f"{tgt.module.relpath}::Target.name.validator", "Target rejects names is_valid_name refuses (GWFError at definition time)",
            "Target.name is not validated with is_valid_name when the target is defined", tgt.where)


def rule_path_domain(ctx, r):
    idx = ctx.index
    cp = idx.func(f"{CORE}:_check_path")
    con = f"{cp.module.relpath}::{cp.qual}"
    p = cp.positional_params()[0]
    # structural: the checked string is the parameter converted by fspath only (no strip/slice/replace)
    lossy = []
    for n in walk_no_nested(cp.node):
        if isinstance(n, ast.Call) and isinstance(n.func, ast.Attribute) and n.func.attr in ("strip", "lstrip", "rstrip", "replace", "splitlines", "split", "lower", "translate"):
            lossy.append(n)
        if isinstance(n, ast.Subscript) and isinstance(n.slice, ast.Slice):
            lossy.append(n)
    r.check(not lossy, con + "::whole-string", "the control-character check sees the whole path as it will be stored",
            f"the path is transformed (`{ast.unparse(lossy[0])[:50] if lossy else ''}`) before it is checked, but the target keeps the original: control characters removed by the "
            "transformation (a trailing newline, a leading tab) are accepted", loc(lossy[0], cp.module) if lossy else cp.where)
    conv = any(isinstance(n, ast.Call) and isinstance(n.func, (ast.Name, ast.Attribute)) and idx.canon(n.func, cp.module) in ("os.fspath", "builtins.str")
               and n.args and dotted(n.args[0]) == p for n in walk_no_nested(cp.node))
    r.check(conv, con + "::fspath", "path objects are converted with fspath() before the character check",
            "path objects (os.PathLike) are not converted before their characters are inspected: a pathlib.Path raises TypeError instead of being accepted", cp.where)
    # folding the pure validator over a finite witness set
    interp = PureInterp(ctx)
    want = {"a.txt": None, "dir/a b.txt": None, "": "InvalidPathError", "a\nb": "InvalidPathError", "x\n": "InvalidPathError", "\tx": "InvalidPathError",
            "x\r\n": "InvalidPathError", "\x07": "InvalidPathError", "ü.txt": None,
            # characters that are NOT control characters (category Cc) although str.isprintable() is false for them or they look odd: legal in file names
            "Screen Shot 2024-01-01 at 10.00.00\u202fAM.png": None, "a\u00a0b.txt": None, "\u3000x": None, "x\u200d.txt": None, "caf\u0065\u0301.txt": None,
            "x\x7f": "InvalidPathError", "x\x85y": "InvalidPathError"}
    got = {}
    for s_, w in want.items():
        try:
            interp.call(cp, (s_,))
            got[s_] = None
        except Raised as exc:
            got[s_] = exc.kind
        except Unsupported as exc:
            got[s_] = f"<{exc}>"
    diff = {k: (got[k], want[k]) for k in want if got[k] != want[k]}
    r.check(not diff, con + "::witnesses", f"{len(want)} witness paths (empty, control characters at start/middle/end, ordinary) decided as the property says",
            f"path validation decides {diff} (got, expected)", cp.where)
    tgt = idx.cls(f"{CORE}:Target")
    for fld in ("inputs", "outputs"):
        f = tgt.field(fld)
        ok = f is not None and isinstance(f[2], ast.Call) and any(k.arg == "validator" and dotted(k.value) == "_validate_path" for k in f[2].keywords)
        r.check(ok, f"{tgt.module.relpath}::Target.{fld}", "validated by _validate_path", f"Target.{fld} is not validated when the target is defined", tgt.where)
    vp = idx.func(f"{CORE}:_validate_path")
    t = ast.unparse(vp.node)
    interp_v = PureInterp(ctx)
    verdicts = {}
    for label, value, want_ok in (("flat, fine", ["a", "b/c"], True), ("nested, fine", {"k": ["a", ["b"]]}, True), ("empty string in a list", ["a", ""], False),
                                  ("control character deep in a named group", {"k": ["ok", ["x\ny"]]}, False), ("control character in the last element", ["a", "b", "c\x00"], False),
                                  ("single string", "fine.txt", True)):
        try:
            interp_v.call(vp, (Obj("instance"), Obj("attribute", name="inputs"), value))
            verdicts[label] = True
        except Raised as exc:
            verdicts[label] = False if exc.kind in ("InvalidPathError", "GWFError") else f"raises {exc.kind}"
        except Unsupported as exc:
            verdicts[label] = f"<{exc}>"
    wantv = {"flat, fine": True, "nested, fine": True, "empty string in a list": False, "control character deep in a named group": False,
             "control character in the last element": False, "single string": True}
    structural = "for path in _flatten(value)" in t and "_check_path(path)" in t
    evaluated = verdicts == wantv
    r.check(evaluated if not any(isinstance(v, str) and v.startswith("<") for v in verdicts.values()) else structural, f"{vp.module.relpath}::{vp.qual}",
            "every flattened element is checked (6 nested witness values decided as the property says)",
            f"_validate_path accepts/rejects {{k: v for k, v in verdicts.items() if v != wantv[k]}}: every path of a nested declaration must be checked".replace(
                "{k: v for k, v in verdicts.items() if v != wantv[k]}", str({k: v for k, v in verdicts.items() if v != wantv[k]})), vp.where)
    wdv = None
    for m in tgt.methods.values():
        if "working_dir.validator" in m.decorator_names():
            wdv = m
    r.check(wdv is not None and "_check_path(value)" in ast.unparse(wdv.node), f"{tgt.module.relpath}::Target.working_dir.validator", "working_dir is checked too",
            "Target.working_dir is not validated", tgt.where)


def rule_unique_and_map(ctx, r):
    idx = ctx.index
    wf = idx.cls("gwf.workflow:Workflow")
    add = idx.method(wf, "_add_target")
    t = ast.unparse(add.node)
    guard = any(isinstance(n, ast.If) and ast.unparse(n.test) == "target.name in self.targets" and any(isinstance(s_, ast.Raise) and "WorkflowError" in ast.unparse(s_) for s_ in n.body)
                for n in walk_no_nested(add.node))
    r.check(guard and "self.targets[target.name] = target" in t, f"{add.module.relpath}::{add.qual}", "duplicate names raise WorkflowError before the store",
            "adding a target does not reject a name that already exists in the workflow", add.where)
    writers = []
    for f in idx.functions.values():
        for n in walk_no_nested(f.node):
            if isinstance(n, ast.Assign) and isinstance(n.targets[0], ast.Subscript) and ast.unparse(n.targets[0].value) == "self.targets" and f.cls is wf:
                writers.append(f)
    r.check(writers and all(w.key == add.key for w in writers), f"{wf.module.relpath}::Workflow.targets", "the target table is written only by _add_target",
            f"the target table is also written by {[w.qual for w in writers if w.key != add.key]}, bypassing the uniqueness check", wf.where)
    for meth in ("target", "target_from_template"):
        m = idx.method(wf, meth)
        r.check(any(isinstance(c.func, ast.Attribute) and c.func.attr == "_add_target" for c in _calls(m.node)), f"{m.module.relpath}::{m.qual}::add",
                "new targets are registered through _add_target", f"Workflow.{meth} does not register the target through _add_target", m.where)
    mp = idx.method(wf, "map")
    interp = PureInterp(ctx)
    for namer in ("template_namer", "string_namer"):
        f = mp.nested.get(namer)
        if f is None:
            r.violation(f"{mp.module.relpath}::{mp.qual}::{namer}", f"built-in namer {namer} not found", mp.where)
            continue
        rets = [n for n in walk_no_nested(f.node) if isinstance(n, ast.Return)]
        uses_idx = all("idx" in {x.id for x in ast.walk(rt.value) if isinstance(x, ast.Name)} or any(k.arg == "idx" for c in _calls(rt.value) for k in c.keywords) for rt in rets)
        r.check(rets and uses_idx, f"{f.module.relpath}::{f.qual}", "the generated name embeds the item index (distinct, deterministic names)",
                f"{namer} does not embed the item index: map would generate colliding names", f.where)
    enum = any(isinstance(n, ast.For) and isinstance(n.iter, ast.Call) and dotted(n.iter.func) == "enumerate" and dotted(n.iter.args[0]) == "inputs" for n in walk_no_nested(mp.node))
    r.check(enum, f"{mp.module.relpath}::{mp.qual}::enumerate", "one target per item, index from enumerate(inputs)", "map does not enumerate its inputs", mp.where)


def run(ctx):
    r1 = ctx.rule("R1", "targets inherit the workflow's working directory (direct, template, map); default = directory of the defining file's real path", min_instances=5)
    rule_fallback(ctx, r1)
    # ... and the job runs there: every cluster script changes into the target's own working directory before the spec (the schedulers start jobs elsewhere)
    from .shared import import_rules
    import_rules(ctx, r1, "C10", only={"R1"}, select=lambda c: "::cd" in c)
    # ... the local pool starts the task's process in the working directory it was sent (whether or not that lies inside the project the pool serves)
    from .evalhelpers import cached_witness, report_witness, task_coroutine_witness
    report_witness(r1, "src/gwf/backends/local.py::Scheduler.try_handle_task::cwd", "src/gwf/backends/local.py:1", cached_witness(ctx, "task", task_coroutine_witness),
                   "the task's process is started with cwd = the target's working directory", select=lambda d: "working directory" in d)
    r2 = ctx.rule("R2", "nothing but the workflow-file search (and init) reads the invoking directory; state paths derive from the workflow file's directory", min_instances=10)
    rule_cwd_taint(ctx, r2)
    rule_norm_path(ctx, r2)
    from .shared import rule_option_declaration
    rule_option_declaration(ctx, r2, "gwf.cli:main", "--file", {"default": ("workflow.py:gwf", None)},
                            "without -f the workflow is `workflow.py:gwf`, searched upwards from the invoking directory; another default changes which project every command works on")
    r3 = ctx.rule("R3", "target names: the validator's regular language is identifier-like and excludes a trailing newline", min_instances=5)
    rule_name_validator(ctx, r3)
    r4 = ctx.rule("R4", "paths: non-empty str/PathLike without control characters anywhere; validators attached to inputs, outputs, working_dir", min_instances=6)
    rule_path_domain(ctx, r4)
    r5 = ctx.rule("R5", "unique names; map creates one target per item with index-bearing names", min_instances=6)
    rule_unique_and_map(ctx, r5)
    # the workflow API evaluated on a symbolic workflow: overrides shape complaints about Workflow.target / target_from_template / _add_target
    from .evalhelpers import cached_witness, report_witness, workflow_api_witness, workflow_map_witness
    ww = cached_witness(ctx, "workflow-api", workflow_api_witness)
    report_witness(r1, "src/gwf/workflow.py::Workflow::witnesses", "src/gwf/workflow.py:1", ww,
                   "direct and template targets get the workflow's directory (or the template's own), are registered under their name, duplicates are rejected",
                   select=lambda d: "protect" not in d and "dictionary object" not in d)
    wm = cached_witness(ctx, "workflow-map", workflow_map_witness)
    report_witness(r5, "src/gwf/workflow.py::Workflow.map::witnesses", "src/gwf/workflow.py:1", wm,
                   "one target per item (scalar / sequence / mapping items), names <template or given name>_<index> or from the naming function")
    from .evalhelpers import one_shot_witness
    report_witness(r5, "src/gwf/workflow.py::one-shot-iterable::map", "src/gwf/workflow.py:1", cached_witness(ctx, "one-shot", one_shot_witness),
                   "map() over a generator of items creates one target per item, like over a list", select=lambda d: "Workflow.map" in d)
    if not wm[1]:
        ctx.reconcile([r5], lambda c: "workflow.py::Workflow.map" in c, (wm[0], [], wm[2]), "src/gwf/workflow.py::Workflow.map", "src/gwf/workflow.py:1")
    if not ww[1]:
        ctx.reconcile([r1, r5], lambda c: ("workflow.py::Workflow.target" in c or "workflow.py::Workflow._add_target" in c or "workflow.py::Workflow.targets" in c) and "fallback" not in c,
                      (ww[0], [], ww[2]), "src/gwf/workflow.py::Workflow", "src/gwf/workflow.py:1")

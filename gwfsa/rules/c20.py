"""C20 - configuration round-trips, is project-local, and reaches the selected backend."""
import ast
from collections import ChainMap

from ..consteval import CantEval, FuncRef
from ..index import FuncInfo, dotted, walk_no_nested, loc
from ..symeval import Obj, PureInterp, Raised, Unsupported, tok


def _mk_instance(*a, **k):
    from .evalhelpers import make_instance
    return make_instance(*a, **k)

from .persist import _calls

CONF = "gwf.conf"


def _config(ctx, file_data):
    defaults = ctx.ev.eval_global(CONF, "CONFIG_DEFAULTS")
    ci = ctx.index.cls(f"{CONF}:FileConfig")
    return Obj("config", path=tok("CFG"), data=ChainMap(dict(file_data), dict(defaults)), **{"__class__": ci}), defaults


def rule_accessors(ctx, r):
    idx = ctx.index
    ci = idx.cls(f"{CONF}:FileConfig")
    interp = PureInterp(ctx)
    # get: stored values (also falsy ones) come back; default only when absent
    cfg, defaults = _config(ctx, {"zero": 0, "off": False, "empty": "", "txt": "abc"})
    get = idx.method(ci, "get")
    res = {}
    for k in ("zero", "off", "empty", "txt", "missing"):
        try:
            res[k] = interp.call(get, (k, "<not set>"), {}, self_obj=cfg)
        except (Raised, Unsupported) as exc:
            res[k] = f"<{exc}>"
    want = {"zero": 0, "off": False, "empty": "", "txt": "abc", "missing": "<not set>"}
    bad = {k: res[k] for k in want if res[k] != want[k] or type(res[k]) is not type(want[k])}
    r.check(not bad, f"{get.module.relpath}::{get.qual}", "get returns the stored value (0, False and '' included), the default only for absent keys",
            f"FileConfig.get returns {bad} for stored values {{'zero': 0, 'off': False, 'empty': ''}}: a stored falsy value is replaced by the default, so "
            "`gwf config set KEY 0|no|false` does not round-trip and e.g. `no_color = no` is treated as unset", get.where)
    # set: coercion chain and first map only
    seti = idx.method(ci, "__setitem__")
    coer = {"12": 12, "-5": -5, "0": 0, "yes": True, "true": True, "no": False, "false": False, "abc": "abc", "1.5": "1.5", "": "", "True": "True", "backend.x": "backend.x"}
    cfg, defaults = _config(ctx, {})
    got = {}
    for raw in coer:
        try:
            interp.call(seti, ("k", raw), {}, self_obj=cfg)
            got[raw] = cfg.data.maps[0].get("k", "<not stored in the file map>")
        except (Raised, Unsupported) as exc:
            got[raw] = f"<{exc}>"
    bad = {k: (got[k], coer[k]) for k in coer if got[k] != coer[k] or type(got[k]) is not type(coer[k])}
    r.check(not bad, f"{seti.module.relpath}::{seti.qual}", "integers and yes/no/true/false are coerced, everything else is kept as text, stored in the file map",
            f"`gwf config set` stores {bad} (stored, expected)", seti.where)
    r.check(dict(cfg.data.maps[1]) == dict(defaults), f"{seti.module.relpath}::{seti.qual}::defaults-untouched", "the defaults map is never written",
            "setting a key modifies the defaults map", seti.where)
    try:
        conv = ctx.ev.eval_global(CONF, "CONVERTERS")
        names = [c.name.rsplit(".", 1)[-1] if isinstance(c, FuncRef) else str(c) for c in conv]
        r.check(names == ["try_int", "try_true", "try_false", "str"], "src/gwf/conf.py::CONVERTERS", "int, true-words, false-words, str (total) in that order",
                f"the converter chain is {names}", "src/gwf/conf.py:1")
    except CantEval:
        r.info("src/gwf/conf.py::CONVERTERS", "not a plain tuple (the evaluated coercions above decide)")
    # unset: only that key, harmless for unset/default-only keys
    deli = idx.method(ci, "__delitem__")
    cfg, defaults = _config(ctx, {"a": 1, "b": 2})
    out = {}
    for k in ("a", "verbose", "nothere"):
        try:
            interp.call(deli, (k,), {}, self_obj=cfg)
            out[k] = "ok"
        except Raised as exc:
            out[k] = exc.kind
        except Unsupported as exc:
            out[k] = f"<{exc}>"
    state = dict(cfg.data.maps[0])
    r.check(out == {"a": "ok", "verbose": "ok", "nothere": "ok"} and state == {"b": 2} and dict(cfg.data.maps[1]) == dict(defaults),
            f"{deli.module.relpath}::{deli.qual}", "unset removes only that key from the file map; a no-op for unset keys and for keys that only have a default",
            f"`gwf config unset`: results {out}, file map afterwards {state} (expected {{'b': 2}}, all 'ok'): unsetting a key that is not set in the file "
            "(e.g. one that only has a default) must be harmless, and other keys must not be disturbed", deli.where)
    # namespace
    gn = idx.method(ci, "get_namespace")
    cfg, _d = _config(ctx, {"backend.slurm.log_mode": "merged", "backend.slurm.accounting_enabled": False, "backend.slurmx.y": 1, "backend.slurm": "zzz",
                            "backend.local.port": 99, "backendXslurmYz": 3})
    try:
        ns = interp.call(gn, ("backend.slurm",), {}, self_obj=cfg)
    except (Raised, Unsupported) as exc:
        ns = f"<{exc}>"
    r.check(ns == {"log_mode": "merged", "accounting_enabled": False}, f"{gn.module.relpath}::{gn.qual}", "exactly the keys below 'backend.slurm.' with the prefix stripped",
            f"get_namespace('backend.slurm') over keys backend.slurm.log_mode, backend.slurm.accounting_enabled, backend.slurmx.y, backend.slurm, backend.local.port "
            f"gives {ns}: settings of another backend / malformed keyword names reach the selected backend", gn.where)
    # dump / load: decided by the evaluated two-invocation session when possible, by the shape otherwise
    from .evalhelpers import eval_config_session
    steps = eval_config_session(ctx)
    session_ok = all(st[1] == st[2] for st in steps)
    dump = idx.method(ci, "dump")
    t = ast.unparse(dump.node)
    r.check(session_ok or ("self.data.maps[0]" in t and "json.dump(" in t and "str(self.path)" in t), f"{dump.module.relpath}::{dump.qual}", "dump writes the file map (not the defaults) to self.path",
            "dump does not write exactly the file-level settings to the configuration file", dump.where)
    load = idx.method(ci, "load")
    t = ast.unparse(load.node)
    r.check(session_ok or ("ChainMap(data, CONFIG_DEFAULTS)" in t.replace(" ", "").replace(",", ", ") and "FileNotFoundError" in t and "json.load(" in t), f"{load.module.relpath}::{load.qual}",
            "load layers the file's settings over CONFIG_DEFAULTS (missing file = no settings)", "load does not layer the file's settings over the defaults", load.where)


def rule_cli_commands(ctx, r):
    idx = ctx.index
    for name, want in (("get", "click.echo(ctx.config.get(key, '<not set>'))"), ("set", "ctx.config[key] = value"), ("unset", "del ctx.config[key]")):
        f = idx.func(f"gwf.plugins.config:{name}")
        t = ast.unparse(f.node)
        r.check(want in t and (name == "get" or "ctx.config.dump()" in t), f"{f.module.relpath}::{f.qual}", want + ("" if name == "get" else " ; dump()"),
                f"`gwf config {name}` does not {want}" + ("" if name == "get" else " and save"), f.where)


def _option(idx, fn, flag):
    for d in idx.expanded_decorators(fn):
        if isinstance(d, ast.Call) and idx.canon(d.func, fn.module) == "click.option":
            names = [a.value for a in d.args if isinstance(a, ast.Constant) and isinstance(a.value, str)]
            if any(flag in n for n in names):
                return d
    return None


def rule_precedence(ctx, r):
    idx = ctx.index
    main = idx.func("gwf.cli:main")
    con = f"{main.module.relpath}::main"
    # backend
    opt = _option(idx, main, "--backend")
    dflt = [k.value for k in opt.keywords if k.arg == "default"] if opt else ["?"]
    r.check(opt is not None and (not dflt or (isinstance(dflt[0], ast.Constant) and dflt[0].value is None)), con + "::--backend", "flag absent = None",
            "--backend has a default value: the project configuration can never take effect", main.where)
    # colour
    opt = _option(idx, main, "--no-color")
    dflt = [k.value for k in opt.keywords if k.arg == "default"] if opt else []
    r.check(opt is not None and dflt and isinstance(dflt[0], ast.Constant) and dflt[0].value is None, con + "::--no-color", "tri-state flag: absent = None",
            "--no-color/--use-color does not default to None: 'flag absent' cannot be told from an explicit --use-color", main.where)

    def structural(_ctx, rr):
        chain_ok = guess_ok = False
        for n in walk_no_nested(main.node):
            if isinstance(n, ast.Assign) and dotted(n.targets[0]) == "backend":
                t = ast.unparse(n.value).replace('"', "'")
                if t in ("backend or config.get('backend')", "backend if backend is not None else config.get('backend')"):
                    chain_ok = True
            if isinstance(n, ast.If) and ast.unparse(n.test) == "backend is None" and any("guess_backend()" in ast.unparse(s) for s in n.body):
                guess_ok = True
        rr.check(chain_ok and guess_ok, con + "::backend-precedence", "backend = flag, else config 'backend', else guessed",
                "the backend is not chosen as command-line flag, else project configuration, else guess", main.where)
        used = "backend=backend" in ast.unparse(main.node)
        rr.check(used, con + "::backend-used", "the chosen backend is what the commands get", "the Context does not carry the chosen backend", main.where)
        tri = None
        for n in walk_no_nested(main.node):
            if isinstance(n, ast.If) and "no_color" in ast.unparse(n.test) and any("config" in ast.unparse(s) for s in n.body):
                tri = n
                break
        if tri is None:
            rr.violation(con + "::no_color-precedence", "the colour setting never consults the project configuration", main.where)
        else:
            t = ast.unparse(tri.test)
            rr.check(t == "no_color is None", con + "::no_color-precedence", "config/env are consulted only when the flag is absent (is None)",
                    f"the colour flag is tested with `{t}`: an explicit --use-color (False) is treated like an absent flag, so configuration or NO_COLOR override the command line",
                    loc(tri, main.module))
            inner = ast.unparse(tri)
            rr.check("config.get('no_color') is None" in inner and "config['no_color']" in inner and "NO_COLOR" in inner, con + "::no_color-sources",
                    "flag > config no_color > NO_COLOR environment default", "the colour default chain is not `config no_color, else NO_COLOR`", loc(tri, main.module))

    from .evalhelpers import cli_main_precedence_witness
    ctx.structural_or_witness(r, structural, lambda: cli_main_precedence_witness(ctx), con, both=True)
    from .evalhelpers import cli_overrides_witness, cached_witness as _cw, report_witness as _rw
    _rw(r, "src/gwf/cli.py::main::text-options", "src/gwf/cli.py:1", _cw(ctx, "cli-overrides", cli_overrides_witness),
        "text given to the group's KEY=VALUE options (if any) is coerced as `gwf config set` coerces it")
    # verbosity (D12)
    opt = _option(idx, main, "--verbose")
    dflt = [k.value for k in opt.keywords if k.arg == "default"] if opt else []
    flag_none = opt is not None and (not dflt or (isinstance(dflt[0], ast.Constant) and dflt[0].value is None))
    reads = [n for f in idx.functions.values() if f.module.name != CONF for n in ast.walk(f.node)
             if isinstance(n, ast.Constant) and n.value == "verbose" and not isinstance(getattr(n, "_parent", None), ast.keyword)]
    reads = [n for n in reads if "config" in ast.unparse(getattr(n, "_parent", n))]
    if flag_none and reads:
        r.ok(con + "::verbose-precedence", "verbosity = flag, else config 'verbose', else default", main.where)
    else:
        r.violation(con + "::verbose-precedence", f"--verbose defaults to {ast.unparse(dflt[0]) if dflt else None} and the configuration key 'verbose' is read at "
                    f"{len(reads)} site(s): `gwf config set verbose debug` can never take effect (flag > config > default does not hold for verbosity)", main.where)
    # every default key has a reader
    defaults = ctx.ev.eval_global(CONF, "CONFIG_DEFAULTS")
    for key in defaults:
        if key == "verbose":
            continue
        sites = [n for f in idx.functions.values() if f.module.name != CONF for n in ast.walk(f.node) if isinstance(n, ast.Constant) and n.value == key
                 and "config" in ast.unparse(getattr(n, "_parent", n))]
        if not sites:
            # the key may be named by a module constant: config.get(USE_SPEC_HASHES_SETTING)
            for f in idx.functions.values():
                if f.module.name == CONF:
                    continue
                for c in _calls(f.node):
                    if isinstance(c.func, ast.Attribute) and c.func.attr in ("get", "__getitem__") and "config" in ast.unparse(c.func.value) and c.args:
                        try:
                            if ctx.ev.eval(c.args[0], f.module) == key:
                                sites.append(c)
                        except Exception:
                            pass
                for n in ast.walk(f.node):
                    if isinstance(n, ast.Subscript) and "config" in ast.unparse(n.value):
                        try:
                            if ctx.ev.eval(n.slice, f.module) == key:
                                sites.append(n)
                        except Exception:
                            pass
        r.check(bool(sites), f"src/gwf/conf.py::CONFIG_DEFAULTS::{key}", f"read at {len(sites)} site(s)", f"the documented setting `{key}` is never read: it can have no effect", "src/gwf/conf.py:1")


def rule_backend_namespace(ctx, r):
    idx = ctx.index
    cb = idx.func("gwf.backends.base:create_backend")

    def structural(_ctx, rr):
        t = ast.unparse(cb.node).replace('"', "'")
        ok = "config.get_namespace(f'backend.{name}')" in t and "working_dir=working_dir, **backend_args" in t.replace(" ", "").replace(",", ", ").replace("=", "=")
        ns_ok = any(isinstance(n, ast.Assign) and isinstance(n.value, ast.Call) and isinstance(n.value.func, ast.Attribute) and n.value.func.attr == "get_namespace"
                    and isinstance(n.value.args[0], ast.JoinedStr) and ast.unparse(n.value.args[0]).replace('"', "'") == "f'backend.{name}'" for n in walk_no_nested(cb.node))
        var = next((n.targets[0].id for n in walk_no_nested(cb.node) if isinstance(n, ast.Assign) and isinstance(n.value, ast.Call) and isinstance(n.value.func, ast.Attribute)
                    and n.value.func.attr == "get_namespace"), None)
        star = any(isinstance(c, ast.Call) and any(k.arg is None and dotted(k.value) == var for k in c.keywords) and any(k.arg == "working_dir" for k in c.keywords)
                   for c in _calls(cb.node))
        sel = any(isinstance(n, ast.Subscript) and "discover_backends()" in ast.unparse(n.value) and dotted(n.slice) == "name" for n in ast.walk(cb.node))
        rr.check(ns_ok and star and sel, f"{cb.module.relpath}::{cb.qual}", "backend_cls(working_dir=..., **config.get_namespace(f'backend.{name}')) for the selected backend",
                "the selected backend is not constructed with exactly its own `backend.<name>.*` settings as keyword arguments", cb.where)

    from .evalhelpers import create_backend_witness
    ctx.structural_or_witness(r, structural, lambda: create_backend_witness(ctx), f"{cb.module.relpath}::{cb.qual}", both=True)
    # factories: parameters flow to the Ops fields in order
    for mod, cname, params in (("gwf.backends.slurm", "SlurmOps", ["working_dir", "log_mode", "accounting_enabled"]),
                               ("gwf.backends.local", "LocalOps", ["working_dir", "host", "port"])):
        fac = idx.func(f"{mod}:create_backend")
        ci = idx.cls(f"{mod}:{cname}")
        fields = [f[0] for f in ci.fields if not (isinstance(f[2], ast.Call) and any(k.arg == "init" and isinstance(k.value, ast.Constant) and k.value.value is False for k in f[2].keywords))]
        got = fac.positional_params()
        # the settings the property names must be accepted by name; a further setting with a default of its own does not take anything away from them
        missing = [p for p in params if p not in fac.all_param_names()]
        r.check(not missing, f"{fac.module.relpath}::{fac.qual}::params", f"factory accepts {params}",
                f"the backend factory accepts {got}; the settings {missing} of the property cannot reach the backend", fac.where)
        ok = False
        for c in _calls(fac.node):
            if isinstance(c.func, ast.Name) and c.func.id == cname:
                bound = {}
                for i, a in enumerate(c.args):
                    if i < len(fields):
                        bound[fields[i]] = dotted(a)
                for k in c.keywords:
                    bound[k.arg] = dotted(k.value) if not isinstance(k.value, ast.Dict) else "{}"
                ok = all(bound.get(p) == p for p in params)
                detail = bound
        r.check(ok, f"{fac.module.relpath}::{fac.qual}::binding", f"each setting is bound to the same-named field of {cname}",
                f"factory arguments are bound to the wrong fields of {cname}: {detail}", fac.where)
    # use sites
    sl = idx.cls("gwf.backends.slurm:SlurmOps")
    cs = idx.method(sl, "compile_script")
    from .c10 import compile_script as _compile
    scripts = {}
    for mode in ("full", "merged", "none"):
        try:
            scripts[mode] = _compile(ctx, "gwf.backends.slurm", "SlurmOps", {}, log_mode=mode)[1]
        except (Raised, Unsupported) as exc:
            scripts[mode] = f"<{exc}>"
    r.check(len(set(scripts.values())) == 3 and not any(str(v).startswith("<") for v in scripts.values()), f"{cs.module.relpath}::{cs.qual}::log_mode",
            "the configured log mode (full / merged / none) selects three different sets of log directives",
            f"the Slurm script does not depend on the configured log mode as documented (distinct scripts for full/merged/none: {len(set(scripts.values()))})", cs.where)
    gj = idx.method(sl, "get_job_states")
    from .evalhelpers import eval_slurm_states
    _r1, e_on, q_on, _s1, _m1 = eval_slurm_states(ctx, 5, True)
    _r2, e_off, q_off, _s2, _m2 = eval_slurm_states(ctx, 5, False)
    _r3, _e3, q_off_fail, _s3, _m3 = eval_slurm_states(ctx, 5, False, fail="squeue")
    r.check(e_on is None and e_off is None and q_on and not q_off and not q_off_fail, f"{gj.module.relpath}::{gj.qual}::accounting_enabled",
            "sacct is run iff accounting_enabled (also when the queue query fails)",
            f"accounting switch on -> {len(q_on)} sacct call(s), off -> {len(q_off)}, off with a failing squeue -> {len(q_off_fail)} (errors: {e_on}, {e_off}): "
            "the configured switch must alone decide whether the accounting database is consulted", gj.where)
    # the local backend connects to the configured host and port (evaluated: LocalOps' client default -> Client.connect -> socket.connect)
    lo = idx.cls("gwf.backends.local:LocalOps")
    cl = idx.cls("gwf.backends.local:Client")
    seen = []
    sock = Obj("sock", connect=lambda addr=None, *a, **k: seen.append(("socket.connect", addr)), makefile=lambda *a, **k: Obj("stream"), close=lambda: None,
               settimeout=lambda *a: None, setsockopt=lambda *a: None)
    hooks = {"socket.socket": lambda *a, **k: sock, "socket.create_connection": lambda addr, *a, **k: (seen.append(("socket.connect", tuple(addr))), sock)[1],
             "time.sleep": lambda *a: None}
    interp = PureInterp(ctx, hooks=hooks)
    interp.max_depth = 8
    ops = _mk_instance(ctx, lo, "ops", working_dir=tok("PROJ"), host="HOSTNAME", port=4711, target_defaults={})
    res_ = None
    try:
        for m in lo.methods.values():
            if any((d or "").endswith("_client.default") for d in m.decorator_names()):
                res_ = interp.call(m, (), {}, self_obj=ops)
        post = idx.method(lo, "__attrs_post_init__")
        if post is not None:
            interp.call(post, (), {}, self_obj=ops)
    except (Raised, Unsupported) as exc:
        seen.append(("error", f"{type(exc).__name__}: {exc}"))
    r.check(("socket.connect", ("HOSTNAME", 4711)) in seen, f"{lo.module.relpath}::LocalOps::connect", "the pool client connects to (configured host, configured port)",
            f"with host=HOSTNAME and port=4711 configured the local backend connects as {seen}: the configured address does not reach the socket", lo.where)


def run(ctx):
    r1 = ctx.rule("R1", "get/set/unset/namespace: stored values round-trip with the documented coercion; unset is local and harmless; namespaces are exact", min_instances=7)
    rule_accessors(ctx, r1)
    r2 = ctx.rule("R2", "the config sub-commands read, write and save through FileConfig", min_instances=3)
    def config_witness():
        from .evalhelpers import eval_config_session
        steps = eval_config_session(ctx)
        uns = [st for st in steps if isinstance(st[1], str) and st[1].startswith("<unsupported")]
        diffs = [f"`gwf config` session, step `{st[0]}`: got {st[1]!r}, expected {st[2]!r}" for st in steps if st[1] != st[2] and st not in uns]
        return len(steps) - len(uns), diffs, (uns[0][1] if uns else None)
    ctx.structural_or_witness(r2, rule_cli_commands, config_witness, "src/gwf/plugins/config.py::session", both=True)
    from .evalhelpers import cli_main_location_witness
    n_ok, diffs, unsup = cli_main_location_witness(ctx)
    if unsup is None:
        r2.check(not diffs, "src/gwf/cli.py::main::config-location", f"the configuration file is <directory of the workflow file>/.gwfconf.json ({n_ok} witness evaluations)",
                 "; ".join(diffs[:2]) + " - the settings of a project must live next to its workflow file", "src/gwf/cli.py:1")
    else:
        r2.info("src/gwf/cli.py::main::config-location", f"not evaluated ({unsup}); C19.R2 decides the location structurally")
    # ... and "the workflow file" is the file the user points at (found by the upward search or given with -f), also when that file is a symbolic link
    from .evalhelpers import cached_witness, report_witness, find_workflow_witness
    report_witness(r2, "src/gwf/utils.py::find_workflow::location", "src/gwf/utils.py:1", cached_witness(ctx, "find-workflow", find_workflow_witness),
                   "the workflow file's location is the path the user points at: upward search, -f, '..', symbolic links (file and directory) are not followed")
    r3 = ctx.rule("R3", "precedence flag > project configuration > default for backend, colour and verbosity; every documented setting is read", min_instances=6)
    rule_precedence(ctx, r3)
    r4 = ctx.rule("R4", "the selected backend, and only it, receives its backend.<name>.* settings and uses them", min_instances=8)
    rule_backend_namespace(ctx, r4)

"""Shared rules about the two state stores (tracked jobs, spec hashes): persistence on every exit, atomic replace,
hash-after-accept ordering.  Used by C08, C09, C15, C18."""
import ast

from ..index import FuncInfo, dotted, walk_no_nested, loc
from ..paths import NEXT, RAISE, RETURN, Explorer, Semantics, State, fmt_trace

BASE = "gwf.backends.base"
CORE = "gwf.core"
STORES = ((f"{BASE}:TrackingBackend", "_tracked_jobs", "tracked jobs"), (f"{CORE}:FileSpecHashes", "hashes", "spec hashes"))


def _calls(node):
    for n in ast.walk(node):
        if isinstance(n, ast.Call):
            yield n


class CallSem(Semantics):
    """Generic: records which interesting calls completed on a path; configurable raising calls."""

    def __init__(self, index, finfo, marks, raising=None, domains=None):
        super().__init__(index, finfo)
        self.marks = marks  # [(fact name, predicate(call node))]
        self.raising = raising or []  # [(predicate(call), exc name)]
        self.domains = domains or {}

    def domain(self, text):
        return self.domains.get(text)

    def truthy(self, v):
        return v not in (None, False, 0, "EMPTY", "NONE")

    def const(self, expr, state):
        t = ast.unparse(expr)
        if t in state.vars:
            return state.vars[t]
        if isinstance(expr, ast.Constant):
            return frozenset(["NONE" if expr.value is None else expr.value])
        return None

    def may_raise(self, node, state):
        out = []
        if isinstance(node, ast.AST):
            for c in _calls(node):
                for pred, exc in self.raising:
                    if pred(c):
                        out.append(exc)
        return out

    def effect(self, node, state):
        if isinstance(node, tuple):
            if node[0] == "with_exit":
                return state.with_fact("with_closed:" + str(node[1].lineno), True)
            return state
        s = state
        for c in _calls(node):
            for name, pred in self.marks:
                if pred(c):
                    n = s.facts.get("seq", 0) + 1
                    s = s.with_fact(name, n).with_fact("seq", n).note(node, name)
        return s


def rule_exit_persists(ctx, r):
    """__exit__ of both stores calls close() on every path (also when an exception is in flight) and does not swallow it."""
    idx = ctx.index
    for ckey, _attr, label in STORES:
        ci = idx.cls(ckey)
        ex = idx.method(ci, "__exit__")
        en = idx.method(ci, "__enter__")
        con = f"{ci.module.relpath}::{ci.qual}.__exit__"
        if ex is None or en is None:
            r.violation(con, f"the {label} store is not a context manager: nothing persists it when the command is interrupted by an exception", ci.where)
            continue
        params = ex.params()
        doms = {}
        for p in params[1:]:
            doms[p] = ("EMPTY", "SET")
            doms[f"{p}[0]"] = ("NONE", "EXC")
        sem = CallSem(idx, ex, [("closed", lambda c: isinstance(c.func, ast.Attribute) and c.func.attr == "close" and dotted(c.func.value) == "self")],
                      domains=doms)
        outs = Explorer(sem).run(State())
        bad = [o for o in outs if o.kind == RETURN and not o.state.facts.get("closed")]
        if bad:
            r.violation(con, f"{ci.name}.__exit__ can return without calling close(): when the command leaves the with-block (e.g. by an exception from a "
                        f"failing scheduler command) the {label} recorded so far are not written", ex.where, fmt_trace(bad[0].state, ex.module))
        else:
            r.ok(con, f"close() on all {len(outs)} exit path(s)", ex.where)
        swallow = [n for n in walk_no_nested(ex.node) if isinstance(n, ast.Return) and n.value is not None and not (
            isinstance(n.value, ast.Constant) and not n.value.value)]
        r.check(not swallow, con + "::swallow", "__exit__ does not suppress exceptions", f"{ci.name}.__exit__ may return a true value and swallow the error",
                ex.where)
        ret_self = any(isinstance(n, ast.Return) and dotted(n.value) == "self" for n in walk_no_nested(en.node))
        r.check(ret_self, f"{ci.module.relpath}::{ci.qual}.__enter__", "__enter__ returns self", f"{ci.name}.__enter__ does not return the store itself", en.where)


def _flag_guard_ok(ctx, ci, close_m, attr):
    """A `if not self.<flag>: return` guard in close() is acceptable only if every table mutation sets the flag to True
    and nothing but the initialiser ever sets it to anything else."""
    idx = ctx.index
    flags = set()
    for n in walk_no_nested(close_m.node):
        if isinstance(n, ast.If):
            t = n.test
            if isinstance(t, ast.UnaryOp) and isinstance(t.op, ast.Not) and isinstance(t.operand, ast.Attribute) and dotted(t.operand.value) == "self":
                flags.add(t.operand.attr)
    problems = []
    for flag in flags:
        if flag == attr:
            problems.append(f"close() skips the write when self.{attr} is empty: a table emptied by this command is never persisted and the old records come back")
            continue
        for m in ci.methods.values():
            mutates = False
            sets_true = False
            for n in walk_no_nested(m.node):
                if isinstance(n, (ast.Assign, ast.Delete, ast.AugAssign)):
                    tg = n.targets if hasattr(n, "targets") else [n.target]
                    for t in tg:
                        if isinstance(t, ast.Subscript) and isinstance(t.value, ast.Attribute) and t.value.attr == attr:
                            mutates = True
                        if isinstance(t, ast.Attribute) and t.attr == flag and dotted(t.value) == "self":
                            v = getattr(n, "value", None)
                            if isinstance(v, ast.Constant) and v.value is True:
                                sets_true = True
                            elif m.name not in ("__init__", "__attrs_post_init__", "close") and not (isinstance(v, ast.Constant) and v.value is True):
                                problems.append(f"{m.name} assigns `{ast.unparse(n)}`: the dirty flag can be reset while unsaved changes exist")
                if isinstance(n, ast.Call) and isinstance(n.func, ast.Attribute) and n.func.attr in ("pop", "update", "clear", "setdefault", "popitem") \
                        and isinstance(n.func.value, ast.Attribute) and n.func.value.attr == attr:
                    mutates = True
            if mutates and not sets_true and m.name not in ("__init__", "__attrs_post_init__"):
                problems.append(f"{m.name} changes self.{attr} without setting self.{flag} = True")
    return flags, problems


def rule_close_writes(ctx, r):
    """close() of both stores writes the in-memory table on every path (a skip is allowed only under a sound dirty flag)."""
    idx = ctx.index
    for ckey, attr, label in STORES:
        ci = idx.cls(ckey)
        cm = idx.method(ci, "close")
        con = f"{ci.module.relpath}::{ci.qual}.close"
        if cm is None:
            r.violation(con, f"no close() for the {label} store", ci.where)
            continue
        sem = CallSem(idx, cm, [("dumped", lambda c: isinstance(c.func, (ast.Name, ast.Attribute)) and idx.canon(c.func, cm.module) in ("json.dump",)
                                  or (isinstance(c.func, ast.Attribute) and c.func.attr == "write" and any(
                                      isinstance(x, ast.Call) and idx.canon(x.func, cm.module) == "json.dumps" for x in ast.walk(c) if isinstance(x, ast.Call) and isinstance(x.func, (ast.Name, ast.Attribute)))))])
        outs = Explorer(sem).run(State())
        skipping = [o for o in outs if o.kind == RETURN and not o.state.facts.get("dumped")]
        if skipping:
            flags, problems = _flag_guard_ok(ctx, ci, cm, attr)
            if problems or not flags:
                msg = problems[0] if problems else f"close() can return without writing the {label}"
                r.violation(con + "::always-writes", msg, cm.where, fmt_trace(skipping[0].state, cm.module))
            else:
                r.ok(con + "::always-writes", f"write skipped only under a sound dirty flag {sorted(flags)}", cm.where)
        else:
            r.ok(con + "::always-writes", f"every path of close() dumps self.{attr}", cm.where)
        # what is dumped
        dumped = None
        for c in _calls(cm.node):
            if isinstance(c.func, (ast.Name, ast.Attribute)) and idx.canon(c.func, cm.module) == "json.dump" and c.args:
                dumped = c.args[0]
        if dumped is not None and ckey.endswith("FileSpecHashes"):
            r.check(ast.unparse(dumped) in (f"self.{attr}", f"dict(self.{attr})"), con + "::dump", f"dumps self.{attr}",
                    f"close() saves `{ast.unparse(dumped)[:60]}` instead of the in-memory {label}", cm.where)


def rule_atomic_replace(ctx, r):
    """State files are written to a temporary name and os.replace()d over the file that __init__ loads, after the temp file is closed."""
    idx = ctx.index
    for ckey, attr, label in STORES:
        ci = idx.cls(ckey)
        cm = idx.method(ci, "close")
        con = f"{ci.module.relpath}::{ci.qual}.close::atomic"
        if cm is None:
            continue
        # load path expression
        load_expr = None
        for m in ci.methods.values():
            if m.name in ("__attrs_post_init__", "__init__") or any((d or "").endswith(".default") for d in m.decorator_names()):
                for c in _calls(m.node):
                    if isinstance(c.func, (ast.Name, ast.Attribute)) and idx.canon(c.func, m.module) == "builtins.open" and c.args:
                        load_expr = ast.unparse(c.args[0])
        if load_expr is None:
            r.violation(con, f"cannot find where the {label} file is loaded", ci.where)
            continue
        local_defs = {}
        for n in walk_no_nested(cm.node):
            if isinstance(n, ast.Assign) and isinstance(n.targets[0], ast.Name):
                local_defs[n.targets[0].id] = n.value

        def expand(e, depth=0):
            if isinstance(e, ast.Name) and e.id in local_defs and depth < 4:
                return expand(local_defs[e.id], depth + 1)
            if isinstance(e, ast.BinOp) and isinstance(e.op, ast.Add):
                return f"{expand(e.left, depth + 1)} + {expand(e.right, depth + 1)}"
            if isinstance(e, ast.Call) and isinstance(e.func, ast.Name) and e.func.id == "str" and len(e.args) == 1:
                return expand(e.args[0], depth + 1)
            return ast.unparse(e)

        opens = []
        for n in walk_no_nested(cm.node):
            if isinstance(n, ast.With):
                for item in n.items:
                    c = item.context_expr
                    if isinstance(c, ast.Call) and idx.canon(c.func, cm.module) == "builtins.open" and c.args:
                        opens.append((n, c, expand(c.args[0])))
        replaces = [c for c in _calls(cm.node) if isinstance(c.func, (ast.Name, ast.Attribute)) and idx.canon(c.func, cm.module) in ("os.replace", "os.rename")
                    and len(c.args) == 2]
        if not opens:
            r.violation(con, f"close() does not write the {label} file", cm.where)
            continue
        w, oc, opath = opens[-1]
        if opath == load_expr:
            r.violation(con, f"the {label} file is rewritten in place (open({load_expr}, 'w') truncates the very file the next start json.load()s): "
                        "a kill inside the write leaves an unreadable prefix", loc(oc, cm.module))
            continue
        if not (opath.startswith(load_expr + " + ") and opath.count(" + ") == 1):
            r.violation(con, f"the {label} are written to `{opath}`, which is not a temporary name next to `{load_expr}`", loc(oc, cm.module))
            continue
        good = [c for c in replaces if expand(c.args[0]) == opath and expand(c.args[1]) == load_expr]
        if not good:
            r.violation(con, f"the temporary file `{opath}` is never os.replace()d over `{load_expr}`: the {label} written by this command are lost",
                        loc(oc, cm.module))
            continue
        rc = good[0]
        inside = any(rc in list(ast.walk(st)) for st in w.body)
        after = rc.lineno > max(getattr(x, "end_lineno", x.lineno) for x in w.body)
        if inside or not after:
            r.violation(con, "os.replace() runs before the temporary file is closed (inside the with-block): the rename can publish a file whose content "
                        "is still in Python's buffer, so a kill or a failing flush leaves an empty/truncated state file", loc(rc, cm.module))
            continue
        r.ok(con, f"open({opath}) ... then os.replace(tmp, {load_expr}) after the with-block", loc(rc, cm.module))


def explore_submit_backend(ctx):
    """Paths of scheduling.submit_backend with an exception edge at backend.submit; facts: submitted, hashed (sequence numbers)."""
    if "submit_backend_paths" in ctx.shared:
        return ctx.shared["submit_backend_paths"]
    idx = ctx.index
    sb = idx.func("gwf.scheduling:submit_backend")
    params = sb.positional_params()
    backend_p = params[2] if len(params) > 2 else "backend"
    hashes_p = params[3] if len(params) > 3 else "spec_hashes"

    def is_submit(c):
        return isinstance(c.func, ast.Attribute) and c.func.attr == "submit" and dotted(c.func.value) == backend_p

    def is_update(c):
        return isinstance(c.func, ast.Attribute) and c.func.attr == "update" and dotted(c.func.value) == hashes_p

    doms = {p: (False, True) for p in params if p in ("dry_run", "dryrun", "dry")}
    sem = CallSem(idx, sb, [("submitted", is_submit), ("hashed", is_update)], raising=[(is_submit, "gwf.backends.exceptions.BackendError")],
                  domains=doms)
    outs = Explorer(sem).run(State())
    ctx.shared["submit_backend_paths"] = (sb, outs)
    return sb, outs


def rule_hash_after_accept(ctx, r):
    """The spec hash of a target is recorded only after backend.submit() returned (accepted), never on a rejected or skipped submission."""
    sb, outs = explore_submit_backend(ctx)
    con = f"{sb.module.relpath}::{sb.qual}"
    bad_rej = [o for o in outs if o.kind == RAISE and o.state.facts.get("hashed")]
    bad_skip = [o for o in outs if o.kind == RETURN and o.state.facts.get("hashed") and not o.state.facts.get("submitted")]
    bad_order = [o for o in outs if o.kind == RETURN and o.state.facts.get("hashed") and o.state.facts.get("submitted")
                 and o.state.facts["hashed"] < o.state.facts["submitted"]]
    none = [o for o in outs if o.kind == RETURN and o.state.facts.get("submitted") and not o.state.facts.get("hashed")]
    if bad_rej or bad_order:
        o = (bad_rej or bad_order)[0]
        r.violation(con + "::hash-after-accept", "spec_hashes.update(target) runs before backend.submit(target) has returned: when the scheduler rejects the "
                    "submission the new hash is still recorded (and saved on exit), so the edited target later looks unchanged and is never run",
                    sb.where, fmt_trace(o.state, sb.module))
    elif bad_skip:
        r.violation(con + "::hash-after-accept", "spec_hashes.update(target) is reachable on a path that does not submit the target (e.g. a dry run): "
                    "a preview records hashes as if the targets had been accepted", sb.where, fmt_trace(bad_skip[0].state, sb.module))
    elif none:
        r.violation(con + "::hash-after-accept", "an accepted submission does not record the target's spec hash: with hashing on it is resubmitted by every run",
                    sb.where, fmt_trace(none[0].state, sb.module))
    elif not any(o.state.facts.get("submitted") for o in outs):
        r.violation(con + "::hash-after-accept", "submit_backend never calls backend.submit", sb.where)
    else:
        r.ok(con + "::hash-after-accept", f"{len(outs)} path(s): update only after submit returned; a raising submit leaves the hash untouched", sb.where)

"""Shared rules about the two state stores (tracked jobs, spec hashes): persistence on every exit, atomic replace,
hash-after-accept ordering.  Used by C08, C09, C15, C18."""
import ast

from ..index import FuncInfo, dotted, walk_no_nested, loc
from ..paths import NEXT, RAISE, RETURN, Explorer, Semantics, State, fmt_trace

BASE = "gwf.backends.base"
CORE = "gwf.core"
STORES = ((f"{BASE}:TrackingBackend", "_tracked_jobs", "tracked jobs"), (f"{CORE}:FileSpecHashes", "hashes", "spec hashes"))


def _calls(node):
    for n in ast.walk(node):
        if isinstance(n, ast.Call):
            yield n


class CallSem(Semantics):
    """Generic: records which interesting calls completed on a path; configurable raising calls."""

    def __init__(self, index, finfo, marks, raising=None, domains=None):
        super().__init__(index, finfo)
        self.marks = marks  # [(fact name, predicate(call node))]
        self.raising = raising or []  # [(predicate(call), exc name)]
        self.domains = domains or {}

    def domain(self, text):
        return self.domains.get(text)

    def truthy(self, v):
        return v not in (None, False, 0, "EMPTY", "NONE")

    def const(self, expr, state):
        t = ast.unparse(expr)
        if t in state.vars:
            return state.vars[t]
        if isinstance(expr, ast.Constant):
            return frozenset(["NONE" if expr.value is None else expr.value])
        return None

    def may_raise(self, node, state):
        out = []
        if isinstance(node, ast.AST):
            for c in _calls(node):
                for pred, exc in self.raising:
                    if pred(c):
                        out.append(exc)
        return out

    def effect(self, node, state):
        if isinstance(node, tuple):
            if node[0] == "with_exit":
                return state.with_fact("with_closed:" + str(node[1].lineno), True)
            return state
        s = state
        for c in _calls(node):
            for name, pred in self.marks:
                if pred(c):
                    n = s.facts.get("seq", 0) + 1
                    s = s.with_fact(name, n).with_fact("seq", n).note(node, name)
        return s


def rule_exit_persists(ctx, r, which=("tracked jobs", "spec hashes")):
    """__exit__ of both stores calls close() on every path (also when an exception is in flight) and does not swallow it."""
    idx = ctx.index
    for ckey, _attr, label in STORES:
        if label not in which:
            continue
        ci = idx.cls(ckey)
        ex = idx.method(ci, "__exit__")
        en = idx.method(ci, "__enter__")
        con = f"{ci.module.relpath}::{ci.qual}.__exit__"
        if ex is None or en is None:
            r.violation(con, f"the {label} store is not a context manager: nothing persists it when the command is interrupted by an exception", ci.where)
            continue
        params = ex.params()
        doms = {}
        for p in params[1:]:
            doms[p] = ("EMPTY", "SET")
            doms[f"{p}[0]"] = ("NONE", "EXC")
        sem = CallSem(idx, ex, [("closed", lambda c: isinstance(c.func, ast.Attribute) and c.func.attr == "close" and dotted(c.func.value) == "self")],
                      domains=doms)
        outs = Explorer(sem).run(State())
        bad = [o for o in outs if o.kind == RETURN and not o.state.facts.get("closed")]
        if bad:
            r.violation(con, f"{ci.name}.__exit__ can return without calling close(): when the command leaves the with-block (e.g. by an exception from a "
                        f"failing scheduler command) the {label} recorded so far are not written", ex.where, fmt_trace(bad[0].state, ex.module))
        else:
            r.ok(con, f"close() on all {len(outs)} exit path(s)", ex.where)
        swallow = [n for n in walk_no_nested(ex.node) if isinstance(n, ast.Return) and n.value is not None and not (
            isinstance(n.value, ast.Constant) and not n.value.value)]
        r.check(not swallow, con + "::swallow", "__exit__ does not suppress exceptions", f"{ci.name}.__exit__ may return a true value and swallow the error",
                ex.where)
        ret_self = any(isinstance(n, ast.Return) and dotted(n.value) == "self" for n in walk_no_nested(en.node))
        r.check(ret_self, f"{ci.module.relpath}::{ci.qual}.__enter__", "__enter__ returns self", f"{ci.name}.__enter__ does not return the store itself", en.where)


def _check_close_events(events, table, lpath):
    """None if the recorded events of a close() are an atomic save of `table` over `lpath`, else a message."""
    dumps = [(i, e) for i, e in enumerate(events) if e[0] == "dump"]
    if not dumps:
        return "nothing is written"
    i_dump, d = dumps[-1]
    if d[1] != table:
        return (f"what is saved ({d[1]}) is not the in-memory table ({table}): ids/hashes recorded by this invocation are lost or replaced by stale ones")
    tmp = d[2]
    opens = [(i, e) for i, e in enumerate(events) if e[0] == "open" and e[1] == tmp and any(ch in str(e[2]) for ch in "wxa+")]
    if not opens or opens[-1][0] > i_dump:
        return f"the table is dumped to `{tmp}` which was not opened for writing before"
    if tmp == lpath:
        return (f"the file is rewritten in place (open({lpath.replace('⟦PROJ⟧', '<project>')}, 'w') truncates the very file the next start json.load()s): "
                "a kill inside the write leaves an unreadable prefix")
    if any(e[0] == "open" and e[1] == lpath and any(ch in str(e[2]) for ch in "wxa+") for e in events):
        return "the state file itself is also opened for writing (truncated in place)"
    closes = [i for i, e in enumerate(events) if e[0] == "close" and e[1] == tmp and i > i_dump]
    reps = [(i, e) for i, e in enumerate(events) if e[0] == "replace"]
    good = [i for i, e in reps if e[1] == tmp and e[2] == lpath]
    if not good:
        return f"the temporary file `{tmp}` is never os.replace()d over `{lpath}`: what this command recorded is lost"
    if not closes or good[-1] < closes[0]:
        return ("os.replace() runs before the temporary file is closed (inside the with-block): the rename can publish a file whose content is still in Python's "
                "buffer, so a kill or a failing flush leaves an empty/truncated state file")
    if not (tmp.startswith(lpath) or tmp.rsplit("/", 1)[0] == lpath.rsplit("/", 1)[0]):
        return f"the temporary file `{tmp}` is not in the directory of `{lpath}` (os.replace across file systems fails with EXDEV - e.g. $TMPDIR on node-local scratch, the project on NFS - so nothing this command recorded is ever saved)"
    return None


def rule_store_close(ctx, r, which=("tracked jobs", "spec hashes")):
    """close() of both stores saves the in-memory table atomically (temp file in the same directory, closed, then os.replace over the
    file the next start loads), whatever was changed before - decided by template evaluation of close() after short mutation scripts."""
    from .evalhelpers import eval_close, load_path
    idx = ctx.index
    done = r.__dict__.setdefault("_store_close_done", set())
    for ckey, attr, label in STORES:
        if label not in which or label in done:
            continue
        done.add(label)
        ci = idx.cls(ckey)
        cm = idx.method(ci, "close")
        con = f"{ci.module.relpath}::{ci.qual}.close"
        if cm is None:
            r.violation(con, f"no close() for the {label} store", ci.where)
            continue
        lpath = load_path(ctx, ckey, attr)
        if lpath is None:
            r.violation(con + "::load", f"cannot find where the {label} file is loaded", ci.where)
            continue
        hooks_hash = {}
        base = {"A": "⟦V_A⟧", "B": "⟦V_B⟧"}
        scenarios = [("unchanged table, stale file on disk", dict(base), [], dict(base), False)]
        if label == "spec hashes":
            scenarios += [
                ("update(T) then close", dict(base), [("update", "T")], None, True),
                ("invalidate(A), invalidate(missing) then close", dict(base), [("invalidate", "A"), ("invalidate", "ZZ")], {"B": "⟦V_B⟧"}, True),
                ("invalidate of the last record then close", {"A": "⟦V_A⟧"}, [("invalidate", "A")], {}, True),
                ("update(A) for a target that already has a record (its spec was edited) then close", dict(base), [("update", "A")], None, True),
            ]
        if label == "tracked jobs":
            scenarios += [("submit(T) then close", dict(base), [("submit", "T")], None, True),
                          ("submit(A) for a target that is already tracked (re-submission: same name, new job id) then close", dict(base), [("submit", "A")], None, True)]
        # a gwf process that was killed inside an earlier write left its temporary file behind: the next close() must cope (and replace the state file as usual)
        scenarios.append(("a change, then close, with `<file>.tmp` left behind by an interrupted earlier write", dict(base),
                          [("update", "T")] if label == "spec hashes" else [("submit", "T")], None, True))
        n_ok = 0
        for name, table, script, want, must_write in scenarios:
            events, err, obj = eval_close(ctx, ckey, attr, table, script, disk={"A": "⟦STALE⟧", "Z": "⟦STALE_Z⟧"}, existing={lpath + ".tmp"} if "left behind" in name else ())
            if err is not None:
                r.violation(con + f"::{name}", f"{label}: close() fails after `{name}` ({err}): what this command recorded is not saved", cm.where)
                continue
            final = dict(getattr(obj, attr))
            if want is not None and final != want and script:
                # the mutation methods themselves are checked elsewhere; here only what close() does with the table
                pass
            dumps = [e for e in events if e[0] == "dump"]
            if not dumps:
                clobber = [e for e in events if (e[0] == "replace" and e[2] == lpath) or (e[0] == "open" and e[1] == lpath and any(ch in str(e[2]) for ch in "wx+"))]
                if clobber:
                    r.violation(con + f"::{name}", f"{label}: close() replaces/truncates the state file without writing the table into it ({clobber[0][0]}): the next gwf "
                                "invocation finds an empty, unreadable state file", cm.where)
                elif must_write:
                    r.violation(con + f"::{name}", f"{label}: after `{name}` close() writes nothing: the change made by this command is never persisted "
                                "(the old records come back at the next invocation)", cm.where)
                else:
                    n_ok += 1  # nothing changed, skipping the write is fine
                continue
            msg = _check_close_events(events, final, lpath)
            if msg:
                r.violation(con + f"::{name}", f"{label}: {msg}", cm.where)
            else:
                n_ok += 1
        # a whole invocation on a project that already has a state file: load (real initialiser), change, close - what is on disk afterwards is the table in memory
        from .evalhelpers import eval_life_cycle
        cyc = [("update(T)", [("update", "T")])] if label == "spec hashes" else [("submit(T)", [("submit", "T")])]
        if label == "spec hashes":
            cyc.append(("invalidate(A)", [("invalidate", "A")]))
            cyc.append(("update(A) (a target that already has a record, spec edited)", [("update", "A")]))
        else:
            cyc.append(("submit(A) (re-submission of a tracked target: same name, new job id)", [("submit", "A")]))
        for cname, script in cyc:
            events, err, obj = eval_life_cycle(ctx, ckey, attr, dict(base), script)
            if err is not None:
                if "[not-modelled]" in err:
                    continue
                r.violation(con + f"::life-cycle {cname}", f"{label}: an invocation that loads an existing file, does {cname} and closes fails ({err})", cm.where)
                continue
            final = dict(getattr(obj, attr))
            dumps = [e for e in events if e[0] == "dump"]
            if not dumps:
                r.violation(con + f"::life-cycle {cname}", f"{label}: on a project that already has a state file, an invocation that does {cname} writes nothing at close(): what this "
                            "command recorded is lost (the first write on a fresh project may still work, later ones never happen)", cm.where)
            elif dumps[-1][1] != final:
                r.violation(con + f"::life-cycle {cname}", f"{label}: after load + {cname} the table in memory is {final} but close() saves {dumps[-1][1]}", cm.where)
            else:
                n_ok += 0
        if n_ok == len(scenarios):
            r.ok(con, f"{len(scenarios)} scenario(s): table saved atomically over {lpath.replace('⟦PROJ⟧', '<project>')}", cm.where)


def rule_close_writes(ctx, r, which=("tracked jobs", "spec hashes")):
    rule_store_close(ctx, r, which)


def rule_atomic_replace(ctx, r, which=("tracked jobs", "spec hashes")):
    rule_store_close(ctx, r, which)


def explore_submit_backend(ctx):
    """Paths of scheduling.submit_backend with an exception edge at backend.submit; facts: submitted, hashed (sequence numbers)."""
    if "submit_backend_paths" in ctx.shared:
        return ctx.shared["submit_backend_paths"]
    idx = ctx.index
    from ..inline import inlined
    sb = inlined(ctx, idx.func("gwf.scheduling:submit_backend"))     # private helpers the submit/record steps were moved into are read in place
    params = sb.positional_params()
    backend_p = params[2] if len(params) > 2 else "backend"
    hashes_p = params[3] if len(params) > 3 else "spec_hashes"

    def is_submit(c):
        return isinstance(c.func, ast.Attribute) and c.func.attr == "submit" and dotted(c.func.value) == backend_p

    def is_update(c):
        return isinstance(c.func, ast.Attribute) and c.func.attr == "update" and dotted(c.func.value) == hashes_p

    doms = {p: (False, True) for p in params if p in ("dry_run", "dryrun", "dry")}
    sem = CallSem(idx, sb, [("submitted", is_submit), ("hashed", is_update)], raising=[(is_submit, "gwf.backends.exceptions.BackendError")],
                  domains=doms)
    outs = Explorer(sem).run(State())
    ctx.shared["submit_backend_paths"] = (sb, outs)
    return sb, outs


def rule_hash_after_accept(ctx, r):
    """The spec hash of a target is recorded only after backend.submit() returned (accepted), never on a rejected or skipped submission."""
    sb, outs = explore_submit_backend(ctx)
    con = f"{sb.module.relpath}::{sb.qual}"
    bad_rej = [o for o in outs if o.kind == RAISE and o.state.facts.get("hashed")]
    bad_skip = [o for o in outs if o.kind == RETURN and o.state.facts.get("hashed") and not o.state.facts.get("submitted")]
    bad_order = [o for o in outs if o.kind == RETURN and o.state.facts.get("hashed") and o.state.facts.get("submitted")
                 and o.state.facts["hashed"] < o.state.facts["submitted"]]
    none = [o for o in outs if o.kind == RETURN and o.state.facts.get("submitted") and not o.state.facts.get("hashed")]
    if bad_rej or bad_order:
        o = (bad_rej or bad_order)[0]
        r.violation(con + "::hash-after-accept", "spec_hashes.update(target) runs before backend.submit(target) has returned: when the scheduler rejects the "
                    "submission the new hash is still recorded (and saved on exit), so the edited target later looks unchanged and is never run",
                    sb.where, fmt_trace(o.state, sb.module))
    elif bad_skip:
        r.violation(con + "::hash-after-accept", "spec_hashes.update(target) is reachable on a path that does not submit the target (e.g. a dry run): "
                    "a preview records hashes as if the targets had been accepted", sb.where, fmt_trace(bad_skip[0].state, sb.module))
    elif none:
        r.violation(con + "::hash-after-accept", "an accepted submission does not record the target's spec hash: with hashing on it is resubmitted by every run",
                    sb.where, fmt_trace(none[0].state, sb.module))
    elif not any(o.state.facts.get("submitted") for o in outs):
        # the submit/record steps are not visible in this function (moved behind helpers the inliner does not follow): the run command evaluated with a rejected
        # k-th submission decides
        from .evalhelpers import cached_witness, run_command_witness
        n_w, diffs, unsup = cached_witness(ctx, "run", run_command_witness)
        diffs = [d for d in diffs if "hash" in d or "ends with" in d or "submits" in d]
        if unsup is None and not diffs:
            r.ok(con + "::hash-after-accept", f"shape not recognised; {n_w} evaluated invocations of `gwf run` (k-th submission rejected) record hashes for exactly the accepted submissions", sb.where)
        else:
            r.violation(con + "::hash-after-accept", "submit_backend never calls backend.submit" + (f" ({diffs[0]})" if diffs else ""), sb.where)
    else:
        r.ok(con + "::hash-after-accept", f"{len(outs)} path(s): update only after submit returned; a raising submit leaves the hash untouched", sb.where)



def rule_store_load(ctx, r, which=("tracked jobs", "spec hashes")):
    """What an earlier invocation saved is what the next one starts with: the initialiser loads the file into the table; no file = empty table."""
    from .evalhelpers import eval_store_load
    idx = ctx.index
    for ckey, attr, label in STORES:
        if label not in which:
            continue
        ci = idx.cls(ckey)
        con = f"{ci.module.relpath}::{ci.qual}::load"
        disk = {"A": "⟦V_A⟧", "B": "⟦V_B⟧"}
        got = eval_store_load(ctx, ckey, attr, disk)
        got_none = eval_store_load(ctx, ckey, attr, None)
        if isinstance(got, str) and got.startswith("<Unsupported"):
            r.info(con, f"initialiser not evaluated ({got})")
            continue
        r.check(got == disk and got_none == {}, con, f"the {label} table starts as the saved file's content (empty when there is no file yet)",
                f"{label}: with {disk} saved by the previous invocation the store starts with {got} (and with {got_none} when no file exists): "
                + ("jobs accepted earlier are forgotten and submitted again" if label == "tracked jobs" else "every target looks never recorded, so all targets are stale on every run"),
                ci.where)


def rule_table_ownership(ctx, r, which=("tracked jobs", "spec hashes")):
    """Who may change the two state tables.  tracked jobs: written by TrackingBackend.submit (the id of an accepted job) and by the loader - nothing ever REMOVES an
    entry or replaces the table (a job the scheduler accepted stays on record whatever part of the workflow the current command looks at).  spec hashes: written by
    update(), erased by invalidate() (which only `gwf clean` calls), loaded at start-up - nothing else touches the table."""
    import ast
    from ..index import loc
    idx, res = ctx.index, ctx.resolver
    base = "gwf.backends.base:TrackingBackend"
    core = "gwf.core:FileSpecHashes"
    n_tr = n_hs = 0
    for f in idx.functions.values():
        from ..index import walk_no_nested
        for n in walk_no_nested(f.node):
            for e in res.node_effects(n, f):
                if e.kind != "STATE_MUT":
                    continue
                if e.detail == "tracked" and "tracked jobs" in which:
                    n_tr += 1
                    owner = f.cls is not None and f.cls.name == "TrackingBackend" and (f.name in ("submit", "__init__", "__attrs_post_init__") or any(
                        (d or "").endswith(".default") for d in f.decorator_names()) or res.owned_by(f, [f"{base}.submit"]))
                    # within an owner: a store `table[name] = id` is the one legal write; pop/clear/del/popitem remove entries
                    removes = isinstance(n, ast.Delete) or (isinstance(n, ast.Call) and isinstance(n.func, ast.Attribute) and n.func.attr in ("pop", "clear", "popitem", "__delitem__"))
                    r.check(owner and not removes, f"{f.module.relpath}::{f.qual}::tracked-table", "the tracked-jobs table is written by submit() / the loader only, entries are never removed",
                            f"{f.qual} {'removes entries from' if removes else 'writes'} the tracked-jobs table: a job the scheduler accepted is forgotten for targets this command did not "
                            "look at (a partial run, another workflow file in the same directory, a target that is commented out for a while) - its state is no longer shown, "
                            "`gwf cancel` cannot reach it and the next run submits the target a second time", e.where)
                if e.detail == "hashes" and "spec hashes" in which:
                    n_hs += 1
                    own = f.cls is not None and f.cls.name == "FileSpecHashes" and (f.name in ("update", "invalidate", "__attrs_post_init__", "__init__") or any(
                        (d or "").endswith(".default") for d in f.decorator_names()) or res.owned_by(
                        f, [f"{core}.update", f"{core}.invalidate", f"{core}.__attrs_post_init__", f"{core}.__init__"]))
                    r.check(own, f"{f.module.relpath}::{f.qual}::hashes-table", "the spec-hash table is written by update() / invalidate() / the loader only",
                            f"{f.qual} changes the spec-hash table: records are set by an accepted submission or touch and erased by clean only - a record dropped for a target "
                            "this command did not look at (a partial run, another workflow file) makes that target stale although nothing changed", e.where)
    if "tracked jobs" in which:
        r.check(n_tr >= 1, "src/gwf::tracked-table-writers", f"{n_tr} write site(s) of the tracked-jobs table, all in its owners", "no write site of the tracked-jobs table found", "src/gwf/backends/base.py:1")
    if "spec hashes" in which:
        r.check(n_hs >= 2, "src/gwf::hashes-table-writers", f"{n_hs} write site(s) of the spec-hash table, all in its owners", "the write sites of the spec-hash table were not found", "src/gwf/core.py:1")

"""C03 - the dependency graph is exactly the relation induced by shared (normalised) file paths."""
import ast

from ..index import dotted, walk_no_nested, loc, ancestors
from .c01 import rule_flatten, rule_shape_independence
from .persist import _calls

CORE = "gwf.core"
NORMALISERS = ("os.path.abspath", "os.path.normpath", "os.path.realpath")


def rule_norm_path(ctx, r):
    """Every path returned by _norm_path is fspath()-converted, resolved against the target's working directory when relative, and normalised."""
    idx = ctx.index
    np_ = idx.func(f"{CORE}:_norm_path")
    con = f"{np_.module.relpath}::{np_.qual}"
    wd, path = np_.positional_params()[:2]
    rets = [n for n in walk_no_nested(np_.node) if isinstance(n, ast.Return)]
    if not rets:
        r.violation(con, "_norm_path returns nothing", np_.where)
    fs_ok = any(isinstance(n, ast.Assign) and dotted(n.targets[0]) == path and isinstance(n.value, ast.Call)
                and idx.canon(n.value.func, np_.module) in ("os.fspath", "builtins.str") for n in np_.node.body)
    inline_fs = any(isinstance(c.func, (ast.Name, ast.Attribute)) and idx.canon(c.func, np_.module) == "os.fspath" for c in _calls(np_.node))
    r.check(fs_ok or inline_fs, con + "::fspath", "path objects are converted with fspath() first", "path objects (os.PathLike) are not converted before normalising", np_.where)
    for rt in rets:
        v = rt.value
        where = loc(rt, np_.module)
        guards = [a for a in ancestors(rt) if isinstance(a, ast.If)]
        under_isabs = None
        for g in guards:
            t = g.test
            neg = False
            if isinstance(t, ast.UnaryOp) and isinstance(t.op, ast.Not):
                t, neg = t.operand, True
            if isinstance(t, ast.Call) and idx.canon(t.func, np_.module) == "os.path.isabs":
                in_body = any(rt in list(ast.walk(s)) for s in g.body)
                under_isabs = in_body ^ neg
        if not (isinstance(v, ast.Call) and isinstance(v.func, (ast.Name, ast.Attribute)) and idx.canon(v.func, np_.module) in NORMALISERS and len(v.args) == 1):
            r.violation(con + "::normalised", f"`return {ast.unparse(v)[:70]}` hands out a path that was not passed through abspath/normpath: "
                        "spellings like './x', 'd/../x' or '/wd//x' of one file no longer compare equal, so dependency edges, the multiple-provider "
                        "check and clean's protection silently miss", where)
            continue
        inner = v.args[0]
        joined = isinstance(inner, ast.Call) and idx.canon(inner.func, np_.module) == "os.path.join" and len(inner.args) == 2 and \
            dotted(inner.args[0]) == wd and dotted(inner.args[1]) == path
        bare = dotted(inner) == path
        if joined:
            r.ok(con + "::normalised", f"{idx.canon(v.func, np_.module)}(join({wd}, {path}))", where)
        elif bare and under_isabs:
            r.ok(con + "::normalised", f"absolute path -> {idx.canon(v.func, np_.module)}({path})", where)
        elif bare:
            r.violation(con + "::relative", f"`return {ast.unparse(v)}` resolves a possibly relative path without joining it to the target's working directory "
                        "(it would be resolved against the directory gwf was started from)", where)
        else:
            r.violation(con + "::normalised", f"`return {ast.unparse(v)[:70]}` does not normalise join(working_dir, path)", where)
    nps = idx.func(f"{CORE}:_norm_paths")
    txt = ast.unparse(nps.node)
    p = nps.positional_params()
    ok = False
    for n in walk_no_nested(nps.node):
        if isinstance(n, ast.Return) and isinstance(n.value, (ast.ListComp, ast.GeneratorExp)):
            g = n.value.generators[0]
            ok = not g.ifs and dotted(g.iter) == p[1] and ast.unparse(n.value.elt) == f"_norm_path({p[0]}, {dotted(g.target)})"
    extra = [n for n in nps.node.body if not isinstance(n, (ast.Return, ast.Expr))]
    r.check(ok and not extra, f"{nps.module.relpath}::{nps.qual}", "every path goes through _norm_path with the target's working directory",
            "_norm_paths does not simply map _norm_path(working_dir, p) over all paths", nps.where)


def _loops_over(fn, accessor):
    """[(outer For, inner For)] where inner iterates <outer var>.<accessor>()."""
    out = []
    for n in walk_no_nested(fn.node):
        if isinstance(n, ast.For) and isinstance(n.target, ast.Name):
            for m in ast.walk(n):
                if isinstance(m, ast.For) and m is not n and ast.unparse(m.iter) == f"{n.target.id}.{accessor}()" and isinstance(m.target, ast.Name):
                    out.append((n, m))
    return out


def rule_graph_construction(ctx, r):
    idx = ctx.index
    ft = idx.func(f"{CORE}:Graph.from_targets")
    con = f"{ft.module.relpath}::{ft.qual}"
    out_loops = _loops_over(ft, "flattened_outputs")
    in_loops = _loops_over(ft, "flattened_inputs")
    # provides writer
    prov_stores = []
    for outer, inner in out_loops:
        for n in ast.walk(inner):
            if isinstance(n, ast.Assign) and isinstance(n.targets[0], ast.Subscript) and dotted(n.targets[0].value) == "provides":
                ok = dotted(n.targets[0].slice) == inner.target.id and dotted(n.value) == outer.target.id
                prov_stores.append((n, outer, ok))
    other_stores = [n for n in walk_no_nested(ft.node) if isinstance(n, ast.Assign) and isinstance(n.targets[0], ast.Subscript)
                    and dotted(n.targets[0].value) == "provides" and not any(n is s[0] for s in prov_stores)]
    r.check(prov_stores and all(s[2] for s in prov_stores) and not other_stores, con + "::provides", "provides[path] = target for every flattened output of every target",
            "`provides` is not filled with exactly `output path -> producing target` for every flattened output", ft.where)
    # dependencies writer
    dep_adds = []
    readers = []
    for outer, inner in in_loops:
        for n in ast.walk(inner):
            if isinstance(n, ast.Call) and isinstance(n.func, ast.Attribute) and n.func.attr == "add" and isinstance(n.func.value, ast.Subscript) \
                    and dotted(n.func.value.value) == "dependencies":
                ok = dotted(n.func.value.slice) == outer.target.id and n.args and ast.unparse(n.args[0]) == f"provides[{inner.target.id}]"
                guard = any(isinstance(a, ast.If) and ast.unparse(a.test) == f"{inner.target.id} in provides" and any(n in list(ast.walk(s)) for s in a.body)
                            for a in ancestors(n))
                dep_adds.append((n, outer, ok and guard))
                readers.append(outer)
    r.check(dep_adds and all(d[2] for d in dep_adds), con + "::dependencies", "dependencies[target].add(provides[path]) for every flattened input that some target provides",
            "`dependencies` is not built as `target -> producers of its flattened inputs`", ft.where)
    # R2 order independence: every store into provides precedes (in statement order) the loop that resolves inputs against it
    if prov_stores and dep_adds:
        last_store = max(getattr(s[1], "end_lineno", s[1].lineno) for s in prov_stores)
        first_read = min(rd.lineno for rd in readers)
        same_loop = any(s[1] is d[1] for s in prov_stores for d in dep_adds)
        r.check(last_store < first_read and not same_loop, con + "::order-independence", "all producers are registered before any input is resolved",
                "inputs are resolved against `provides` while it is still being filled: whether an edge exists depends on the order in which targets were defined "
                "(a consumer defined before its producer loses the dependency)", ft.where)
    # unresolved
    unres_ok = any(isinstance(n, ast.Call) and isinstance(n.func, ast.Attribute) and n.func.attr == "add" and dotted(n.func.value) == "unresolved"
                   for _o, inner in in_loops for n in ast.walk(inner))
    r.check(unres_ok, con + "::unresolved", "inputs nobody provides are collected in `unresolved`", "inputs that no target provides are not recorded as unresolved", ft.where)
    # dependents by exact inversion
    inv_ok = False
    for n in walk_no_nested(ft.node):
        if isinstance(n, ast.For) and ast.unparse(n.iter) == "dependencies.items()" and isinstance(n.target, ast.Tuple) and len(n.target.elts) == 2:
            t, ds = [dotted(e) for e in n.target.elts]
            for m in ast.walk(n):
                if isinstance(m, ast.For) and m is not n and dotted(m.iter) == ds and isinstance(m.target, ast.Name):
                    for c in _calls(m):
                        if isinstance(c.func, ast.Attribute) and c.func.attr == "add" and ast.unparse(c.func.value) == f"dependents[{m.target.id}]" \
                                and c.args and dotted(c.args[0]) == t:
                            inv_ok = True
    other_dependents = [n for n in walk_no_nested(ft.node) if isinstance(n, ast.Call) and isinstance(n.func, ast.Attribute) and n.func.attr in ("add", "update")
                        and isinstance(n.func.value, ast.Subscript) and dotted(n.func.value.value) == "dependents"]
    r.check(inv_ok and len(other_dependents) == 1, con + "::dependents", "dependents[dep].add(target) for target, deps in dependencies.items() (exact inverse)",
            "`dependents` is not the exact inverse of `dependencies`", ft.where)
    # constructor keywords
    ret = [n for n in walk_no_nested(ft.node) if isinstance(n, ast.Return)]
    ok = False
    if ret and isinstance(ret[-1].value, ast.Call):
        kws = {k.arg: dotted(k.value) for k in ret[-1].value.keywords}
        ok = all(kws.get(k) == k for k in ("targets", "provides", "dependencies", "dependents", "unresolved"))
    r.check(ok, con + "::result", "Graph(targets=, provides=, dependencies=, dependents=, unresolved=) each from its own map",
            "the graph object is not built from the five maps under their own names (e.g. dependencies/dependents swapped)", ft.where)
    # targets dict keyed by name
    td = any(isinstance(n, ast.Assign) and isinstance(n.value, ast.DictComp) and ast.unparse(n.value.key).endswith(".name") and dotted(n.targets[0]) == "targets"
             for n in walk_no_nested(ft.node))
    r.check(td, con + "::targets", "targets = {target.name: target}", "the graph's target table is not keyed by target name", ft.where)


def rule_endpoints(ctx, r):
    idx = ctx.index
    ep = idx.func(f"{CORE}:Graph.endpoints")
    rets = [n for n in walk_no_nested(ep.node) if isinstance(n, ast.Return)]
    txt = ast.unparse(rets[0].value).replace(" ", "") if rets else ""
    ok = txt in ("set(self.targets.values())-set(self.dependents.keys())", "set(self.targets.values())-set(self.dependents)",
                 "set(self.targets.values())-self.dependents.keys()", "set(self.targets.values()).difference(self.dependents)",
                 "{tfortinself.targets.values()ifnotself.dependents.get(t)}")
    r.check(ok, f"{ep.module.relpath}::{ep.qual}", "endpoints = all targets minus those something depends on",
            f"Graph.endpoints returns `{txt[:80]}`, not `targets - keys of dependents`", ep.where)
    # phantom keys: dependents is a defaultdict; a subscript load inserts a key, which removes that target from endpoints()
    res = ctx.resolver
    for name, root in res.command_roots().items():
        visited, _effs, _u = res.reach(root)
        fns = {k[0] for k in visited}
        loads = []
        for fk in fns:
            f = idx.functions[fk]
            for n in walk_no_nested(f.node):
                if isinstance(n, ast.Subscript) and isinstance(n.ctx, ast.Load) and isinstance(n.value, ast.Attribute) and n.value.attr == "dependents":
                    loads.append((f, n))
        calls_ep = any(isinstance(c.func, ast.Attribute) and c.func.attr == "endpoints" for fk in fns for c in _calls(idx.functions[fk].node))
        if loads and calls_ep and f"{CORE}:Graph.endpoints" in fns:
            f, n = loads[0]
            r.violation(f"{root.module.relpath}::{root.qual}::phantom-dependents", f"`{ast.unparse(n)}` reads the defaultdict `dependents` by subscript (which inserts "
                        "an empty entry for a target nothing depends on) in a command that also computes endpoints(): such targets stop being endpoints", loc(n, f.module))
        elif loads:
            r.ok(f"{root.module.relpath}::{root.qual}::phantom-dependents", f"{len(loads)} subscript read(s) of dependents, endpoints() not used by this command", root.where)


def rule_info(ctx, r):
    idx = ctx.index
    pj = idx.func("gwf.plugins.info:print_json")
    pairs = {}
    for n in walk_no_nested(pj.node):
        if isinstance(n, ast.Tuple) and len(n.elts) == 2 and isinstance(n.elts[0], ast.Constant) and n.elts[0].value in ("dependencies", "dependents", "inputs", "outputs", "spec", "options"):
            pairs[n.elts[0].value] = ast.unparse(n.elts[1])
    for label in ("dependencies", "dependents"):
        r.check(f"graph.{label}[target]" in pairs.get(label, ""), f"{pj.module.relpath}::{pj.qual}::{label}", f"'{label}' <- graph.{label}[target]",
                f"info reports `{pairs.get(label)}` under the label '{label}'", pj.where)
    for label in ("inputs", "outputs", "spec"):
        r.check(pairs.get(label) == f"target.{label}", f"{pj.module.relpath}::{pj.qual}::{label}", f"'{label}' <- target.{label}",
                f"info reports `{pairs.get(label)}` under the label '{label}'", pj.where)
    pp = idx.func("gwf.plugins.info:print_pretty")
    seq = []
    for st in ast.walk(pp.node):
        if isinstance(st, ast.Expr) and isinstance(st.value, ast.Call):
            seq.append(st.value)
    label = None
    got = {}
    for c in seq:
        if dotted(c.func) == "print_label" and c.args and isinstance(c.args[0], ast.Constant):
            label = c.args[0].value
        elif label and c.args:
            got.setdefault(label, ast.unparse(c.args[0]))
    r.check("graph.dependents[target]" in got.get("Dependents:", ""), f"{pp.module.relpath}::{pp.qual}::Dependents", "'Dependents:' <- graph.dependents[target]",
            f"the pretty printer shows `{got.get('Dependents:')}` under 'Dependents:'", pp.where)
    r.check(got.get("Inputs:") == "target.inputs" and got.get("Outputs:") == "target.outputs", f"{pp.module.relpath}::{pp.qual}::files", "Inputs/Outputs labels match",
            f"the pretty printer shows inputs `{got.get('Inputs:')}` / outputs `{got.get('Outputs:')}`", pp.where)


def run(ctx):
    r1 = ctx.rule("R1", "every path is fspath()-converted, joined to the target's working directory when relative, and normalised", min_instances=3)
    rule_norm_path(ctx, r1)
    r2 = ctx.rule("R2", "provides / dependencies / dependents are written exactly as the file relation prescribes, producers registered first", min_instances=7)
    rule_graph_construction(ctx, r2)
    r3 = ctx.rule("R3", "endpoints are the targets nothing depends on; no phantom entries in the defaultdicts before endpoints()", min_instances=2)
    rule_endpoints(ctx, r3)
    r4 = ctx.rule("R4", "`gwf info` reports the graph's own relations under the right labels", min_instances=5)
    rule_info(ctx, r4)
    r5 = ctx.rule("R5", "flattening and accessors (shared with C01): the relation depends only on the declared path sets", min_instances=6)
    rule_flatten(ctx, r5)
    rule_shape_independence(ctx, r5)

"""C03 - the dependency graph is exactly the relation induced by shared (normalised) file paths."""
import ast

from ..index import dotted, walk_no_nested, loc, ancestors
from .c01 import rule_flatten, rule_shape_independence
from .persist import _calls

CORE = "gwf.core"
NORMALISERS = ("os.path.abspath", "os.path.normpath", "os.path.realpath")


def rule_norm_path(ctx, r):
    """Every path handed out by _norm_path is fspath()-converted, resolved against the target's working directory when relative,
    and normalised.  Decided by template evaluation of the (pure) function over representatives of its two input classes
    (relative / absolute spellings, str / PathLike); the only branch it may take is on isabs()."""
    from ..paths import Explorer, Semantics, State, RETURN
    from ..symeval import Obj, PureInterp, Raised, Unsupported, tok
    from .evalhelpers import anchored_norm
    idx = ctx.index
    np_ = idx.func(f"{CORE}:_norm_path")
    con = f"{np_.module.relpath}::{np_.qual}"
    # normalisation is lexical: the key of a file is its spelling made absolute, never the place a symbolic link on the way points to (two spellings of one declared
    # path - relative and absolute, with and without `..` - must give one key; resolving links gives one key per route through the file system)
    import ast as _ast
    for c_ in _ast.walk(np_.node):
        if isinstance(c_, _ast.Call) and isinstance(c_.func, (_ast.Name, _ast.Attribute)):
            cn_ = idx.canon(c_.func, np_.module) or ""
            at_ = c_.func.attr if isinstance(c_.func, _ast.Attribute) else None
            if cn_ in ("os.path.realpath", "os.readlink", "os.path.samefile") or (at_ in ("resolve", "readlink") and not cn_.startswith("gwf.")):
                from ..index import loc as _loc
                r.violation(con + "::follows-symlinks", f"_norm_path resolves symbolic links ({cn_ or '.' + at_}): a path that walks through a symlinked directory gets the key of the "
                            "link's destination, so the relative and the absolute spelling of one file (or `data/../ref.txt` and `ref.txt`) no longer meet - producers and "
                            "consumers lose their edge, `gwf clean` protects or deletes the wrong file", _loc(c_, np_.module))

    class _Plain(Semantics):
        def may_raise(self, node, state):
            return []
    outs = Explorer(_Plain(idx, np_)).run(State())
    fall = [o for o in outs if o.kind == RETURN and o.payload is None]
    r.check(not fall, con + "::total", "every path returns a path", "a path through _norm_path ends without returning a value (the 'normalised path' is None)", np_.where)
    WD = tok("WD")
    interp = PureInterp(ctx)

    def ev(fn, *args):
        try:
            return interp.call(fn, args)
        except (Raised, Unsupported) as exc:
            return f"<{exc}>"

    bad_rel, bad_abs = [], []
    for p in ("x", "./x", "d/../x", "a//b", "sub/dir/f.txt"):
        got = ev(np_, WD, p)
        if not anchored_norm(got, WD, p):
            bad_rel.append((p, got))
    # a relative working directory (Target(working_dir="sub")) must be anchored too
    got = ev(np_, "sub", "x")
    if got != tok("abs:sub/x") and not (isinstance(got, str) and "⟦abs:" in got):
        bad_rel.append(("working_dir='sub', path='x'", got))
    for p in ("/p/d/../x", "/p//x", "/p/./x", "/p/x"):
        got = ev(np_, WD, p)
        if got != "/p/x":
            bad_abs.append((p, got))
    # the same with a concrete absolute working directory (the common case; a 'fast path' for it must still collapse '//', trailing '/', './' and '..')
    import posixpath as _pp
    for wd_, p in (("/proj", "results//aln.bam"), ("/proj", "logs/"), ("/proj/", "x"), ("/proj", "./x"), ("/proj/sub", "../x"), ("/proj", "a/./b/../c"), ("/proj//data", "f.txt"),
                   ("/proj", "plain.txt"),
                   # file names are arbitrary strings: a colon (region-named files, time stamps), brackets, a non-ASCII letter in decomposed form, a leading `~`
                   # or `$` do not make a path anything other than a path below the working directory
                   ("/proj", "chr2:1-5000.bed"), ("/proj", "./chr3:1-10.merged"), ("/proj", "counts[raw].txt"), ("/proj", "Mu\u0308ller.txt"), ("/proj", "~backup/x"),
                   ("/proj", "$HOME/x"), ("/proj", "run 1/out.txt")):
        got = ev(np_, wd_, p)
        want_c = _pp.normpath(_pp.join(wd_, p))
        if got != want_c:
            bad_rel.append((f"working_dir={wd_!r}, path={p!r}", got))
    r.check(not bad_rel, con + "::relative", "a relative path is joined to the target's working directory, anchored and normalised (abspath of the join)",
            f"relative spellings are not resolved as normalise(join(working_dir, path)): {[(p, str(g).replace(WD, '<wd>')) for p, g in bad_rel[:3]]} - spellings like './x' and 'd/../x' "
            "of one file no longer compare equal (or are resolved against the invoking directory), so dependency edges, the multiple-provider check and clean's protection miss",
            np_.where)
    r.check(not bad_abs, con + "::absolute", "an absolute path is normalised ('/p/d/../x', '/p//x', '/p/./x' all become '/p/x')",
            f"absolute spellings are not normalised: {bad_abs[:3]} - '/wd/d/../x' no longer matches the output 'x' of a target in /wd", np_.where)
    # "different files never connect": names that denote different files on a POSIX file system stay different (no case folding, no Unicode
    # normalisation, no stripping of blanks) - checked on absolute spellings, which need no anchoring
    pairs = [("/p/caf\u00e9.txt", "/p/cafe\u0301.txt", "composed vs decomposed accent"), ("/p/Data.txt", "/p/data.txt", "letter case"),
             ("/p/x ", "/p/x", "trailing blank"), ("/p/a b", "/p/a_b", "blank vs underscore"), ("/p/\uff41", "/p/a", "full-width vs ASCII letter")]
    merged = []
    for a, b, what in pairs:
        ga, gb = ev(np_, WD, a), ev(np_, WD, b)
        if ga == gb or str(ga).startswith("<") or str(gb).startswith("<"):
            merged.append((what, a, b, ga))
    r.check(not merged, con + "::distinct-names", f"{len(pairs)} pairs of different file names stay different after normalisation",
            f"_norm_path maps two different files to one key ({merged[0][0]}: {merged[0][1]!r} and {merged[0][2]!r} both become {str(merged[0][3])[:40]!r}): a target reading one of them "
            "gets a dependency on the target producing the other (or both count as one output with two providers)" if merged else "", np_.where)
    got = ev(np_, WD, Obj("pathlike", __fspath__="x"))
    r.check(anchored_norm(got, WD, "x"), con + "::fspath", "path objects are converted with fspath() first",
            f"a path object is not converted before normalising (result {str(got)[:60]})", np_.where)
    nps = idx.functions.get(f"{CORE}:_norm_paths")
    if nps is None:
        r.info(f"src/gwf/core.py::_norm_paths", "helper not present (the accessors that used it are evaluated as a whole by the flattening rule)")
    else:
        got = ev(nps, WD, ["a", "/b/../c", "./d"])
        want = [ev(np_, WD, "a"), ev(np_, WD, "/b/../c"), ev(np_, WD, "./d")]
        r.check(got == want, f"{nps.module.relpath}::{nps.qual}", "every path goes through _norm_path with the target's working directory, order kept",
                f"_norm_paths does not map _norm_path(working_dir, p) over all paths (got {str(got)[:80]})", nps.where)


def _loops_over(fn, accessor):
    """[(outer For, inner For)] where inner iterates <outer var>.<accessor>()."""
    out = []
    for n in walk_no_nested(fn.node):
        if isinstance(n, ast.For) and isinstance(n.target, ast.Name):
            for m in ast.walk(n):
                if isinstance(m, ast.For) and m is not n and ast.unparse(m.iter) == f"{n.target.id}.{accessor}()" and isinstance(m.target, ast.Name):
                    out.append((n, m))
    return out


def rule_graph_construction(ctx, r):
    idx = ctx.index
    from ..inline import inlined
    ft = inlined(ctx, idx.func(f"{CORE}:Graph.from_targets"))
    con = f"{ft.module.relpath}::{ft.qual}"
    out_loops = _loops_over(ft, "flattened_outputs")
    in_loops = _loops_over(ft, "flattened_inputs")
    # provides writer
    prov_stores = []
    for outer, inner in out_loops:
        for n in ast.walk(inner):
            if isinstance(n, ast.Assign) and isinstance(n.targets[0], ast.Subscript) and dotted(n.targets[0].value) == "provides":
                ok = dotted(n.targets[0].slice) == inner.target.id and dotted(n.value) == outer.target.id
                prov_stores.append((n, outer, ok))
    other_stores = [n for n in walk_no_nested(ft.node) if isinstance(n, ast.Assign) and isinstance(n.targets[0], ast.Subscript)
                    and dotted(n.targets[0].value) == "provides" and not any(n is s[0] for s in prov_stores)]
    r.check(prov_stores and all(s[2] for s in prov_stores) and not other_stores, con + "::provides", "provides[path] = target for every flattened output of every target",
            "`provides` is not filled with exactly `output path -> producing target` for every flattened output", ft.where)
    # dependencies writer
    dep_adds = []
    readers = []
    for outer, inner in in_loops:
        for n in ast.walk(inner):
            if isinstance(n, ast.Call) and isinstance(n.func, ast.Attribute) and n.func.attr == "add" and isinstance(n.func.value, ast.Subscript) \
                    and dotted(n.func.value.value) == "dependencies":
                ok = dotted(n.func.value.slice) == outer.target.id and n.args and ast.unparse(n.args[0]) == f"provides[{inner.target.id}]"
                guard = any(isinstance(a, ast.If) and ast.unparse(a.test) == f"{inner.target.id} in provides" and any(n in list(ast.walk(s)) for s in a.body)
                            for a in ancestors(n))
                dep_adds.append((n, outer, ok and guard))
                readers.append(outer)
    r.check(dep_adds and all(d[2] for d in dep_adds), con + "::dependencies", "dependencies[target].add(provides[path]) for every flattened input that some target provides",
            "`dependencies` is not built as `target -> producers of its flattened inputs`", ft.where)
    # R2 order independence: every store into provides precedes (in statement order) the loop that resolves inputs against it
    if prov_stores and dep_adds:
        last_store = max(getattr(s[1], "end_lineno", s[1].lineno) for s in prov_stores)
        first_read = min(rd.lineno for rd in readers)
        same_loop = any(s[1] is d[1] for s in prov_stores for d in dep_adds)
        r.check(last_store < first_read and not same_loop, con + "::order-independence", "all producers are registered before any input is resolved",
                "inputs are resolved against `provides` while it is still being filled: whether an edge exists depends on the order in which targets were defined "
                "(a consumer defined before its producer loses the dependency)", ft.where)
    # unresolved
    unres_ok = any(isinstance(n, ast.Call) and isinstance(n.func, ast.Attribute) and n.func.attr == "add" and dotted(n.func.value) == "unresolved"
                   for _o, inner in in_loops for n in ast.walk(inner))
    r.check(unres_ok, con + "::unresolved", "inputs nobody provides are collected in `unresolved`", "inputs that no target provides are not recorded as unresolved", ft.where)
    # dependents by exact inversion
    inv_ok = False
    for n in walk_no_nested(ft.node):
        if isinstance(n, ast.For) and ast.unparse(n.iter) == "dependencies.items()" and isinstance(n.target, ast.Tuple) and len(n.target.elts) == 2:
            t, ds = [dotted(e) for e in n.target.elts]
            for m in ast.walk(n):
                if isinstance(m, ast.For) and m is not n and dotted(m.iter) == ds and isinstance(m.target, ast.Name):
                    for c in _calls(m):
                        if isinstance(c.func, ast.Attribute) and c.func.attr == "add" and ast.unparse(c.func.value) == f"dependents[{m.target.id}]" \
                                and c.args and dotted(c.args[0]) == t:
                            inv_ok = True
    other_dependents = [n for n in walk_no_nested(ft.node) if isinstance(n, ast.Call) and isinstance(n.func, ast.Attribute) and n.func.attr in ("add", "update")
                        and isinstance(n.func.value, ast.Subscript) and dotted(n.func.value.value) == "dependents"]
    r.check(inv_ok and len(other_dependents) == 1, con + "::dependents", "dependents[dep].add(target) for target, deps in dependencies.items() (exact inverse)",
            "`dependents` is not the exact inverse of `dependencies`", ft.where)
    # constructor keywords
    ret = [n for n in walk_no_nested(ft.node) if isinstance(n, ast.Return)]
    ok = False
    if ret and isinstance(ret[-1].value, ast.Call):
        kws = {k.arg: dotted(k.value) for k in ret[-1].value.keywords}
        ok = all(kws.get(k) == k for k in ("targets", "provides", "dependencies", "dependents", "unresolved"))
    r.check(ok, con + "::result", "Graph(targets=, provides=, dependencies=, dependents=, unresolved=) each from its own map",
            "the graph object is not built from the five maps under their own names (e.g. dependencies/dependents swapped)", ft.where)
    # targets dict keyed by name
    td = any(isinstance(n, ast.Assign) and isinstance(n.value, ast.DictComp) and ast.unparse(n.value.key).endswith(".name") and dotted(n.targets[0]) == "targets"
             for n in walk_no_nested(ft.node))
    r.check(td, con + "::targets", "targets = {target.name: target}", "the graph's target table is not keyed by target name", ft.where)


def graph_witness_summary(ctx, relations_only=False):
    """(n_ok, differences, unsupported) over the witness workflows of evalhelpers.GRAPH_WITNESSES."""
    from .evalhelpers import graph_witnesses
    diffs, unsupported, n_ok = [], None, 0
    for name, got, want in graph_witnesses(ctx):
        if got[0] == "unsupported":
            unsupported = got[1]
            continue
        if relations_only and want[0] == "raise":
            if got[0] == "raise":
                n_ok += 1
            continue
        if got == want:
            n_ok += 1
            continue
        if got[0] == "ok" and want[0] == "ok":
            keys = [k for k in want[1] if got[1].get(k) != want[1][k]]
            diffs.append(f"workflow `{name}`: {keys[0]} is {got[1].get(keys[0])}, the file relation prescribes {want[1][keys[0]]}")
        elif want[0] == "raise":
            diffs.append(f"workflow `{name}` is {'accepted' if got[0] == 'ok' else 'rejected with ' + str(got[1])}, it must be rejected with {want[1]}")
        else:
            diffs.append(f"well-formed workflow `{name}` is rejected with {got[1]}")
    return n_ok, diffs, unsupported


def rule_endpoints_formula(ctx, r):
    idx = ctx.index
    ep = idx.func(f"{CORE}:Graph.endpoints")
    rets = [n for n in walk_no_nested(ep.node) if isinstance(n, ast.Return)]
    txt = ast.unparse(rets[0].value).replace(" ", "") if rets else ""
    ok = txt in ("set(self.targets.values())-set(self.dependents.keys())", "set(self.targets.values())-set(self.dependents)",
                 "set(self.targets.values())-self.dependents.keys()", "set(self.targets.values()).difference(self.dependents)",
                 "{tfortinself.targets.values()ifnotself.dependents.get(t)}")
    r.check(ok, f"{ep.module.relpath}::{ep.qual}", "endpoints = all targets minus those something depends on",
            f"Graph.endpoints returns `{txt[:80]}`, not `targets - keys of dependents`", ep.where)


def rule_endpoints(ctx, r):
    idx = ctx.index
    # phantom keys: dependents is a defaultdict; a subscript load inserts a key, which removes that target from endpoints()
    res = ctx.resolver
    for name, root in res.command_roots().items():
        visited, _effs, _u = res.reach(root)
        fns = {k[0] for k in visited}
        loads = []
        for fk in fns:
            f = idx.functions[fk]
            for n in walk_no_nested(f.node):
                if isinstance(n, ast.Subscript) and isinstance(n.ctx, ast.Load) and isinstance(n.value, ast.Attribute) and n.value.attr == "dependents":
                    par = getattr(n, "_parent", None)
                    if isinstance(par, ast.Attribute) and par.attr in ("add", "update", "append", "extend", "discard", "remove"):
                        continue  # `dependents[x].add(y)` records a real dependent of x: x rightly stops being an endpoint
                    loads.append((f, n))
        calls_ep = any(isinstance(c.func, ast.Attribute) and c.func.attr == "endpoints" for fk in fns for c in _calls(idx.functions[fk].node))
        if loads and calls_ep and f"{CORE}:Graph.endpoints" in fns:
            f, n = loads[0]
            r.violation(f"{root.module.relpath}::{root.qual}::phantom-dependents", f"`{ast.unparse(n)}` reads the defaultdict `dependents` by subscript (which inserts "
                        "an empty entry for a target nothing depends on) in a command that also computes endpoints(): such targets stop being endpoints", loc(n, f.module))
        elif loads:
            r.ok(f"{root.module.relpath}::{root.qual}::phantom-dependents", f"{len(loads)} subscript read(s) of dependents, endpoints() not used by this command", root.where)


def rule_info(ctx, r):
    """`gwf info` prints the graph's own relations under the right labels - the two printers are template-evaluated on a symbolic graph."""
    import json as _json
    from ..symeval import Obj, PureInterp, Raised, Unsupported
    idx = ctx.index
    from .evalhelpers import target_obj
    T = target_obj(ctx, name="T", inputs=["in1"], outputs={"o": "out1"}, spec="SPEC-T\nline2", options={"cores": 2})
    D1, D2, X1 = target_obj(ctx, name="D1"), target_obj(ctx, name="D2"), target_obj(ctx, name="X1")
    graph = Obj("graph", dependencies={T: [D1, D2]}, dependents={T: [X1]})
    pj = idx.func("gwf.plugins.info:print_json")
    captured = []
    hooks = {"json.dumps": lambda o, *a, **k: captured.append(o) or "JSON", "builtins.print": lambda *a, **k: None, "click.echo": lambda *a, **k: None}
    try:
        PureInterp(ctx, hooks=hooks).call(pj, ([T], graph), {})
        rec = dict(captured[0]["T"]) if captured and "T" in captured[0] else None
    except (Raised, Unsupported, Exception) as exc:
        rec = f"<{exc}>"
    want = {"dependencies": ["D1", "D2"], "dependents": ["X1"], "inputs": ["in1"], "outputs": {"o": "out1"}, "spec": "SPEC-T\nline2", "options": {"cores": 2}}
    if isinstance(rec, dict):
        for label, val in want.items():
            got = rec.get(label)
            if isinstance(got, (list, tuple)) and label in ("dependencies", "dependents"):
                got = sorted(got)
            r.check(got == val, f"{pj.module.relpath}::{pj.qual}::{label}", f"'{label}' <- the graph's / target's own {label}",
                    f"`gwf info` (json) reports {got!r} under the label '{label}' for a target whose {label} are {val!r}", pj.where)
    else:
        r.violation(f"{pj.module.relpath}::{pj.qual}", f"the json printer cannot be followed ({rec})", pj.where)
    pp = idx.func("gwf.plugins.info:print_pretty")
    lines = []
    hooks = {"click.secho": lambda *a, **k: lines.append(a[0] if a else ""), "click.echo": lambda *a, **k: lines.append(a[0] if a else ""),
             "click.format_filename": lambda v, *a, **k: v}
    try:
        T2 = target_obj(ctx, name="T", inputs=["in1"], outputs=["out1"], spec="SPEC-T", options={})
        PureInterp(ctx, hooks=hooks).call(pp, ([T2], Obj("graph", dependencies={T2: [D1]}, dependents={T2: [X1]})), {})
    except (Raised, Unsupported, Exception) as exc:
        lines = [f"<{exc}>"]
    text = [str(l).strip() for l in lines]

    def after(label):
        if label in text:
            i = text.index(label)
            out = []
            for l in text[i + 1:]:
                if l.endswith(":") or l == "":
                    break
                out.append(l)
            return out
        return None

    r.check(after("Dependents:") == ["X1"], f"{pp.module.relpath}::{pp.qual}::Dependents", "'Dependents:' <- graph.dependents[target]",
            f"the pretty printer shows {after('Dependents:')} under 'Dependents:' for a target whose only dependent is X1", pp.where)
    r.check(after("Inputs:") == ["in1"] and after("Outputs:") == ["out1"] and after("Name:") == ["T"], f"{pp.module.relpath}::{pp.qual}::files",
            "Name/Inputs/Outputs labels match", f"the pretty printer shows name {after('Name:')}, inputs {after('Inputs:')}, outputs {after('Outputs:')}", pp.where)


def run(ctx):
    r1 = ctx.rule("R1", "every path is fspath()-converted, joined to the target's working directory when relative, and normalised", min_instances=3)
    rule_norm_path(ctx, r1)
    r2 = ctx.rule("R2", "provides / dependencies / dependents are written exactly as the file relation prescribes, producers registered first", min_instances=1)
    ctx.structural_or_witness(r2, rule_graph_construction, lambda: graph_witness_summary(ctx, relations_only=True), "src/gwf/core.py::Graph.from_targets", both=True)
    r3 = ctx.rule("R3", "endpoints are the targets nothing depends on; no phantom entries in the defaultdicts before endpoints()", min_instances=2)
    ctx.structural_or_witness(r3, rule_endpoints_formula, lambda: graph_witness_summary(ctx, relations_only=True), "src/gwf/core.py::Graph.endpoints", both=True)
    rule_endpoints(ctx, r3)
    r4 = ctx.rule("R4", "`gwf info` reports the graph's own relations under the right labels", min_instances=5)
    rule_info(ctx, r4)
    from .evalhelpers import cached_witness, report_witness, info_command_witness, workflow_api_witness
    from .shared import rule_targets_argument
    rule_targets_argument(ctx, r4, "gwf.plugins.info:info", "`gwf info [NAMES]`")
    report_witness(r4, "src/gwf/plugins/info.py::info::witness-project", "src/gwf/plugins/info.py:1", cached_witness(ctx, "info-cmd", info_command_witness),
                   "`gwf info`, `gwf info NAME` and a pattern matching nothing report exactly the (selected) targets with the graph's dependencies and dependents")
    # "resolved against B's working directory": the directory a target resolves its paths against is the template's own when it declares one, else the workflow's
    report_witness(r1, "src/gwf/workflow.py::Workflow::working-directory", "src/gwf/workflow.py:1", cached_witness(ctx, "workflow-api", workflow_api_witness),
                   "direct and template targets get the workflow's directory, or the template's own when it declares one", select=lambda d: "working_dir" in d or "directory" in d)
    r5 = ctx.rule("R5", "flattening and accessors (shared with C01): the relation depends only on the declared path sets", min_instances=6)
    rule_flatten(ctx, r5)
    rule_shape_independence(ctx, r5)

"""C13 - local pool: every task reaches the final state matching what happened; logs complete; no survivors."""
import ast

from ..consteval import CantEval, EnumVal
from ..index import FuncInfo, dotted, walk_no_nested, loc
from ..paths import RAISE, RETURN, Explorer, Semantics, State
from .localpool import CANCEL, FINAL, LOCAL, TaskSem, _calls, explore_task, local_status_members, scheduler_info, witness


def rule_exit_status(ctx, r, fi, sem, outs):
    """COMPLETED is stored only for exit status 0; shared by C11 and C13."""
    construct = f"{fi.module.relpath}::{fi.qual}"
    rc_bad = None
    n = 0
    for o in outs:
        if o.kind == RETURN and o.state.vars.get(sem.own_state) == frozenset(["COMPLETED"]):
            n += 1
            for k, v in o.state.vars.items():
                if k.endswith(".returncode") and (v - frozenset([0])):
                    rc_bad = (o, k, v)
    if rc_bad:
        o, k, v = rc_bad
        r.violation(construct + "::exit-status", f"the task is marked COMPLETED on a path where {k} may be {sorted(map(str, v - frozenset([0])))} "
                    "(non-zero or signal exit counted as success)", fi.where, witness(o.state, fi))
    elif n:
        r.ok(construct + "::exit-status", f"{n} COMPLETED exit(s), all with exit status refined to 0", fi.where)
    else:
        r.violation(construct + "::exit-status", "no path stores COMPLETED: a task that ran and exited 0 never completes", fi.where)


class KillSem(Semantics):
    def __init__(self, ctx, finfo):
        super().__init__(ctx.index, finfo)
        self.ctx = ctx
        params = finfo.positional_params()
        self.proc = params[1] if len(params) > 1 else "proc"

    def domain(self, text):
        if text == self.proc:
            return (None, "PROC")
        return None

    def truthy(self, v):
        return v is not None

    def may_raise(self, node, state):
        return []

    def _sig(self, expr):
        c = self.index.canon(expr, self.module) if isinstance(expr, (ast.Name, ast.Attribute)) else None
        if c and c.startswith("signal."):
            return c.split(".", 1)[1].split(".")[-1]
        try:
            v = self.ctx.ev.eval(expr, self.module)
            return {9: "SIGKILL", 15: "SIGTERM"}.get(v, str(v))
        except Exception:
            return "?"

    def _is_group_signal(self, call, depth=0):
        """None, or the name of the signal this call sends to the task's process group."""
        canon = self.index.canon(call.func, self.module) if isinstance(call.func, (ast.Name, ast.Attribute)) else None
        if canon == "os.killpg":
            return self._sig(call.args[1]) if len(call.args) > 1 else "?"
        if depth < 2:
            res = self.ctx.resolver.callees(call, self.finfo, {})
            for callee in res:
                if isinstance(callee, FuncInfo) and callee.module.name == LOCAL:
                    # helper: signals the group on its (only) path, argument derived from the process
                    passes_proc = any(dotted(a) == self.proc or (isinstance(a, ast.Attribute) and dotted(a.value) == self.proc)
                                      for a in call.args)
                    kp = [c for c in _calls(callee.node) if isinstance(c.func, (ast.Name, ast.Attribute)) and self.index.canon(c.func, callee.module) == "os.killpg"]
                    if passes_proc and kp:
                        params = callee.positional_params()
                        sigs = set()
                        for c in kp:
                            a = c.args[1] if len(c.args) > 1 else None
                            if isinstance(a, ast.Name) and a.id in params:
                                i = params.index(a.id) - (1 if callee.cls is not None else 0)
                                sigs.add(self._sig(call.args[i]) if 0 <= i < len(call.args) else "?")
                            elif a is not None:
                                sigs.add(KillSem(self.ctx, callee)._sig(a))
                        return sorted(sigs)[0] if len(sigs) == 1 else "?"
        return None

    def effect(self, node, state):
        if isinstance(node, tuple):
            return state
        s = state
        if s.vars.get(self.proc) == frozenset([None]) and isinstance(node, ast.AST) and not isinstance(node, (ast.If, ast.While)):
            uses = [n for n in ast.walk(node) if (isinstance(n, ast.Attribute) and dotted(n.value) == self.proc)
                    or (isinstance(n, ast.Call) and any(dotted(a) == self.proc for a in n.args))]
            if uses:
                s = s.with_fact("deref_none", getattr(node, "lineno", 0)).note(node, "uses the process although none was started")
        for c in _calls(node):
            sig = self._is_group_signal(c)
            if sig is not None:
                s = s.with_fact("group", True).note(node, f"process group signalled ({sig})")
                if sig == "SIGKILL":
                    s = s.with_fact("group_kill", True)
            f = c.func
            if isinstance(f, ast.Attribute) and f.attr in ("kill", "terminate", "send_signal") and dotted(f.value) == self.proc:
                s = s.with_fact("single", True).note(node, f"only the shell is signalled ({f.attr})")
            if isinstance(f, ast.Attribute) and f.attr == "wait" and dotted(f.value) == self.proc:
                s = s.with_fact("reaped", True).note(node, "await proc.wait()")
        return s


class CancelSem(Semantics):
    def __init__(self, ctx, finfo, info, members):
        super().__init__(ctx.index, finfo)
        self.ctx = ctx
        self.info = info
        self.members = members
        self.tid = finfo.positional_params()[1]
        self.own = f"self.{info['states']}[{self.tid}]"
        self.events = []

    def domain(self, text):
        return self.members if text == self.own else None

    def truthy(self, v):
        return True

    def const(self, expr, state):
        t = ast.unparse(expr)
        if t in state.vars:
            return state.vars[t]
        try:
            v = self.ctx.ev.eval(expr, self.module)
        except CantEval:
            return None
        if isinstance(v, EnumVal):
            return frozenset([v.member])
        if isinstance(v, (tuple, list, set, frozenset)) and all(isinstance(x, EnumVal) for x in v):
            return frozenset(x.member for x in v)
        return None

    def may_raise(self, node, state):
        return []

    def effect(self, node, state):
        if isinstance(node, tuple):
            return state
        dom = state.vars.get(self.own, frozenset(self.members))
        for c in _calls(node):
            if isinstance(c.func, ast.Attribute) and c.func.attr == "cancel":
                self.events.append(("cancel", node, dom, state))
                state = state.with_fact("cancelled", True)
        if isinstance(node, ast.Assign):
            for t in node.targets:
                if ast.unparse(t) == self.own:
                    vals = self.const(node.value, state)
                    self.events.append(("store", node, dom, state, vals))
                    state = state.with_fact("stored", tuple(sorted(vals)) if vals else ("?",))
        return state


def _run_structural(ctx):
    fi, sem, outs, steps = explore_task(ctx)
    idx = ctx.index
    info = scheduler_info(ctx)
    members = local_status_members(ctx)
    construct = f"{fi.module.relpath}::{fi.qual}"
    ctx.note(f"explored {len(outs)} distinct exits of {fi.qual} ({steps} statement visits)")

    # ---------------- R1 final state on every exit
    r1 = ctx.rule("R1", "every exit of the task coroutine leaves a final state in the state table")
    # pairing for escaping CancelledError: cancel_task stores CANCELLED itself
    from ..inline import inlined
    ct = inlined(ctx, idx.func(f"{LOCAL}:Scheduler.cancel_task"))
    csem = CancelSem(ctx, ct, info, members)
    Explorer(csem).run(State())
    cancel_pairs = any(e[0] == "store" and e[4] == frozenset(["CANCELLED"]) for e in csem.events) and any(
        e[0] == "cancel" for e in csem.events)
    groups = {}
    for o in outs:
        vals = o.state.vars.get(sem.own_state, frozenset(members))
        nonfinal = vals - FINAL
        if not nonfinal:
            continue
        exc = o.payload if o.kind == RAISE else None
        if exc is not None and sem.h.is_sub(exc, CANCEL) and cancel_pairs:
            continue  # the canceller stored CANCELLED (R3)
        groups.setdefault((o.kind, exc, tuple(sorted(nonfinal))), o)
    if groups:
        for (kind, exc, nonfinal), o in sorted(groups.items(), key=str):
            how = f"escaping {exc}" if exc else "returning"
            r1.violation(f"{construct}::{exc or 'return'}", f"the coroutine can end ({how}) with the task still {'/'.join(nonfinal)}: "
                         "it, and every task depending on it, then never reaches a final state", fi.where, witness(o.state, fi))
    else:
        r1.ok(construct, f"{len(outs)} exits, all with a final state (escaping CancelledError is covered by cancel_task's store)", fi.where)

    # ---------------- R2 cause <-> state
    r2 = ctx.rule("R2", "the final state matches the cause (cancel->CANCELLED, time-out->KILLED, non-zero exit / cannot start -> FAILED, exit 0 -> COMPLETED)", min_instances=4)
    expect = {
        "asyncio.exceptions.CancelledError": "CANCELLED",
        "builtins.TimeoutError": "KILLED",
        f"{LOCAL}.TaskFailedError": "FAILED",
        "builtins.FileNotFoundError": "FAILED",
        "builtins.PermissionError": "FAILED",
        "builtins.OSError": "FAILED",
        "builtins.KeyError": "FAILED",
    }
    seen_causes = {}
    for o in outs:
        if o.kind != RETURN:
            continue
        cause = o.state.facts.get("cause")
        vals = o.state.vars.get(sem.own_state, frozenset(members))
        if cause is None:
            continue
        cause_n = sem.h.norm(cause)
        want = expect.get(cause_n)
        if want is None:
            continue
        if vals != frozenset([want]):
            key = (cause_n, tuple(sorted(vals)))
            if key not in seen_causes:
                seen_causes[key] = o
                r2.violation(f"{construct}::{cause_n}", f"after {cause_n} the task ends as {'/'.join(sorted(vals))}, expected {want}",
                             fi.where, witness(o.state, fi))
        else:
            seen_causes.setdefault((cause_n, "ok"), o)
    for c in sorted({k[0] for k in seen_causes if k[1] == "ok"}):
        r2.ok(f"{construct}::{c}", f"{c} -> {expect[c]}", fi.where)
    for needed in ("asyncio.exceptions.CancelledError", "builtins.TimeoutError", f"{LOCAL}.TaskFailedError"):
        if not any(k[0] == needed for k in seen_causes):
            r2.violation(f"{construct}::{needed}", f"no path handles {needed}: that outcome has no final state of its own", fi.where)
    rule_exit_status(ctx, r2, fi, sem, outs)
    # COMPLETED only after the process ran
    for o in outs:
        if o.kind == RETURN and o.state.vars.get(sem.own_state) == frozenset(["COMPLETED"]):
            if not (o.state.facts.get("started") and o.state.facts.get("communicated")):
                r2.violation(construct + "::completed-without-run", "COMPLETED is stored on a path where the process was not started and awaited",
                             fi.where, witness(o.state, fi))
                break
    # tid never rebound
    comp_nodes = set()
    for n in walk_no_nested(fi.node):
        if isinstance(n, (ast.ListComp, ast.SetComp, ast.DictComp, ast.GeneratorExp)):
            comp_nodes.update(id(x) for x in ast.walk(n))  # comprehension targets live in their own scope
    rebound = [n for n in walk_no_nested(fi.node) if isinstance(n, ast.Name) and n.id == sem.p_tid and isinstance(n.ctx, ast.Store)
               and id(n) not in comp_nodes]
    r2.check(not rebound, construct + "::tid", "the task id parameter is never rebound in the coroutine",
             f"the task id parameter `{sem.p_tid}` is rebound in the coroutine: states would be stored under another task's id",
             loc(rebound[0], fi.module) if rebound else fi.where)

    # ---------------- R3 cancel guard / run once
    r3 = ctx.rule("R3", "cancel only affects SUBMITTED/RUNNING tasks; a task is started exactly once with a fresh id", min_instances=3)
    cconstruct = f"{ct.module.relpath}::{ct.qual}"
    live = frozenset(members) - FINAL  # SUBMITTED, RUNNING (and the never-stored UNKNOWN)
    n_ev = 0
    for e in csem.events:
        n_ev += 1
        dom = e[2]
        if e[0] == "cancel":
            r3.check(dom <= live, cconstruct + "::cancel()", "worker task cancelled only when SUBMITTED/RUNNING",
                     f"the worker task can be cancelled while the task is {'/'.join(sorted(dom - live))}", loc(e[1], ct.module))
        else:
            bad = dom - live
            r3.check(not bad, cconstruct + "::store", f"state overwritten only when SUBMITTED/RUNNING (stores {sorted(e[4] or [])})",
                     f"cancel overwrites the state of a task that is {'/'.join(sorted(bad))}: a finished task does not keep its final state",
                     loc(e[1], ct.module))
    if n_ev == 0:
        r3.violation(cconstruct, "cancel_task neither cancels the worker task nor stores a state", ct.where)
    from ..inline import inlined as _inl
    enq = _inl(ctx, idx.func(f"{LOCAL}:Scheduler.enqueue_task"))
    econ = f"{enq.module.relpath}::{enq.qual}"
    # who may start the coroutine
    callers = []
    for f in idx.functions.values():
        for n in walk_no_nested(f.node):
            if isinstance(n, ast.Call) and isinstance(n.func, ast.Attribute) and n.func.attr == fi.name:
                callers.append((f, n))
    bad_callers = [c for c in callers if c[0].key != enq.key]
    r3.check(callers and not bad_callers, econ + "::who-may-call", f"{fi.name} is started only by enqueue_task ({len(callers)} site)",
             f"{fi.name} is started from {[c[0].key for c in bad_callers] or 'nowhere'}: a task could be run again", enq.where)
    # no await between create_task and the SUBMITTED store; fresh id
    body = enq.node.body
    created = stored = None
    awaits_between = False
    for i, st in enumerate(body):
        if any(isinstance(c.func, (ast.Name, ast.Attribute)) and (idx.canon(c.func, enq.module) or "").endswith("create_task")
               or (isinstance(c.func, (ast.Name, ast.Attribute)) and idx.canon(c.func, enq.module) == "asyncio.ensure_future") for c in _calls(st)):
            created = i
        if isinstance(st, ast.Assign) and isinstance(st.targets[0], ast.Subscript) and isinstance(st.targets[0].value, ast.Attribute) \
                and st.targets[0].value.attr == info["states"]:
            try:
                v = ctx.ev.eval(st.value, enq.module)
            except CantEval:
                v = None
            if isinstance(v, EnumVal) and v.member == "SUBMITTED":
                stored = i
    if created is not None and stored is not None:
        lo, hi = sorted((created, stored))
        for st in body[lo + 1: hi + 1]:
            if any(isinstance(n, ast.Await) for n in ast.walk(st)):
                awaits_between = True
    if not (created is not None and stored is not None and not awaits_between):
        from .evalhelpers import eval_enqueue
        _o, _m = eval_enqueue(ctx)
        _st = (_o.get("states") or {}).get(7) if "error" not in _o else None
        if isinstance(_st, EnumVal) and _st.member == "SUBMITTED" and 7 in (_o.get("tasks") or {}) and not any(isinstance(n, ast.Await) for n in ast.walk(enq.node)):
            created, stored, awaits_between = 0, 0, False   # decided by evaluating enqueue_task (no await anywhere in it)
    r3.check(created is not None and stored is not None and not awaits_between, econ + "::initial-state",
             "task created and marked SUBMITTED without an await in between",
             "enqueue_task does not mark the new task SUBMITTED atomically with creating it (missing store or an await in between)", enq.where)

    # ---------------- R4 logs
    r4 = ctx.rule("R4", "stdout/stderr of a task that ran to its end are stored completely in .gwf/logs/<name>.stdout/.stderr", min_instances=2)
    by_suffix = {}
    for site in sem.log_list:
        by_suffix.setdefault(site["suffix"], site)
    for suffix, pos in ((".stdout", 0), (".stderr", 1)):
        site = by_suffix.get(suffix)
        c = f"{construct}::log{suffix}"
        if site is None:
            r4.violation(c, f"no write of the {suffix} log found in the task coroutine", fi.where)
            continue
        want = sem.comm_vars[pos] if sem.comm_vars else None
        where = loc(site["stmt"], fi.module)
        ok = True
        if want is None or site["buffer"] != want:
            r4.violation(c, f"the {suffix} log is written from `{site['buffer']}`, not from the {('stdout', 'stderr')[pos]} buffer "
                         f"returned by communicate() (`{want}`)", where)
            ok = False
        if site["mode"] not in ("wb", "bw", "w+b", "wb+"):
            r4.violation(c + "::mode", f"log opened with mode {site['mode']!r}: bytes of the latest run must replace the file (expected 'wb')", where)
            ok = False
        want_path = "⟦PROJ⟧/.gwf/logs/⟦NAME⟧" + suffix
        if site["path"] != want_path:
            r4.violation(c + "::path", f"the log is written to `{site['path']}`, not to <project>/.gwf/logs/<task name>{suffix} ({want_path}) where `gwf logs` reads it", where)
            ok = False
        if ok:
            r4.ok(c, f"{site['buffer']} -> {site['path']} (mode {site['mode']})", where)
    # logs before the failure raise and before COMPLETED
    for o in outs:
        cause = o.state.facts.get("cause")
        if cause and sem.h.norm(cause) == f"{LOCAL}.TaskFailedError":
            lg = o.state.facts.get("logs_at_raise", ())
            if set(lg) != {".stdout", ".stderr"}:
                r4.violation(construct + "::logs-before-failure", f"TaskFailedError is raised before both logs are written (written: {list(lg)}): "
                             "the output of a failing task is lost", fi.where, witness(o.state, fi))
                break
    else:
        r4.ok(construct + "::logs-before-failure", "both logs are written on every path before the failure is raised", fi.where)
    for o in outs:
        if o.kind == RETURN and o.state.vars.get(sem.own_state) == frozenset(["COMPLETED"]):
            got = {k[4:] for k in o.state.facts if k.startswith("log:")}
            if got != {".stdout", ".stderr"}:
                r4.violation(construct + "::logs-on-success", f"a task can complete without both logs written (written: {sorted(got)})",
                             fi.where, witness(o.state, fi))
                break

    from .localpool import rule_enqueue_registers
    rule_enqueue_registers(ctx, r3)
    # "the project's log files": the pool is started for the project directory (where cli.main creates .gwf/logs and `gwf logs` reads), wherever the command is typed
    from .evalhelpers import cached_witness, report_witness, workers_command_witness
    report_witness(r4, "src/gwf/plugins/workers.py::workers::pool-directory", "src/gwf/plugins/workers.py:1", cached_witness(ctx, "workers-cmd", workers_command_witness),
                   "`gwf workers` starts the pool for the project directory of the workflow file", select=lambda d: "project directory" in d or "ends with" in d or "starts the pool" in d and "times" in d)
    und = [o for o in outs if o.state.facts.get("wait_undrained")]
    r4.check(not und, construct + "::drained", "the task's output pipes are read while it runs (communicate(), not a bare wait())",
             f"the coroutine awaits proc.wait() (line {und[0].state.facts.get('wait_undrained') if und else ''}) while the stdout/stderr pipes are not being read: a script that prints more "
             "than the pipe buffer blocks on write and never exits (or is killed by its time limit although it would have finished), and its output is lost",
             fi.where, witness(und[0].state, fi) if und else None)

    wrong = [o for o in outs if o.state.facts.get("state_while_running") not in (None, ("RUNNING",))]
    r2.check(not wrong, construct + "::running", "while its process runs the task's state is RUNNING",
             f"while the process runs the task's state is {wrong[0].state.facts.get('state_while_running') if wrong else ''}, not RUNNING: `gwf status` shows a task that is executing as "
             "submitted (or not at all)", fi.where, witness(wrong[0].state, fi) if wrong else None)

    # ---------------- R5 kill on abort paths
    r5 = ctx.rule("R5", "cancelled and timed-out tasks run the kill sequence on their process", min_instances=2)
    for cause_n, label in (("asyncio.exceptions.CancelledError", "cancellation"), ("builtins.TimeoutError", "time-out")):
        rel = [o for o in outs if o.state.facts.get("cause") and sem.h.norm(o.state.facts["cause"]) == cause_n and o.state.facts.get("started")]
        bad = [o for o in rel if not o.state.facts.get("killed")]
        if not rel:
            r5.violation(f"{construct}::{label}", f"no explored path starts a process and then sees a {label}", fi.where)
        elif bad:
            r5.violation(f"{construct}::{label}", f"after a {label} the started process is not passed to the kill sequence", fi.where,
                         witness(bad[0].state, fi))
        else:
            r5.ok(f"{construct}::{label}", f"{len(rel)} path(s) with a started process, all killed", fi.where)

    # ---------------- R6 group kill
    r6 = ctx.rule("R6", "the kill sequence signals the whole process group of the task and reaps it", min_instances=2)
    gk = inlined(ctx, idx.func(f"{LOCAL}:Scheduler._gentle_kill"), keep={"_signal_process_group"})
    ksem = KillSem(ctx, gk)
    kouts = Explorer(ksem).run(State())
    gcon = f"{gk.module.relpath}::{gk.qual}"
    bad = [o for o in kouts if o.state.vars.get(ksem.proc, frozenset(["PROC"])) != frozenset([None]) and not o.state.facts.get("group")]
    if bad:
        o = bad[0]
        what = "only the shell itself is signalled" if o.state.facts.get("single") else "nothing is signalled"
        r6.violation(gcon, f"the kill sequence can finish for a live process without signalling its process group ({what}): "
                     "children spawned by the script survive", gk.where, witness(o.state, gk))
    else:
        r6.ok(gcon, f"{len(kouts)} exits; every one with a process signals its group", gk.where)
        soft = [o for o in kouts if o.state.vars.get(ksem.proc, frozenset(["PROC"])) != frozenset([None]) and not o.state.facts.get("group_kill")]
        r6.check(not soft, gcon + "::uncatchable", "every exit with a process has sent SIGKILL to the group (whatever the shell's own exit status)",
                 "the kill sequence can finish without ever sending SIGKILL to the process group (e.g. when the shell itself already exited): a child that ignores "
                 "the catchable signal keeps running after the task is reported cancelled/killed and its core is released", gk.where,
                 witness(soft[0].state, gk) if soft else None)
    dn = [o for o in kouts if o.state.facts.get("deref_none")]
    r6.check(not dn, gcon + "::no-process", "with no process started (cancelled while waiting for dependencies or a core) the kill sequence does nothing",
             f"the kill sequence uses `{ksem.proc}` (line {dn[0].state.facts.get('deref_none') if dn else ''}) on a path where no process was started: cancelling a task that is still "
             "waiting raises inside the cancellation handler and the task never reaches a final state", gk.where, witness(dn[0].state, gk) if dn else None)
    notreaped = [o for o in kouts if o.state.vars.get(ksem.proc, frozenset(["PROC"])) != frozenset([None]) and not o.state.facts.get("reaped")]
    r6.check(not notreaped, gcon + "::wait", "every exit with a process awaits proc.wait()",
             "the kill sequence can return without awaiting proc.wait(): the core is released while the process may still run", gk.where,
             witness(notreaped[0].state, gk) if notreaped else None)
    # session/group leader at creation
    leader = False
    site = None
    for n in walk_no_nested(fi.node):
        if isinstance(n, ast.Call) and (idx.canon(n.func, fi.module) or "").startswith("asyncio.create_subprocess_"):
            site = n
            for kw in n.keywords:
                if kw.arg == "start_new_session" and isinstance(kw.value, ast.Constant) and kw.value.value is True:
                    leader = True
                if kw.arg == "process_group" and isinstance(kw.value, ast.Constant) and kw.value.value == 0:
                    leader = True
                if kw.arg == "preexec_fn" and idx.canon(kw.value, fi.module) in ("os.setsid", "os.setpgrp"):
                    leader = True
    r6.check(leader, construct + "::create_subprocess", "task process is started as session/group leader",
             "the task's process is not started in its own session/process group, so a group kill cannot be aimed at it",
             loc(site, fi.module) if site is not None else fi.where)


def dotted_has_param(expr, pname):
    return any(isinstance(n, ast.Name) and n.id == pname for n in ast.walk(expr))


def run(ctx):
    """Structural rules first; the task coroutine evaluated under fault and cancellation injection decides where they do not recognise the shape."""
    from ..loader import AnalysisError
    from .evalhelpers import cached_witness, task_coroutine_witness, cancel_task_witness
    wit = cached_witness(ctx, "task", task_coroutine_witness)
    n0 = len(ctx.rules)
    try:
        _run_structural(ctx)
    except (AnalysisError, Exception) as exc:
        if isinstance(exc, (NameError, ImportError, UnboundLocalError)):
            raise       # a defect of the checker itself, never a reason to fall back
        if wit[2] is not None:
            raise  # neither the structural rules nor the evaluation can follow this code
        r0 = ctx.rule("R0", "the structural rules cannot follow this shape of the task coroutine; decided by evaluation under fault and cancellation injection")
        r0.info("src/gwf/backends/local.py::Scheduler.try_handle_task", f"structural analysis stopped: {type(exc).__name__}: {str(exc)[:120]}")
        for r in ctx.rules[n0:]:
            r.min_instances = 0
    rules = ctx.rules[n0:]
    pred = lambda c: any(k in c for k in ("try_handle_task", "_gentle_kill", "create_subprocess", "kill"))
    ctx.reconcile(rules, pred, wit, "src/gwf/backends/local.py::Scheduler.try_handle_task", "src/gwf/backends/local.py:1")
    cw = cached_witness(ctx, "cancel_task", cancel_task_witness)
    r3 = [r for r in rules if r.id.endswith(".R3")] or rules
    ctx.reconcile(r3, lambda c: "cancel" in c, cw, "src/gwf/backends/local.py::Scheduler.cancel_task", "src/gwf/backends/local.py:1")
    # "failed if ... a dependency failed": the dependencies a task has are the ones gwf submitted it with (ids, 0 included, reach the pool unchanged)
    r7 = ctx.rule("R7", "the dependencies a task waits for are the ones it was submitted with (composition with C11.R4)")
    from .shared import import_rules
    import_rules(ctx, r7, "C11", only={"R4"})
    r9 = ctx.rule("R9", "'reaches a final state and keeps it': the pool never drops a task from its tables")
    from .localpool import rule_tasks_never_forgotten
    rule_tasks_never_forgotten(ctx, r9, "a finished task whose entry is gone no longer has its final state - a state query reports it unknown (and gwf runs it again), a cancel request for it fails")
    r8 = ctx.rule("R8", "'completed iff its process ran and exited 0': the exit status reaches the pool - no code of the package makes the kernel reap children behind asyncio's back (SIGCHLD ignored)")
    from .shared import rule_signal_dispositions
    rule_signal_dispositions(ctx, r8, "C13")
    r10 = ctx.rule("R10", "'the stdout and stderr of a task that ran to its end are stored': stored means they stay - logs are removed by the log cleaning of `gwf run` only (C15.R1)")
    from .shared import import_rules as _imp13
    _imp13(ctx, r10, "C15", only={"R1"}, select=lambda c: c.endswith("::delete"))

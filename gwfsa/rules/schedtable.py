"""Decision table of scheduling.schedule.<locals>._schedule (shared by C02, C05, C06, C17) and the path table of should_run (C01, C06, C18)."""
import ast

from ..consteval import CantEval, EnumVal, enum_members
from ..index import dotted, walk_no_nested, loc
from ..loader import AnalysisError
from ..paths import RAISE, RETURN, Explorer, Semantics, State, fmt_trace

SCHED = "gwf.scheduling"


def _calls(node):
    for n in ast.walk(node):
        if isinstance(n, ast.Call):
            yield n


class SchedSem(Semantics):
    loop_bound = 1

    def __init__(self, ctx, finfo, outer):
        super().__init__(ctx.index, finfo)
        self.ctx = ctx
        self.outer = outer
        op = outer.positional_params()
        # schedule(endpoints, graph, fs, spec_hashes, status_func, submit_func)
        self.status_p = next((p for p in outer.params() if p == "status_func"), op[4] if len(op) > 4 else None)
        self.submit_p = next((p for p in outer.params() if p == "submit_func"), op[5] if len(op) > 5 else None)
        self.graph_p = op[1] if len(op) > 1 else "graph"
        self.target_p = finfo.positional_params()[0]
        self.bmembers = enum_members(ctx.index, ctx.index.cls("gwf.backends.base:BackendStatus"))
        self.aliases = {}
        self.lists = set()
        for n in walk_no_nested(finfo.node):
            if isinstance(n, ast.Assign) and isinstance(n.targets[0], ast.Name) and isinstance(n.value, ast.List) and not n.value.elts:
                self.lists.add(n.targets[0].id)
        self.submit_events = []
        # the dependency loop (a for-loop, or a comprehension that builds the prerequisite list)
        self.dep_loop = None
        self.dep_comp = None  # (Assign node, comprehension)
        self.dep_aliases = {}
        for n in walk_no_nested(finfo.node):
            if isinstance(n, ast.Assign) and isinstance(n.targets[0], ast.Name) and self._iter_all_deps(n.value):
                self.dep_aliases[n.targets[0].id] = True  # sorted_deps = sorted(graph.dependencies[target], ...)
        for n in walk_no_nested(finfo.node):
            if isinstance(n, ast.For) and self._iter_all_deps(n.iter):
                self.dep_loop = n
            if isinstance(n, ast.Assign) and isinstance(n.targets[0], ast.Name) and isinstance(n.value, (ast.ListComp, ast.GeneratorExp)) \
                    and len(n.value.generators) == 1 and self._iter_all_deps(n.value.generators[0].iter):
                self.dep_comp = (n, n.value)
                self.lists.add(n.targets[0].id)
        # result variables: locals that only ever hold Status constants (single-exit style)
        self.smembers = enum_members(ctx.index, ctx.index.cls("gwf.core:Status"))
        self.result_vars = set()
        assigned = {}
        for n in walk_no_nested(finfo.node):
            if isinstance(n, ast.Assign) and len(n.targets) == 1 and isinstance(n.targets[0], ast.Name):
                assigned.setdefault(n.targets[0].id, []).append(n.value)
        for name, vals in assigned.items():
            ok = True
            for v in vals:
                try:
                    ev = ctx.ev.eval(v, finfo.module)
                except CantEval:
                    ok = False
                    break
                if not (isinstance(ev, EnumVal) and ev.cls == "gwf.core.Status"):
                    ok = False
                    break
            if ok and vals:
                self.result_vars.add(name)

    def _iter_all_deps(self, it):
        t = ast.unparse(it)
        base = f"{self.graph_p}.dependencies[{self.target_p}]"
        if t == base or (isinstance(it, ast.Name) and it.id in getattr(self, "dep_aliases", {})):
            return True
        if isinstance(it, ast.Call) and it.args and self.index.canon(it.func, self.module) in ("builtins.sorted", "builtins.list", "builtins.set", "builtins.tuple"):
            return self._iter_all_deps(it.args[0])
        return False

    def _is_status_call(self, expr):
        return isinstance(expr, ast.Call) and isinstance(expr.func, ast.Name) and expr.func.id == self.status_p and \
            len(expr.args) == 1 and dotted(expr.args[0]) == self.target_p

    def domain(self, text):
        if text == f"{self.status_p}({self.target_p})" or text in self.aliases:
            return self.bmembers
        if text in self.lists:
            return ("EMPTY", "NONEMPTY")
        if text in self.result_vars:
            return self.smembers
        return None

    def truthy(self, v):
        return v not in ("EMPTY", None, False)

    def const(self, expr, state):
        t = ast.unparse(expr)
        if t in state.vars:
            return state.vars[t]
        if isinstance(expr, ast.List) and not expr.elts:
            return frozenset(["EMPTY"])
        try:
            v = self.ctx.ev.eval(expr, self.module)
        except CantEval:
            return None
        if isinstance(v, EnumVal):
            return frozenset([v.member])
        if isinstance(v, (tuple, list, set, frozenset)) and v and all(isinstance(x, EnumVal) for x in v):
            return frozenset(x.member for x in v)
        return None

    def assign(self, target_text, value_expr, state):
        if value_expr is not None and self._is_status_call(value_expr):
            self.aliases[target_text] = True
            return state.vars.get(ast.unparse(value_expr), frozenset(self.bmembers))
        if self.dep_comp is not None and value_expr is self.dep_comp[1]:
            return frozenset(["EMPTY", "NONEMPTY"])
        return self.const(value_expr, state) if value_expr is not None else None

    def may_raise(self, node, state):
        return []

    def _assign_alias_pre(self, node):
        if isinstance(node, ast.Assign) and isinstance(node.targets[0], ast.Name) and self._is_status_call(node.value):
            self.aliases[node.targets[0].id] = True

    def effect(self, node, state):
        if isinstance(node, tuple):
            return state
        s = state
        self._assign_alias_pre(node)
        if self.dep_comp is not None and node is self.dep_comp[0]:
            s = s.with_fact("loop_done", True)
        for c in _calls(node):
            f = c.func
            if isinstance(f, ast.Name) and f.id == self.submit_p:
                n = s.facts.get("submits", 0) + 1
                deps_arg = None
                for kw in c.keywords:
                    if kw.arg == "dependencies":
                        deps_arg = kw.value
                if deps_arg is None and len(c.args) > 1:
                    deps_arg = c.args[1]
                tgt_ok = bool(c.args) and dotted(c.args[0]) == self.target_p
                s = s.with_fact("submits", n).with_fact("deps_arg", ast.unparse(deps_arg) if deps_arg is not None else None)
                s = s.with_fact("tgt_ok", tgt_ok).with_fact("loop_before_submit", bool(s.facts.get("loop_done"))).note(node, "submit")
                self.submit_events.append((c, s))
            elif isinstance(f, ast.Name) and f.id == self.status_p and s.facts.get("submits"):
                s = s.with_fact("status_after_submit", True)
            elif (self.index.canon(f, self.module) if isinstance(f, (ast.Name, ast.Attribute)) else None) == f"{SCHED}.should_run":
                if s.facts.get("submits"):
                    s = s.with_fact("status_after_submit", True)
            elif isinstance(f, ast.Attribute) and f.attr in ("append", "add", "extend") and dotted(f.value) in self.lists:
                s = s.with_var(dotted(f.value), ["NONEMPTY"]).with_fact("appended", ast.unparse(c.args[0]) if c.args else None)
        return s

    def test_hook(self, expr, state):
        c = expr
        neg = False
        if isinstance(c, ast.UnaryOp) and isinstance(c.op, ast.Not):
            c, neg = c.operand, True
        if isinstance(c, ast.Call) and isinstance(c.func, (ast.Name, ast.Attribute)) and self.index.canon(c.func, self.module) == f"{SCHED}.should_run":
            pending = state.vars.get(next(iter(self.lists), ""), None)
            return [(True ^ neg, state.with_fact("stale", True)), (False ^ neg, state.with_fact("stale", False))]
        return None

    def enter_loop(self, node, state):
        return True, True

    def on_return(self, node, state):
        return state


def explore_schedule(ctx):
    if "sched_table" in ctx.shared:
        return ctx.shared["sched_table"]
    idx = ctx.index
    outer = idx.func(f"{SCHED}:schedule")
    inner = None
    for name, f in outer.nested.items():
        # the decision function is the nested function that calls submit_func
        for c in _calls(f.node):
            if isinstance(c.func, ast.Name) and c.func.id in ("submit_func",) or (isinstance(c.func, ast.Name) and c.func.id in outer.params()
                                                                                    and c.func.id not in ("status_func",) and "submit" in c.func.id):
                inner = f
    if inner is None:
        raise AnalysisError("decision function inside scheduling.schedule (the nested function calling submit_func) not found")
    sem = SchedSem(ctx, inner, outer)

    class Ex(Explorer):
        def s_For(self, st, state):
            outs = super().s_For(st, state)
            if st is sem.dep_loop:
                outs = [type(o)(o.kind, o.state.with_fact("loop_done", True) if o.kind == "next" else o.state, o.payload, o.node) for o in outs]
            return outs

    ex = Ex(sem)
    outs = ex.run(State())
    rows = []
    for o in outs:
        if o.kind != RETURN:
            rows.append({"kind": o.kind, "payload": str(o.payload), "state": o.state})
            continue
        ret = None
        if o.payload is not None:
            if isinstance(o.payload, ast.Name) and o.payload.id in o.state.vars and len(o.state.vars[o.payload.id]) == 1:
                ret = next(iter(o.state.vars[o.payload.id]))
            else:
                try:
                    v = ctx.ev.eval(o.payload, inner.module)
                    ret = v.member if isinstance(v, EnumVal) else None
                except CantEval:
                    ret = None
        bs = None
        for k, v in o.state.vars.items():
            if k == f"{sem.status_p}({sem.target_p})" or k in sem.aliases:
                bs = v if bs is None else (bs & v)
        if bs is None:
            bs = frozenset(sem.bmembers)
        deps = None
        for l in sem.lists:
            deps = o.state.vars.get(l, frozenset(["EMPTY", "NONEMPTY"]))
        rows.append({
            "kind": RETURN, "backend": bs, "deps": deps, "stale": o.state.facts.get("stale"), "submits": o.state.facts.get("submits", 0),
            "ret": ret, "state": o.state, "loop_done": bool(o.state.facts.get("loop_done")),
        })
    ctx.shared["sched_table"] = (outer, inner, sem, rows)
    return ctx.shared["sched_table"]


# the oracle of the property statement (C02): backend state x deps pending x stale -> (submits, shown status)
def oracle(b, deps_pending, stale):
    if b == "SUBMITTED":
        return 0, "SUBMITTED"
    if b == "RUNNING":
        return 0, "RUNNING"
    if b == "FAILED":
        return 1, "FAILED"
    if b == "CANCELLED":
        return 1, "CANCELLED"
    if deps_pending:
        return 1, "SHOULDRUN"
    if stale:
        return 1, "SHOULDRUN"
    return 0, "COMPLETED"


def rule_decision_table(ctx, r):
    """Decision table of schedule(): abstract exploration when the code shape is recognised, and in any case the concrete witness
    evaluation of schedule() against the oracle written from the property text (evalhelpers.schedule_witness)."""
    from .evalhelpers import cached_witness, schedule_witness
    full = ctx.tier == "thorough" and ctx.prop == "C02"
    ctx.structural_or_witness(r, _decision_table_structural, lambda: cached_witness(ctx, "schedule-full" if full else "schedule", lambda c: schedule_witness(c, full=full)),
                              "src/gwf/scheduling.py::schedule", both=True)


def _decision_table_structural(ctx, r):
    try:
        outer, inner, sem, rows = explore_schedule(ctx)
    except Exception as exc:  # the shape rule cannot follow this code: the witness evaluation decides
        r.violation("src/gwf/scheduling.py::schedule", f"the decision function of schedule() is not in a shape the table extraction recognises ({type(exc).__name__}: {exc})",
                    "src/gwf/scheduling.py:1")
        return
    con = f"{inner.module.relpath}::{inner.qual}"
    n_cells = 0
    bad = {}
    cover = set()
    for row in rows:
        if row["kind"] != RETURN:
            bad.setdefault(("raise",), (row, f"the decision function can end with {row['kind']} {row['payload']}"))
            continue
        for b in sorted(row["backend"]):
            for d in sorted(row["deps"] or ["EMPTY", "NONEMPTY"]):
                stales = [row["stale"]] if row["stale"] is not None else [True, False]
                for st in stales:
                    n_cells += 1
                    cover.add((b, d, st))
                    want = oracle(b, d == "NONEMPTY", st)
                    got = (row["submits"], row["ret"])
                    if got != want:
                        bad.setdefault((b, d, st), (row, f"backend state {b}, {'some' if d == 'NONEMPTY' else 'no'} dependency pending, "
                                                         f"{'stale' if st else 'fresh'}: code gives {got[0]} submit(s) and shows {got[1]}, "
                                                         f"the property requires {want[0]} submit(s) and {want[1]}"))
                    # should_run must not be evaluated when deps are pending (its inputs may not exist yet)
                    if d == "NONEMPTY" and b in ("UNKNOWN", "COMPLETED") and row["stale"] is not None:
                        bad.setdefault(("stale-eval", b), (row, "should_run() is evaluated although a dependency is pending: its input files may not exist yet "
                                                                "(FileNotFoundError instead of a submission)"))
    want_cells = {(b, d, st) for b in sem.bmembers for d in ("EMPTY", "NONEMPTY") for st in (True, False)}
    missing = want_cells - cover
    if missing:
        b, d, st = sorted(missing, key=str)[0]
        bad.setdefault(("missing",), (None, f"no path covers backend state {b} with deps {d}: the decision function does not return for it"))
    for key, (row, msg) in sorted(bad.items(), key=str):
        r.violation(f"{con}::{'/'.join(map(str, key))}", msg, inner.where, fmt_trace(row["state"], inner.module) if row else None)
    if not bad:
        r.ok(con, f"{len(rows)} paths cover all {len(want_cells)} cells (6 backend states x deps pending x stale) and agree with the oracle", inner.where)
    return rows


def _submit_discipline_structural(ctx, r):
    """At most one submit per path; nothing is evaluated after it; the submit passes the list built in the dependency loop."""
    outer, inner, sem, rows = explore_schedule(ctx)
    con = f"{inner.module.relpath}::{inner.qual}"
    multi = [row for row in rows if row["kind"] == RETURN and row["submits"] > 1]
    r.check(not multi, con + "::once", "at most one submit per decision", "a path submits the target more than once", inner.where,
            fmt_trace(multi[0]["state"], inner.module) if multi else None)
    after = [row for row in rows if row["kind"] == RETURN and row["state"].facts.get("status_after_submit")]
    r.check(not after, con + "::nothing-after-submit", "no status/staleness query after the submit",
            "the backend status or staleness is queried after the target was submitted (the submit changed it: the shown status is no longer the one that decided)",
            inner.where, fmt_trace(after[0]["state"], inner.module) if after else None)
    lst = next(iter(sem.lists), None)
    wrong = [row for row in rows if row["kind"] == RETURN and row["submits"] and (row["state"].facts.get("deps_arg") != lst or not row["state"].facts.get("tgt_ok"))]
    r.check(not wrong and lst is not None, con + "::prerequisite-list", f"every submit passes dependencies={lst}",
            f"a submit does not pass the list of pending dependencies built in the dependency loop (passes "
            f"{wrong[0]['state'].facts.get('deps_arg') if wrong else None})", inner.where, fmt_trace(wrong[0]["state"], inner.module) if wrong else None)
    early = [row for row in rows if row["kind"] == RETURN and row["submits"] and not row["state"].facts.get("loop_before_submit")]
    r.check(not early, con + "::deps-first", "the dependency loop completes before any submit",
            "the target can be submitted before its dependencies were decided (and submitted)", inner.where,
            fmt_trace(early[0]["state"], inner.module) if early else None)
    skipped = [row for row in rows if row["kind"] == RETURN and not row["loop_done"]]
    if sem.dep_loop is None and sem.dep_comp is None:
        r.violation(con + "::visits-all-deps", "no loop over all of graph.dependencies[target] found: dependencies are not decided before the target", inner.where)
    else:
        r.check(not skipped, con + "::visits-all-deps", "every path decides all dependencies first (also for targets that are already pending/running)",
                f"a path returns (showing {skipped[0]['ret'] if skipped else ''}) without visiting the target's dependencies: a failed, cancelled or stale "
                "dependency that is only reachable through this target is never resubmitted", inner.where,
                fmt_trace(skipped[0]["state"], inner.module) if skipped else None)


# ============================================================================ should_run
class ShouldRunSem(Semantics):
    loop_bound = 1

    def xt(self, expr):
        """Text of an expression with hoisted locals (outputs = target.flattened_outputs()) expanded."""
        from ..astutil import expand
        return expand(self.finfo.node, expr, self._table)

    def __init__(self, ctx, finfo):
        super().__init__(ctx.index, finfo)
        from ..astutil import single_assignments
        self._table = single_assignments(finfo.node)
        self.ctx = ctx
        p = finfo.positional_params()
        self.target_p, self.fs_p, self.hashes_p = p[0], p[1], p[2]
        self.hash_vars = set()
        self.in_ts = set()
        self.out_ts = set()
        self.events = []
        for n in walk_no_nested(finfo.node):
            if isinstance(n, ast.Assign):
                names = []
                t = n.targets[0]
                if isinstance(t, ast.Name):
                    names = [t.id]
                elif isinstance(t, ast.Tuple) and t.elts and isinstance(t.elts[0], ast.Name):
                    names = [t.elts[0].id]
                txt = self.xt(n.value)
                if f"{self.hashes_p}.has_changed(" in txt:
                    self.hash_vars.update(names)
                agg = self._aggregate(n.value)
                if agg:
                    (self.in_ts if agg[1] == "inputs" else self.out_ts).update(names)

    def _aggregate(self, expr):
        """('max'|'min', 'inputs'|'outputs', call) if expr is max/min over changed_at of all flattened inputs/outputs."""
        if isinstance(expr, ast.Call) and isinstance(expr.func, ast.Name) and expr.func.id in ("max", "min") and \
                self.index.canon(expr.func, self.module) in ("builtins.max", "builtins.min"):
            txt = self.xt(expr)
            which = "inputs" if f"{self.target_p}.flattened_inputs()" in txt else "outputs" if f"{self.target_p}.flattened_outputs()" in txt else None
            if which:
                return expr.func.id, which, expr
        return None

    def domain(self, text):
        if text in self.hash_vars or text == f"{self.hashes_p}.has_changed({self.target_p})":
            return ("NONE", "HASH")
        return None

    def truthy(self, v):
        return v not in ("NONE", "EMPTY", None, False)

    def const(self, expr, state):
        t = ast.unparse(expr)
        if t in state.vars:
            return state.vars[t]
        if isinstance(expr, ast.Constant) and expr.value is None:
            return frozenset(["NONE"])
        return None

    def assign(self, target_text, value_expr, state):
        if target_text in self.hash_vars:
            return frozenset(["NONE", "HASH"])
        return None

    def may_raise(self, node, state):
        return []

    def effect(self, node, state):
        if isinstance(node, tuple):
            return state
        s = state
        for c in _calls(node):
            txt = self.xt(c)
            if txt.startswith(f"{self.hashes_p}.has_changed("):
                s = s.with_fact("hash_first", not any(k in s.facts for k in ("exists_test", "agg_inputs", "agg_outputs")))
            agg = self._aggregate(c)
            if agg:
                s = s.with_fact("agg_" + agg[1], (agg[0], bool(s.facts.get("exist_loop_done"))))
        return s

    def test_hook(self, expr, state):
        e, neg = expr, False
        if isinstance(e, ast.UnaryOp) and isinstance(e.op, ast.Not):
            e, neg = e.operand, True
        txt = self.xt(e)
        if isinstance(e, ast.Call) and txt.startswith(f"{self.fs_p}.exists("):
            return [(True ^ neg, state.with_fact("exists_test", True)), (False ^ neg, state.with_fact("exists_test", True).with_fact("missing", True))]
        if txt in (f"{self.target_p}.flattened_outputs()", f"{self.target_p}.outputs", f"len({self.target_p}.flattened_outputs())"):
            return [(True ^ neg, state.with_fact("no_outputs", False)), (False ^ neg, state.with_fact("no_outputs", True))]
        if isinstance(e, ast.Compare) and len(e.ops) == 1 and isinstance(e.ops[0], (ast.Eq, ast.NotEq)) and txt.replace(" ", "") in (
                f"len({self.target_p}.flattened_outputs())==0", f"len({self.target_p}.flattened_outputs())!=0"):
            empty_when_true = isinstance(e.ops[0], ast.Eq)
            return [(True ^ neg, state.with_fact("no_outputs", empty_when_true)), (False ^ neg, state.with_fact("no_outputs", not empty_when_true))]
        if isinstance(e, ast.Compare) and len(e.ops) == 1 and isinstance(e.ops[0], (ast.Gt, ast.Lt, ast.GtE, ast.LtE)):
            names = {dotted(e.left), dotted(e.comparators[0])}
            if names & self.in_ts and names & self.out_ts:
                return [(True ^ neg, state.with_fact("newer", True)), (False ^ neg, state.with_fact("newer", False))]
        return None


def explore_should_run(ctx):
    if "should_run_paths" in ctx.shared:
        return ctx.shared["should_run_paths"]
    fi = ctx.index.func(f"{SCHED}:should_run")
    sem = ShouldRunSem(ctx, fi)

    class Ex(Explorer):
        def s_For(self, st, state):
            outs = super().s_For(st, state)
            txt = sem.xt(st.iter)
            if f"{sem.target_p}.flattened_outputs()" in txt and f"{sem.fs_p}.exists(" in ast.unparse(st):
                outs = [type(o)(o.kind, o.state.with_fact("exist_loop_done", True) if o.kind == "next" else o.state, o.payload, o.node) for o in outs]
            return outs

    outs = Ex(sem).run(State())
    ctx.shared["should_run_paths"] = (fi, sem, outs)
    return fi, sem, outs


def _schedule_w(ctx):
    from .evalhelpers import cached_witness, schedule_witness
    return cached_witness(ctx, "schedule", lambda c: schedule_witness(c, full=False))


def rule_submit_discipline(ctx, r):
    rule_submit_owner(ctx, r)
    return ctx.guarded(r, _submit_discipline_structural, _schedule_w(ctx), "src/gwf/scheduling.py::schedule")


def rule_submit_owner(ctx, r):
    """The functions that submit (or pretend to) are invoked by the decision procedure only: they are handed to schedule() as its submit_func
    and never called from anywhere else, so no target reaches the backend without having been decided, with prerequisites from the map in force."""
    idx, res = ctx.index, ctx.resolver
    n = 0
    for key in ("gwf.scheduling:submit_backend", "gwf.scheduling:_submit_dryrun"):
        try:
            f = idx.func(key)
        except Exception:
            continue
        for caller, call in res.call_sites(f):
            inside = caller.key.startswith("gwf.scheduling:schedule") or caller.key.startswith("gwf.scheduling:_schedule") or \
                res.owned_by(caller, ["gwf.scheduling:schedule"])
            n += 1
            r.check(inside, f"{caller.module.relpath}::{caller.qual}::calls-{f.name}", "called from the decision procedure",
                    f"{caller.qual} calls {f.name} itself (line {call.lineno}), outside schedule(): that target is submitted without the decision table having been "
                    "consulted for it at that moment - an up-to-date, pending or already submitted target can be submitted (again), with prerequisites computed from "
                    "a status map the earlier submissions have made stale", f"{caller.module.relpath}:{call.lineno}")
    r.ok("src/gwf/scheduling.py::submit-functions", f"submit_backend/_submit_dryrun are only handed to schedule() as submit_func ({n} direct call sites, all inside it)", "src/gwf/scheduling.py:1")

"""C06 - convergence (necessary chain only): the links without which a successful run cannot leave everything complete.

The fixpoint itself quantifies over run-time mtimes and scheduler histories and is NOT decided here (see DESIGN 4/C06);
every link below is a necessary condition: breaking it breaks convergence or the perturbation clause.
"""
from .shared import import_rules


def run(ctx):
    l1 = ctx.rule("L1", "each backend's success code maps to COMPLETED/UNKNOWN, live codes stay live (state tables of C08)", min_instances=60)
    import_rules(ctx, l1, "C08", only={"R1"})
    l2 = ctx.rule("L2", "a finished or unknown job falls through to the file-based decision; stale or pending-dependency targets are submitted (decision table of C02)")
    import_rules(ctx, l2, "C02", only={"R1", "R1b"})
    l3 = ctx.rule("L3", "the staleness test is strict and over all files: outputs written in the same tick as inputs are up to date; a modified source is noticed", min_instances=5)
    import_rules(ctx, l3, "C01", only={"R1", "R2", "R3", "R4", "R6"})
    l4 = ctx.rule("L4", "an accepted submission is recorded and marked SUBMITTED, so the same run / the next run does not submit it again", min_instances=6)
    import_rules(ctx, l4, "C08", only={"R2"})
    l5 = ctx.rule("L5", "the dependency relation is the file relation (normalised paths, order independent), so 'everything downstream' is well defined", min_instances=8)
    import_rules(ctx, l5, "C03", only={"R1", "R2"})
    l6 = ctx.rule("L6", "prerequisites delay execution: incomplete dependencies are listed, translated to ids and reach the scheduler", min_instances=10)
    import_rules(ctx, l6, "C02", only={"R2", "R3", "R5"})
    import_rules(ctx, l6, "C07", only={"R1", "R3"})
    l7 = ctx.rule("L7", "with spec hashing on, the record made by an accepted submission is the one the next invocation computes for the unchanged target, and it survives the invocation (spec clause of C01)", min_instances=3)
    import_rules(ctx, l7, "C01", only={"R7"})
    from .persist import rule_table_ownership
    rule_table_ownership(ctx, l4, ("tracked jobs",))
    l8 = ctx.rule("L8", "'the backend executes every submitted job successfully, each job creating its declared outputs': the job runs in the target's working directory (where the "
                  "next status looks for the relative paths), and each submit command is started once (a second copy of a job rewrites outputs after its dependents ran)", min_instances=4)
    import_rules(ctx, l8, "C10", only={"R1"}, select=lambda c: "::cd" in c)
    import_rules(ctx, l8, "C09", only={"R3"}, select=lambda c: c.endswith("::once"))

"""Template evaluations of small effect-free-except-hooked methods (shared by several rules).

Every external effect is a hook that only records an event; the evaluated code itself is never run by Python."""
import ast

from ..consteval import EnumVal
from ..index import ClassInfo
from ..symeval import Obj, PureInterp, Raised, Unsupported, tok

PROJ = tok("PROJ")


def make_instance(ctx, ci, _name="obj", _interp=None, **given):
    """A symbolic instance of a repository class: the attributes given, every other declared field at its declared default / factory value
    (so a field added for bookkeeping - a dirty flag, a cache, a counter - exists, as it would after the real constructor)."""
    interp = _interp or PureInterp(ctx)
    o = Obj(_name, **{"__class__": ci})
    try:
        interp._bind_fields(o, ci, (), {k.lstrip("_"): v for k, v in given.items()})
    except Exception:
        pass
    for k, v in given.items():
        setattr(o, k, v)
    # fields whose default is computed by a decorated method (`@field.default`): as attrs does, in field order, from the values bound so far
    have = o.__dict__["_attrs"]
    for fname, _ann, _value in ci.fields:
        if fname in have:
            continue
        for m in ci.methods.values():
            if any((d or "").endswith(f"{fname}.default") for d in m.decorator_names()):
                try:
                    setattr(o, fname, interp.call(m, (), {}, self_obj=o))
                except (Raised, Unsupported):
                    pass
    return o


def make_target(ctx, name, spec="", options=None, inputs=None, outputs=None, working_dir="/w", **more):
    return make_instance(ctx, ctx.index.cls("gwf.core:Target"), "target", name=name, spec=spec, options=dict(options or {}), inputs=list(inputs or []),
                         outputs=list(outputs or []), working_dir=working_dir, protect=set(), group=None, **more)


def target_obj(ctx, **kw):
    """A target stand-in without class (its methods are hooks of the witness that uses it) that nevertheless carries every attribute a real Target
    has: the fields of gwf.core.Target at their declared defaults, then the usual ones, then what the witness gives."""
    cache = ctx.shared.setdefault("_target_defaults", {})
    if "v" not in cache:
        try:
            tmp = make_instance(ctx, ctx.index.cls("gwf.core:Target"), "target")
            cache["v"] = {k: v for k, v in tmp.__dict__["_attrs"].items() if k != "__class__" and not k.startswith("_args") and not k.startswith("_kwargs")}
        except Exception:
            cache["v"] = {}
    import copy
    attrs = copy.deepcopy(cache["v"])
    attrs.update(spec="", options={}, inputs=[], outputs=[], working_dir="/w", protect=set(), group=None)
    attrs.update(kw)
    o = Obj("target", **attrs)
    # fields computed from the others by a decorated default method (a cached hash, a derived name): evaluated on the stand-in as attrs would at construction
    try:
        ci = ctx.index.cls("gwf.core:Target")
        derived = [(f_[0], m) for f_ in ci.fields for m in ci.methods.values() if any((d or "").endswith(f"{f_[0]}.default") for d in m.decorator_names())]
    except Exception:
        derived = []
    if derived:
        interp = PureInterp(ctx, hooks=dict(HASH_HOOKS))
        for fname, m in derived:
            if fname not in kw:
                try:
                    setattr(o, fname, interp.call(m, (), {}, self_obj=o))
                except (Raised, Unsupported):
                    pass
    return o


def ctx_obj(ctx, **kw):
    """Stand-in for gwf.core.Context: the given attributes, the class's own properties (config_dir, logs_dir ...) and placeholders for the rest."""
    try:
        ci = ctx.index.cls("gwf.core:Context")
    except Exception:
        ci = None
    attrs = {"working_dir": "/p", "config": {}, "backend": "B", "workflow_file": "workflow.py", "workflow_obj": "gwf"}
    attrs.update(kw)
    if type(attrs.get("config")) is dict:
        attrs["config"] = config_obj(ctx, attrs["config"], str(attrs.get("working_dir")))
    if ci is not None:
        attrs["__class__"] = ci
    return Obj("ctx", **attrs)


def config_obj(ctx, user, working_dir="/p"):
    """The project configuration as `cli.main` builds it: an instance of the package's configuration class holding the user's keys layered over the built-in
    defaults (so get / [] / get_namespace / items are the package's own).  If the package has no such class any more, the plain mapping."""
    from collections import ChainMap
    try:
        ci = ctx.index.cls("gwf.conf:FileConfig")
        defaults = ctx.ev.eval(ast.parse("CONFIG_DEFAULTS", mode="eval").body, ctx.index.repo.module("gwf.conf"))
        if not isinstance(defaults, dict) or not {"path", "data"} <= {f_[0] for f_ in ci.fields}:
            return user
    except Exception:
        return user
    return make_instance(ctx, ci, "config", path=working_dir + "/.gwfconf.json", data=ChainMap(dict(user), dict(defaults)))


def template_obj(ctx, **kw):
    """Stand-in for gwf.core.AnonymousTarget (what a template function returns), class-backed so that attrs.asdict / fields / evolve see its declared fields."""
    try:
        ci = ctx.index.cls("gwf.core:AnonymousTarget")
    except Exception:
        ci = None
    if ci is None:
        return Obj("template", **kw)
    # built the way attrs builds it: the arguments the template function passes bind the declared fields, every other field gets its declared default, and each
    # field's converter runs on whatever value it got (a working_dir that is not given stays at the class's default - after its converter)
    o = Obj("template", **{"__class__": ci})
    given = {k: v for k, v in kw.items() if not (k == "working_dir" and v is None)}
    declared = {f_[0] for f_ in ci.fields}
    try:
        PureInterp(ctx)._bind_fields(o, ci, (), {k: v for k, v in given.items() if k in declared})
    except (Raised, Unsupported):
        pass
    for k, v in kw.items():
        if k not in declared or k not in o.__dict__["_attrs"]:
            setattr(o, k, v)
    return o


def click_defaults(ctx, fn):
    """{parameter name: value click passes when the option/argument is not given} read from the command's click.option / click.argument decorators."""
    idx = ctx.index
    out = {}
    for d in ctx.index.expanded_decorators(fn):
        if not isinstance(d, ast.Call):
            continue
        canon = idx.canon(d.func, fn.module) or ""
        if canon not in ("click.option", "click.argument"):
            continue
        names = [a.value for a in d.args if isinstance(a, ast.Constant) and isinstance(a.value, str)]
        kw = {k.arg: k.value for k in d.keywords if k.arg}

        def const(node, dflt):
            if node is None:
                return dflt
            try:
                return ctx.ev.eval(node, fn.module)
            except Exception:
                return dflt
        bare = [n for n in names if not n.startswith("-")]
        longs = [n for n in names if n.startswith("--")]
        shorts = [n for n in names if n.startswith("-") and not n.startswith("--")]
        pname = bare[0] if bare else (max(longs, key=len)[2:] if longs else shorts[0][1:] if shorts else None)
        if pname is None:
            continue
        pname = pname.split("/")[0].strip().replace("-", "_").lower()
        if canon == "click.argument":
            out[pname] = () if const(kw.get("nargs"), 1) == -1 else const(kw.get("default"), None)
        else:
            is_flag = const(kw.get("is_flag"), False) or any("/" in n for n in longs)
            multiple = const(kw.get("multiple"), False)
            out[pname] = const(kw.get("default"), False if is_flag else (() if multiple else None))
            tnode = kw.get("type")
            if isinstance(tnode, ast.Call) and (idx.canon(tnode.func, fn.module) or "") in ("click.Path", "click.types.Path") and isinstance(out[pname], str) \
                    and any(k.arg == "path_type" and (idx.canon(k.value, fn.module) or "").startswith("pathlib.") for k in tnode.keywords):
                out[pname] = PathTok(out[pname])      # click converts the value (the default too) to the declared path type
        if "callback" in kw:
            try:
                v_ = click_callback(ctx, fn, d, out[pname], pname)
                if not (isinstance(v_, tuple) and v_ and v_[0] == "rejected"):
                    out[pname] = v_
            except Exception:
                pass
    return out


def click_callback(ctx, fn, deco, value, pname="param"):
    """click passes every parameter value (given or default) through the option's callback=, if it declares one, and hands the command what the callback RETURNS.
    -> the value after the callback; ('rejected', why) when the callback raises click.BadParameter / UsageError."""
    cb = next((k.value for k in deco.keywords if k.arg == "callback"), None)
    if cb is None:
        return value
    interp = PureInterp(ctx, hooks={"multiprocessing.cpu_count": lambda: 3, "os.cpu_count": lambda: 3, "os.sched_getaffinity": lambda pid=0: {0, 1, 2}, "os.process_cpu_count": lambda: 3})
    try:
        f = interp.eval(cb, {}, fn.module)
        return interp.apply(f, [Obj("click_context", params={}, obj=None, resilient_parsing=False), Obj("click_param", name=pname, opts=[], human_readable_name=pname), value], {}, 0)
    except Raised as exc:
        if exc.kind in ("BadParameter", "UsageError", "BadOptionUsage", "Abort", "Exit"):
            return ("rejected", f"{exc.kind}: {exc.detail}")
        raise
    except Unsupported:
        return value


def call_command(ctx, interp, fn, args):
    """Call a click command body with `args` bound positionally and every further parameter set to what click passes when the option is not given
    (a new option with a default leaves the evaluated invocations meaningful)."""
    names = fn.positional_params()
    extra = {}
    if len(names) > len(args):
        dflt = click_defaults(ctx, fn)
        for n in names[len(args):]:
            if n in dflt:
                extra[n] = dflt[n]
    return interp.call(fn, tuple(args), extra)


def file_hooks(events, disk=None, existing=()):
    """Hooks modelling open/json.dump/json.load/os.replace as recorded events.  `existing`: paths that are there already (exclusive creation fails on them)."""
    import os as _os
    existing = set(existing)

    def h_open(path, mode="r", *a, **k):
        mode = k.get("mode", mode)
        if "x" in str(mode) and str(path) in existing:
            raise Raised("FileExistsError", str(path))
        events.append(("open", str(path), mode))
        return Obj("file", path=str(path), mode=mode)

    def h_os_open(path, flags=0, mode=0o777, *a, **k):
        if isinstance(flags, int) and flags & _os.O_EXCL and str(path) in existing:
            raise Raised("FileExistsError", f"[Errno 17] File exists: {path}")
        wr = isinstance(flags, int) and flags & (_os.O_WRONLY | _os.O_RDWR)
        events.append(("open", str(path), "w" if wr else "r"))
        return Obj("fd", path=str(path))

    def h_dump(data, fobj, *a, **k):
        events.append(("dump", dict(data) if isinstance(data, dict) else data, getattr(fobj, "path", None)))

    def h_load(fobj, *a, **k):
        events.append(("load", getattr(fobj, "path", None)))
        return dict(disk) if disk is not None else {}

    def h_replace(src, dst, *a, **k):
        events.append(("replace", str(src), str(dst)))

    def h_named_tmp(mode="w+b", *a, **k):
        # tempfile.NamedTemporaryFile / mkstemp: without dir= the file is created in $TMPDIR, which on clusters is usually another file system than the project
        d = k.get("dir")
        path = (str(d) if d is not None else tok("TMPDIR")) + "/" + str(k.get("prefix") or "tmp") + tok("RND") + str(k.get("suffix") or "")
        mode = k.get("mode", mode)
        events.append(("open", path, mode))
        return Obj("file", path=path, mode=mode, name=path)

    def h_mkstemp(suffix=None, prefix=None, dir=None, text=False, **k):
        path = (str(dir) if dir is not None else tok("TMPDIR")) + "/" + str(prefix or "tmp") + tok("RND") + str(suffix or "")
        return (Obj("fd", path=path), path)

    def h_fdopen(fd, mode="r", *a, **k):
        path = getattr(fd, "path", tok("FD"))
        events.append(("open", path, k.get("mode", mode)))
        return Obj("file", path=path, mode=k.get("mode", mode), name=path)

    return {"gwf.core.hash_spec": lambda spec: "H(" + str(spec) + ")", "builtins.open": h_open, "os.open": h_os_open, "os.close": lambda fd: None,
            "tempfile.NamedTemporaryFile": h_named_tmp, "tempfile.mkstemp": h_mkstemp, "os.fdopen": h_fdopen, "tempfile.gettempdir": lambda: tok("TMPDIR"),
            "os.fsync": lambda *a, **k: None, "attr:flush": lambda recv, *a: None, "attr:fileno": lambda recv, *a: Obj("fd", path=getattr(recv, "path", None)), "json.dump": h_dump, "json.load": h_load, "os.replace": h_replace, "os.rename": h_replace,
            "attr:write": lambda recv, *a: events.append(("write", getattr(recv, "path", None), a[0] if a else None)),
            "attr:close": lambda recv, *a: events.append(("ops.close",)) if isinstance(recv, Obj) and recv._name == "ops" else (
                events.append(("close", getattr(recv, "path", None))) if isinstance(recv, Obj) and recv._name == "file" else None)}


def tracking_backend(ctx, tracked, states, ops_hooks=None):
    idx = ctx.index
    tb = idx.cls("gwf.backends.base:TrackingBackend")
    ops = Obj("ops", target_defaults={})
    obj = Obj("backend", working_dir=PROJ, name="NAME", ops=ops, _tracked_jobs=dict(tracked), _job_states=dict(states), **{"__class__": tb})
    return tb, obj


def S(member):
    return EnumVal("gwf.backends.base.BackendStatus", member)


def eval_submit(ctx, id_a=None, id_b=None):
    """TrackingBackend.submit on symbolic ids: (ids handed to ops, tracked table after, state table after) or an error string."""
    id_a = tok("ID_A") if id_a is None else id_a
    id_b = tok("ID_B") if id_b is None else id_b
    tb, obj = tracking_backend(ctx, {"A": id_a, "B": id_b, "T": tok("OLD")}, {tok("OLD"): S("FAILED")})
    captured = {}

    def h_submit_target(recv, target, ids):
        captured["target"] = getattr(target, "name", None)
        captured["ids"] = list(ids)
        return tok("NEW")

    interp = PureInterp(ctx, hooks={"attr:submit_target": h_submit_target})
    m = ctx.index.method(tb, "submit")
    deps = [Obj("dep", name="A"), Obj("dep", name="B")]
    try:
        interp.call(m, (target_obj(ctx, name="T"), deps), {}, self_obj=obj)
    except (Raised, Unsupported) as exc:
        return None, f"{exc}", m
    return (captured, dict(obj._tracked_jobs), dict(obj._job_states)), None, m


def eval_backend_session(ctx):
    """One TrackingBackend object through the calls the scheduler makes for a chain A -> B whose A ran before (tracked, COMPLETED) and has to run again:
    status(A) (asked up to four times), submit(A), status(A), submit(B, [A]), status(B), cancel(A).  Returns (list of differences, error, method)."""
    tb, obj = tracking_backend(ctx, {"A": tok("OLD_A"), "B": tok("OLD_B")}, {tok("OLD_A"): S("COMPLETED"), tok("OLD_B"): S("COMPLETED")})
    calls = []

    def h_submit_target(recv, target, ids):
        calls.append(("submit", getattr(target, "name", None), list(ids)))
        return tok("NEW_" + getattr(target, "name", "?"))
    interp = PureInterp(ctx, hooks={"attr:submit_target": h_submit_target, "attr:cancel_job": lambda recv, jid: calls.append(("cancel", jid))})
    m = ctx.index.method(tb, "submit")
    st, cn = ctx.index.method(tb, "status"), ctx.index.method(tb, "cancel")
    A, B = target_obj(ctx, name="A"), target_obj(ctx, name="B")
    diffs = []
    try:
        for _ in range(4):
            s0 = interp.call(st, (A,), {}, self_obj=obj)
        if s0 != S("COMPLETED"):
            diffs.append(f"status(A) is {s0} for a target whose tracked job is COMPLETED")
        interp.call(m, (A, []), {}, self_obj=obj)
        s1 = interp.call(st, (A,), {}, self_obj=obj)
        if s1 != S("SUBMITTED"):
            diffs.append(f"after A (tracked from an earlier run, COMPLETED) is submitted again in the same process status(A) is {s1}, not SUBMITTED: the backend still answers "
                         "for the old job, so dependents decided later in the run do not wait for the new one")
        interp.call(st, (B,), {}, self_obj=obj)
        interp.call(m, (B, [A]), {}, self_obj=obj)
        sub_b = [c for c in calls if c[0] == "submit" and c[1] == "B"]
        if not sub_b or sub_b[0][2] != [tok("NEW_A")]:
            diffs.append(f"A ran before (old job tracked), is submitted again and then B is submitted with prerequisite A in the same run: the scheduler is given the ids "
                         f"{sub_b[0][2] if sub_b else None} instead of the id of the job just submitted for A: B waits for the old, finished job and starts at once - "
                         "concurrently with A's re-run, and even if that fails")
        interp.call(cn, (A,), {}, self_obj=obj)
        can = [c for c in calls if c[0] == "cancel"]
        if not can or can[0][1] != tok("NEW_A"):
            diffs.append(f"cancel(A) after A was submitted again in the same process cancels {can[0][1] if can else None}, not the job just submitted")
    except (Raised, Unsupported) as exc:
        return None, f"{exc}", m
    return diffs, None, m


def eval_status(ctx):
    tb, obj = tracking_backend(ctx, {"T": tok("ID")}, {tok("ID"): S("RUNNING"), tok("OTHER"): S("FAILED")})
    interp = PureInterp(ctx)
    m = ctx.index.method(tb, "status")
    out = {}
    for name in ("T", "U"):
        try:
            out[name] = interp.call(m, (target_obj(ctx, name=name),), {}, self_obj=obj)
        except (Raised, Unsupported) as exc:
            out[name] = f"<{exc}>"
    tb0, obj0 = tracking_backend(ctx, {"T": 0, "X": 1}, {0: S("RUNNING"), 1: S("FAILED")})
    try:
        out["zero"] = interp.call(m, (target_obj(ctx, name="T"),), {}, self_obj=obj0)
    except (Raised, Unsupported) as exc:
        out["zero"] = f"<{exc}>"
    tb2, obj2 = tracking_backend(ctx, {"T": tok("ID")}, {})
    try:
        out["nostate"] = interp.call(m, (target_obj(ctx, name="T"),), {}, self_obj=obj2)
    except (Raised, Unsupported) as exc:
        out["nostate"] = f"<{exc}>"
    return out, m


def eval_cancel(ctx):
    """For each last-known state of the job: which id reaches ops.cancel_job; untracked target -> error kind."""
    tb = ctx.index.cls("gwf.backends.base:TrackingBackend")
    m = ctx.index.method(tb, "cancel")
    res = {}
    for st in (None, "SUBMITTED", "RUNNING", "UNKNOWN", "COMPLETED", "FAILED"):
        _tb, obj = tracking_backend(ctx, {"T": tok("ID"), "X": tok("IDX")}, {} if st is None else {tok("ID"): S(st)})
        got = []
        interp = PureInterp(ctx, hooks={"attr:cancel_job": lambda recv, jid: got.append(jid)})
        try:
            interp.call(m, (target_obj(ctx, name="T"),), {}, self_obj=obj)
            res[st] = list(got)
        except Raised as exc:
            res[st] = f"raises {exc.kind}"
        except Unsupported as exc:
            res[st] = f"<{exc}>"
    # the scheduler refuses the cancellation: the job is still alive, so it must stay tracked (a retry must reach the scheduler)
    _tb, obj = tracking_backend(ctx, {"T": tok("ID"), "X": tok("IDX")}, {tok("ID"): S("RUNNING")})

    def refuse(recv, jid):
        raise Raised("BackendError", "cancel refused")
    interp = PureInterp(ctx, hooks={"attr:cancel_job": refuse})
    try:
        interp.call(m, (target_obj(ctx, name="T"),), {}, self_obj=obj)
        res["refused"] = ("no error", dict(obj._tracked_jobs))
    except Raised as exc:
        res["refused"] = (exc.kind, dict(obj._tracked_jobs))
    except Unsupported as exc:
        res["refused"] = (f"<{exc}>", {})
    # job ids are opaque: the local pool's first task has id 0 (falsy)
    _tb, obj = tracking_backend(ctx, {"T": 0, "X": 1}, {0: S("RUNNING")})
    got0 = []
    interp = PureInterp(ctx, hooks={"attr:cancel_job": lambda recv, jid: got0.append(jid)})
    try:
        interp.call(m, (target_obj(ctx, name="T"),), {}, self_obj=obj)
        res["zero"] = list(got0)
    except Raised as exc:
        res["zero"] = f"raises {exc.kind}"
    except Unsupported as exc:
        res["zero"] = f"<{exc}>"
    _tb, obj = tracking_backend(ctx, {"T": tok("ID")}, {})
    interp = PureInterp(ctx, hooks={"attr:cancel_job": lambda recv, jid: None})
    try:
        interp.call(m, (target_obj(ctx, name="NEVER"),), {}, self_obj=obj)
        res["untracked"] = "no error"
    except Raised as exc:
        res["untracked"] = exc.kind
    except Unsupported as exc:
        res["untracked"] = f"<{exc}>"
    return res, m


def store_object(ctx, ckey, attr, table):
    """Symbolic instance of one of the two state stores with attrs defaults for auxiliary fields (dirty flags...)."""
    idx = ctx.index
    ci = idx.cls(ckey)
    attrs = {}
    for name, _ann, value in ci.fields:
        if isinstance(value, ast.Call):
            for k in value.keywords:
                if k.arg == "default" and isinstance(k.value, ast.Constant):
                    attrs[name] = k.value.value
                if k.arg == "factory":
                    fn = ast.unparse(k.value)
                    attrs[name] = {"dict": {}, "list": [], "set": set()}.get(fn, None)
        elif isinstance(value, ast.Constant):
            attrs[name] = value.value
    # plain class attributes / __init__ assigned flags
    for m in ci.methods.values():
        if m.name in ("__init__", "__attrs_post_init__"):
            for n in ast.walk(m.node):
                if isinstance(n, ast.Assign) and isinstance(n.targets[0], ast.Attribute) and isinstance(n.value, ast.Constant) and ast.unparse(n.targets[0].value) == "self":
                    attrs.setdefault(n.targets[0].attr, n.value.value)
    if ckey.endswith("TrackingBackend"):
        attrs.update(working_dir=PROJ, name="NAME", ops=Obj("ops", target_defaults={}), _job_states={})
    else:
        attrs.update(path=PROJ + "/.gwf/spec-hashes.json")
    attrs[attr] = dict(table)
    obj = make_instance(ctx, ci, "store", **attrs)
    # auxiliary fields whose default is computed by a decorated method (a snapshot of the loaded table, a fingerprint): as attrs does, in field order, after the table
    interp = PureInterp(ctx)
    for fname, _ann, _value in ci.fields:
        if fname in attrs:
            continue
        for m in ci.methods.values():
            if any((d or "").endswith(f"{fname}.default") for d in m.decorator_names()):
                try:
                    setattr(obj, fname, interp.call(m, (), {}, self_obj=obj))
                except (Raised, Unsupported):
                    pass
    return ci, obj


def eval_close(ctx, ckey, attr, table, script=(), disk=None, existing=()):
    """Run `script` (list of (method, target name)) then close(); returns the recorded event list or an error string."""
    ci, obj = store_object(ctx, ckey, attr, table)
    events = []
    hooks = file_hooks(events, disk, existing)
    hooks["attr:submit_target"] = lambda recv, target, ids: tok("NEW_" + getattr(target, "name", "?"))
    interp = PureInterp(ctx, hooks=hooks)
    interp.events = events
    try:
        for meth, tname in script:
            args = (target_obj(ctx, name=tname, spec=tok("SPEC_" + tname)),) + (([],) if meth == "submit" else ())
            interp.call(ctx.index.method(ci, meth), args, {}, self_obj=obj)
        interp.call(ctx.index.method(ci, "close"), (), {}, self_obj=obj)
    except (Raised, Unsupported) as exc:
        return None, f"{exc}", obj
    return events, None, obj


def eval_life_cycle(ctx, ckey, attr, disk, script):
    """One whole invocation of a state store: the real initialisers load `disk`, `script` mutates, close() saves.  Returns (events, error, obj).
    Unlike eval_close the instance is not assembled by hand, so whatever the initialiser keeps besides the table (a snapshot, a dirty flag) is as in the program."""
    ci, obj = store_object(ctx, ckey, attr, {})
    events = []
    hooks = file_hooks(events, disk)
    hooks["attr:submit_target"] = lambda recv, target, ids: tok("NEW_" + getattr(target, "name", "?"))
    hooks["attr:get_job_states"] = lambda recv, ids: {}
    interp = PureInterp(ctx, hooks=hooks)
    interp.events = events
    try:
        for fname, _ann, _value in ci.fields:
            for m in ci.methods.values():
                if any((d or "").endswith(f"{fname}.default") for d in m.decorator_names()):
                    setattr(obj, fname, interp.call(m, (), {}, self_obj=obj))
        post = ctx.index.method(ci, "__attrs_post_init__")
        if post is not None:
            interp.call(post, (), {}, self_obj=obj)
        del events[:]
        for meth, tname in script:
            args = (target_obj(ctx, name=tname, spec=tok("SPEC_" + tname)),) + (([],) if meth == "submit" else ())
            interp.call(ctx.index.method(ci, meth), args, {}, self_obj=obj)
        interp.call(ctx.index.method(ci, "close"), (), {}, self_obj=obj)
    except (Raised, Unsupported) as exc:
        return None, f"{exc}", obj
    return events, None, obj


def load_path(ctx, ckey, attr):
    """The path the store loads its table from (first open() of the initialiser)."""
    ci, obj = store_object(ctx, ckey, attr, {})
    events = []
    interp = PureInterp(ctx, hooks=file_hooks(events, {}))
    interp.events = events
    for m in ci.methods.values():
        if m.name in ("__attrs_post_init__",) or any((d or "").endswith(".default") for d in m.decorator_names()):
            try:
                interp.call(m, (), {}, self_obj=obj)  # helpers it delegates to are followed by the interpreter
            except (Raised, Unsupported):
                pass
    for e in events:
        if e[0] == "open" and "w" not in str(e[2]) and "a" not in str(e[2]):
            return e[1]
    return None


def eval_call_failure(ctx, err_text="sbatch: error: Batch job submission failed", ok_text="some warning", fn=None):
    """backends.utils.call (or a sibling runner `fn`) over the four (exit status, 'error:' on stderr) combinations -> 'raise <kind>' / returned value."""
    fn = fn or ctx.index.func("gwf.backends.utils:call")
    takes_input = "input" in fn.all_param_names()
    out = {}
    for rc in (0, 1):
        for err in (False, True):
            stderr = err_text if err else ok_text
            proc = Obj("proc", returncode=rc)
            def h_run(cmd, *a, _rc=rc, _stderr=stderr, **k):
                # subprocess.run / check_output / check_call as documented: check=True (or the check_* variants) raise CalledProcessError on a non-zero status
                if k.get("check") and _rc != 0:
                    raise Raised("CalledProcessError", f"Command {cmd!r} returned non-zero exit status {_rc}.")
                return Obj("completed", returncode=_rc, stdout=tok("STDOUT"), stderr=_stderr, args=cmd)

            def h_check_output(cmd, *a, _rc=rc, **k):
                if _rc != 0:
                    raise Raised("CalledProcessError", f"Command {cmd!r} returned non-zero exit status {_rc}.")
                return tok("STDOUT")
            hooks = {"shutil.which": lambda name: "/usr/bin/" + str(name), "subprocess.Popen": lambda *a, **k: proc,
                     "attr:communicate": lambda recv, *a, **k: (tok("STDOUT"), stderr), "subprocess.run": h_run, "subprocess.check_output": h_check_output,
                     "attr:check_returncode": lambda recv, _rc=rc: (_ for _ in ()).throw(Raised("CalledProcessError", "non-zero exit status")) if _rc != 0 else None,
                     "attr:wait": lambda recv, *a, _rc=rc, **k: _rc, "attr:poll": lambda recv, _rc=rc: _rc}
            interp = PureInterp(ctx, hooks=hooks)
            try:
                out[(rc != 0, err)] = interp.call(fn, ("sbatch", "--parsable"), {"input": tok("SCRIPT")} if takes_input else {})
            except Raised as exc:
                out[(rc != 0, err)] = f"raise {exc.kind}"
            except Unsupported as exc:
                out[(rc != 0, err)] = f"<{exc}>"
    return out, fn


STDIN_SCRIPT = "#!/bin/bash\ncd '/data/søren/projekt'\ngrep 'Ærø µ — 日本' in.txt > 'résumé.txt'\n"


def eval_call_stdin(ctx):
    """The bytes that reach the scheduler command's standard input when backends.utils.call is given a script with non-ASCII text (directory and file names, patterns),
    by the documented rules of subprocess (text mode if text/universal_newlines/encoding/errors is given; the locale's encoding - UTF-8 on the modelled machine - by default).
    -> ("bytes", b"...") | ("raised", kind) | ("unsupported", why)"""
    fn = ctx.index.func("gwf.backends.utils:call")
    got = {"kw": None, "stdin": None}

    def to_bytes(data, kw):
        text = bool(kw.get("text") or kw.get("universal_newlines") or kw.get("encoding") or kw.get("errors"))
        if data is None:
            return b""
        if text:
            if not isinstance(data, str):
                raise Raised("AttributeError", "'bytes' object has no attribute 'encode' (bytes written to a text-mode pipe)")
            try:
                return data.encode(kw.get("encoding") or "utf-8", kw.get("errors") or "strict")
            except UnicodeEncodeError as exc:
                raise Raised("UnicodeEncodeError", str(exc))
            except LookupError as exc:
                raise Raised("LookupError", str(exc))
        if isinstance(data, str):
            raise Raised("TypeError", "a bytes-like object is required, not 'str'")
        return bytes(data)
    pipe = Obj("pipe", written=[])
    proc = Obj("proc", returncode=0, stdin=pipe)

    def h_popen(cmd, *a, **k):
        got["kw"] = k
        return proc

    def h_comm(recv, input=None, *a, **k):
        got["stdin"] = b"".join(pipe.written) + to_bytes(input, got["kw"] or {})
        text = bool((got["kw"] or {}).get("text") or (got["kw"] or {}).get("universal_newlines") or (got["kw"] or {}).get("encoding"))
        return ("4242\n", "") if text else (b"4242\n", b"")

    def h_run(cmd, *a, input=None, **k):
        got["kw"] = k
        got["stdin"] = to_bytes(input, k)
        text = bool(k.get("text") or k.get("universal_newlines") or k.get("encoding"))
        return Obj("completed", returncode=0, stdout="4242\n" if text else b"4242\n", stderr="" if text else b"", args=cmd)
    hooks = {"shutil.which": lambda name: "/usr/bin/" + str(name), "subprocess.Popen": h_popen, "subprocess.run": h_run, "attr:communicate": h_comm,
             "attr:write": lambda recv, data: pipe.written.append(to_bytes(data, got["kw"] or {})), "attr:close": lambda recv: None, "attr:flush": lambda recv: None,
             "attr:wait": lambda recv, *a, **k: 0, "attr:poll": lambda recv: 0}
    try:
        PureInterp(ctx, hooks=hooks).call(fn, ("sbatch", "--parsable"), {"input": STDIN_SCRIPT})
    except Raised as exc:
        return ("raised", f"{exc.kind}: {exc.detail}"[:200]), fn
    except Unsupported as exc:
        return ("unsupported", str(exc)), fn
    if got["stdin"] is None:
        got["stdin"] = b"".join(pipe.written)
    return ("bytes", got["stdin"]), fn


def eval_call_once(ctx):
    """backends.utils.call for a SUBMIT command in two awkward situations; returns a list of differences.
    (1) the scheduler's reply is lost ('Socket timed out on send/recv operation', exit 1): the job may have been queued all the same, so the command must be started exactly
        once and the failure reported - a retry would queue a second copy;
    (2) the command does not answer within whatever time limit call() sets: the child must be killed and reaped before the failure is reported, or it may still be accepted
        after gwf has given up (an untracked job)."""
    fn = ctx.index.func("gwf.backends.utils:call")
    diffs = []
    # (1)
    starts = []
    proc = Obj("proc", returncode=1)
    err = "sbatch: error: Batch job submission failed: Socket timed out on send/recv operation"

    def h_popen(cmd, *a, **k):
        starts.append(cmd)
        return proc

    def h_run(cmd, *a, **k):
        starts.append(cmd)
        if k.get("check"):
            raise Raised("CalledProcessError", "non-zero exit status 1")
        return Obj("completed", returncode=1, stdout="", stderr=err, args=cmd)
    hooks = {"shutil.which": lambda name: "/usr/bin/" + str(name), "subprocess.Popen": h_popen, "subprocess.run": h_run, "attr:communicate": lambda recv, *a, **k: ("", err),
             "time.sleep": lambda *a: None, "attr:wait": lambda recv, *a, **k: 1, "attr:poll": lambda recv: 1}
    try:
        res = PureInterp(ctx, hooks=hooks).call(fn, ("sbatch", "--parsable"), {"input": tok("SCRIPT")})
        diffs.append(f"a submit command that fails with 'Socket timed out on send/recv operation' makes call() return {res!r} instead of raising")
    except Raised:
        pass
    except Unsupported as exc:
        return None, str(exc)
    if len(starts) > 1:
        diffs.append(f"after a submit command failed with a lost reply ('Socket timed out on send/recv operation') call() starts the command {len(starts)} times: the first attempt "
                     "may have been queued, so the retry queues a second, separately tracked copy of the job")
    # (2)
    ev = []
    proc2 = Obj("proc", returncode=None)

    def h_comm(recv, *a, **k):
        t = k.get("timeout", a[1] if len(a) > 1 else None)
        if t is not None and not any(e == "expired" for e in ev):
            ev.append("expired")
            raise Raised("TimeoutExpired", "timed out")
        ev.append("communicate")
        return ("4242\n", "")

    def h_run2(cmd, *a, **k):
        if k.get("timeout") is not None:
            ev.append("expired")
            ev.append("kill")       # subprocess.run kills and reaps the child itself before re-raising
            ev.append("wait")
            raise Raised("TimeoutExpired", "timed out")
        return Obj("completed", returncode=0, stdout="4242\n", stderr="", args=cmd)
    hooks2 = {"shutil.which": lambda name: "/usr/bin/" + str(name), "subprocess.Popen": lambda *a, **k: proc2, "subprocess.run": h_run2, "attr:communicate": h_comm,
              "attr:kill": lambda recv, *a: ev.append("kill"), "attr:terminate": lambda recv, *a: ev.append("kill"), "attr:wait": lambda recv, *a, **k: ev.append("wait") or 0,
              "attr:poll": lambda recv: None, "time.sleep": lambda *a: None}
    try:
        PureInterp(ctx, hooks=hooks2).call(fn, ("sbatch", "--parsable"), {"input": tok("SCRIPT")})
        raised = False
    except Raised:
        raised = True
    except Unsupported as exc:
        return None, str(exc)
    if "expired" in ev:
        after = ev[ev.index("expired") + 1:]
        killed = "kill" in after and ("wait" in after or "communicate" in after)
        # a SUBMIT command that is merely slow to answer (an overloaded controller accepts the job and takes its time to print the id) is given up on: whether the
        # client is killed or not, the job may be queued - and gwf has no id for it.  Waiting is the only safe behaviour for a submission.
        diffs.append("call() gives a submit command a time limit" + ("" if killed else " and, when it expires, reports the failure without killing and reaping the child") +
                     ": the scheduler may have accepted the job although the command had not printed the id yet (killing sbatch/qsub/bsub does not withdraw it), so a job exists "
                     "that no state file knows about and the next run submits the target again")
    return diffs, None


def eval_mutating_commands_unlimited(ctx):
    """Every cluster backend's submit_target and cancel_job evaluated down to subprocess, with every optional setting of the backend switched on (30): the command that
    changes the scheduler's state must be waited for - through whichever of the package's command runners it goes.  -> (differences, n evaluated, unsupported reason)."""
    answers = {"sbatch": "4242\n", "qsub": "4242\n", "bsub": "Job <4242> is submitted to default queue <normal>.\n"}
    diffs, n = [], 0
    for mod, cname, exe, cexe in (("gwf.backends.slurm", "SlurmOps", "sbatch", "scancel"), ("gwf.backends.sge", "SGEOps", "qsub", "qdel"), ("gwf.backends.lsf", "LSFOps", "bsub", "bkill")):
        ci = ctx.index.cls(f"{mod}:{cname}")
        for meth in ("submit_target", "cancel_job"):
            m = ctx.index.method(ci, meth)
            if m is None:
                continue
            ev = []
            started = []

            def base(cmd):
                c0 = cmd[0] if isinstance(cmd, (list, tuple)) and cmd else cmd
                return str(c0).rsplit("/", 1)[-1]

            def h_popen(cmd, *a, **k):
                started.append(base(cmd))
                return Obj("proc", returncode=0, args=cmd, stdin=Obj("pipe"), stdout=Obj("pipe"), stderr=Obj("pipe"), pid=4321)

            def h_comm(recv, *a, **k):
                t = k.get("timeout", a[1] if len(a) > 1 else None)
                if t is not None:
                    ev.append(("limit", started[-1] if started else "?"))
                return (answers.get(started[-1] if started else "", ""), "")

            def h_wait(recv, *a, **k):
                t = k.get("timeout", a[0] if a else None)
                if t is not None:
                    ev.append(("limit", started[-1] if started else "?"))
                return 0

            def h_run(cmd, *a, **k):
                started.append(base(cmd))
                if k.get("timeout") is not None:
                    ev.append(("limit", base(cmd)))
                return Obj("completed", returncode=0, stdout=answers.get(base(cmd), ""), stderr="", args=cmd)
            hooks = {"shutil.which": lambda name, *a, **k: "/usr/bin/" + str(name), "subprocess.Popen": h_popen, "subprocess.run": h_run, "attr:communicate": h_comm,
                     "subprocess.check_output": lambda cmd, *a, **k: h_run(cmd, *a, **k).stdout, "subprocess.check_call": lambda cmd, *a, **k: h_run(cmd, *a, **k).returncode,
                     "attr:wait": h_wait, "attr:poll": lambda recv: 0, "attr:kill": lambda recv, *a: None, "attr:terminate": lambda recv, *a: None,
                     "attr:compile_script": lambda recv, t: "SCRIPT", "builtins.open": lambda p, mode="r", *a, **k: Obj("file", path=str(p), mode=mode),
                     "attr:write": lambda recv, *a: None, "time.sleep": lambda *a: None,
                     "signal.alarm": lambda secs=0: ev.append(("limit", "SIGALRM")) if secs else None,
                     "signal.setitimer": lambda which, secs=0, *a: ev.append(("limit", "SIGALRM")) if secs else None,
                     "threading.Timer": lambda *a, **k: (ev.append(("limit", "threading.Timer")), Obj("timer", start=lambda: None, cancel=lambda: None))[1]}
            interp = PureInterp(ctx, hooks=hooks)
            interp.max_depth = 10
            obj = make_instance(ctx, ci, "ops", working_dir=PROJ, log_mode="full", accounting_enabled=True, target_defaults={})
            for fname, _ann, _v in ci.fields:
                if fname not in ("working_dir", "target_defaults", "log_mode", "accounting_enabled") and obj.__dict__["_attrs"].get(fname, Ellipsis) is None:
                    setattr(obj, fname, 30)
            args = (target_obj(ctx, name="T", options={}, spec="x", working_dir="/w"), []) if meth == "submit_target" else ("4242",)
            try:
                interp.call(m, args, {}, self_obj=obj)
            except Raised:
                pass
            except Unsupported as exc:
                return diffs, n, f"{cname}.{meth}: {exc}"
            n += 1
            want = exe if meth == "submit_target" else cexe
            for _k, what in ev:
                diffs.append(f"{cname}.{meth} runs `{what if what in (exe, cexe) else want}` under a time limit ({what}): the scheduler may have carried the command out although it had not "
                             "answered yet - giving up on it does not undo it, so a job can exist (or be gone) without any state file knowing; only read-only queries may be given up on")
                break
    return diffs, n, None


def eval_garbled_query(ctx, mod, cname):
    """<Ops>.get_job_states when the query command exits 0 with output cut off half-way (busy controller): must raise, never an (empty) state map."""
    ci = ctx.index.cls(f"{mod}:{cname}")
    m = ctx.index.method(ci, "get_job_states")
    garbage = {"qstat": "<?xml version='1.0'?><job_info><queue_info><job_list state='running'><JB_job_num", "squeue": "1;R\n2", "sacct": "1|COMPLETED\n2", "bjobs": "RU"}
    seen = []

    def h_call(exe, *a, **k):
        seen.append(exe)
        return garbage.get(exe, "")
    interp = PureInterp(ctx, hooks={"gwf.backends.utils.call": h_call})
    interp.max_depth = 10
    obj = make_instance(ctx, ci, "ops", working_dir=PROJ, log_mode="full", accounting_enabled=True, target_defaults={})
    try:
        res = interp.call(m, (["1", "2"],), {}, self_obj=obj)
        return ("returned", res, seen), m
    except Raised as exc:
        return ("raised", exc.kind, seen), m
    except Unsupported as exc:
        return ("unsupported", str(exc), seen), m


def eval_cancel_job(ctx, mod, cname):
    ci = ctx.index.cls(f"{mod}:{cname}")
    m = ctx.index.method(ci, "cancel_job")
    calls = []
    interp = PureInterp(ctx, hooks={"gwf.backends.utils.call": lambda exe, *a, **k: calls.append((exe,) + tuple(a)) or ""})
    try:
        interp.call(m, (tok("JOB"),), {}, self_obj=make_instance(ctx, ci, "ops", working_dir=PROJ))
    except (Raised, Unsupported) as exc:
        return f"<{exc}>", m
    return calls, m


def eval_clean_logs(ctx):
    """clean_logs on a modelled log directory: current targets A, B and `old.v2` (dotted names are legal), logs left by the removed targets `old` and `gone` (of
    which only the .stderr exists).  Returns (files left, directories listed, function)."""
    import fnmatch as _fn
    fn = ctx.index.func("gwf.plugins.run:clean_logs")
    listed = []
    D = PROJ + "/.gwf/logs"
    disk = {D + "/" + n for n in ("A.stdout", "A.stderr", "B.stdout", "old.stdout", "old.stderr", "gone.stderr", "old.v2.stdout", "old.v2.stderr")}

    def h_remove(p, *a, **k):
        if str(p) not in disk:
            raise Raised("FileNotFoundError", str(p))
        disk.discard(str(p))

    def unescape(pat):      # glob.escape wraps the magic characters in brackets
        return pat
    hooks = {
        "os.listdir": lambda d: listed.append(str(d)) or sorted(p_[len(str(d)) + 1:] for p_ in disk if p_.startswith(str(d) + "/")),
        "os.scandir": lambda d: listed.append(str(d)) or [Obj("direntry", name=p_[len(str(d)) + 1:], path=p_) for p_ in sorted(disk) if p_.startswith(str(d) + "/")],
        "os.remove": h_remove, "os.unlink": h_remove, "attr:unlink": lambda recv, *a, **k: h_remove(recv),
        "os.path.exists": lambda p_: str(p_) in disk, "os.path.isfile": lambda p_: str(p_) in disk,
        "glob.glob": lambda pat, *a, **k: sorted(p_ for p_ in disk if _fn.fnmatchcase(p_, str(pat))), "glob.iglob": lambda pat, *a, **k: iter(sorted(p_ for p_ in disk if _fn.fnmatchcase(p_, str(pat)))),
    }
    interp = PureInterp(ctx, hooks=hooks)
    # (an instance of the package's Graph class: `name in graph`, `graph[name]`, iteration and len are the class's own)
    tg_ = {n_: target_obj(ctx, name=n_) for n_ in ("A", "B", "old.v2")}
    try:
        gci_ = {"__class__": ctx.index.cls("gwf.core:Graph")}
    except Exception:
        gci_ = {}
    graph = Obj("graph", targets=tg_, dependencies={}, dependents={}, provides={}, unresolved=set(), **gci_)
    try:
        interp.call(fn, (PROJ, graph), {})
    except (Raised, Unsupported) as exc:
        return f"<{exc}>", listed, fn
    return sorted(p_[len(D) + 1:] for p_ in disk), listed, fn


def eval_local_job_states(ctx):
    ci = ctx.index.cls("gwf.backends.local:LocalOps")
    m = ctx.index.method(ci, "get_job_states")
    L = lambda n: EnumVal("gwf.backends.local.LocalStatus", n)
    wire = {"1": L("RUNNING"), "2": L("FAILED"), "7": L("KILLED"), "9": L("COMPLETED")}
    client = Obj("client")
    interp = PureInterp(ctx, hooks={"attr:status": lambda recv, *a, **k: dict(wire)})
    try:
        got = interp.call(m, ([1, 7, 9],), {}, self_obj=make_instance(ctx, ci, "ops", _client=client))
    except (Raised, Unsupported) as exc:
        return f"<{exc}>", m
    return got, m


# ---------------------------------------------------------------------------- dependency graph witnesses
def _mk_targets(ctx, spec, order):
    objs = {name: target_obj(ctx, name=name, _ins=list(ins), _outs=list(outs)) for name, (ins, outs) in spec.items()}
    return objs, [objs[n] for n in order]


def eval_graph(ctx, spec, order, existing):
    """Graph.from_targets on a symbolic workflow: returns ('ok', relations) or ('raise', kind) or ('unsupported', msg)."""
    idx = ctx.index
    gcls = idx.cls("gwf.core:Graph")
    ft = idx.method(gcls, "from_targets")
    objs, tlist = _mk_targets(ctx, spec, order)
    hooks = {
        "attr:flattened_inputs": lambda recv, *a: list(recv._ins),
        "attr:flattened_outputs": lambda recv, *a: list(recv._outs),
        "attr:exists": lambda recv, p: p in existing,
    }
    interp = PureInterp(ctx, hooks=hooks, max_depth=60)
    fs = Obj("fs")
    try:
        g = interp.call(ft, ({o.name: o for o in tlist}, fs), {}, self_obj=gcls)
    except Raised as exc:
        return "raise", exc.kind
    except Unsupported as exc:
        return "unsupported", str(exc)
    kw = g.__dict__["_attrs"].get("_kwargs", {})
    names = lambda xs: sorted(x.name for x in xs)
    try:
        rel = {
            "dependencies": {t.name: names(kw["dependencies"].get(t, ())) for t in tlist},
            "dependents": {t.name: names(kw["dependents"].get(t, ())) for t in tlist},
            "provides": {p: t.name for p, t in kw["provides"].items()},
            "unresolved": sorted(kw["unresolved"]),
            "targets": sorted(kw["targets"]),
        }
        ep = idx.method(gcls, "endpoints")
        eobj = Obj("graph", targets=kw["targets"], dependents=kw["dependents"], dependencies=kw["dependencies"], **{"__class__": gcls})
        rel["endpoints"] = names(PureInterp(ctx).call(ep, (), {}, self_obj=eobj))
    except (KeyError, AttributeError, TypeError, Raised, Unsupported) as exc:
        return "unsupported", f"result not understood: {exc}"
    return "ok", rel


def graph_oracle(spec, existing):
    prov = {}
    for name, (ins, outs) in spec.items():
        for o in outs:
            if o in prov:
                return "raise", "FileProvidedByMultipleTargetsError"
            prov[o] = name
    deps = {n: sorted({prov[i] for i in ins if i in prov}) for n, (ins, outs) in spec.items()}
    unresolved = sorted({i for n, (ins, outs) in spec.items() for i in ins if i not in prov})
    for u in unresolved:
        if u not in existing:
            return "raise", "UnresolvedInputError"
    # cycles
    colour = {}
    def visit(n, stack):
        colour[n] = 1
        for d in deps[n]:
            if colour.get(d) == 1:
                return True
            if d not in colour and visit(d, stack):
                return True
        colour[n] = 2
        return False
    for n in spec:
        if n not in colour and visit(n, []):
            return "raise", "CircularDependencyError"
    dependents = {n: sorted(m for m in spec if n in deps[m]) for n in spec}
    return "ok", {"dependencies": deps, "dependents": dependents, "provides": prov, "unresolved": unresolved, "targets": sorted(spec),
                  "endpoints": sorted(n for n in spec if not dependents[n])}


GRAPH_WITNESSES = [
    ("diamond, producers first", {"A": (["s"], ["a"]), "B": (["a"], ["b"]), "C": (["a"], ["c"]), "D": (["b", "c"], ["d"])}, ["A", "B", "C", "D"], {"s"}),
    ("diamond, consumers first", {"A": (["s"], ["a"]), "B": (["a"], ["b"]), "C": (["a"], ["c"]), "D": (["b", "c"], ["d"])}, ["D", "C", "B", "A"], {"s"}),
    ("diamond, two consumers before their producer", {"A": (["s"], ["a"]), "B": (["a"], ["b"]), "C": (["a"], ["c"]), "D": (["b", "c"], ["d"])}, ["B", "C", "D", "A"], {"s"}),
    ("two endpoints and an isolated target", {"A": ([], ["a"]), "B": (["a"], ["b"]), "C": (["a"], []), "I": ([], ["i"])}, ["I", "C", "B", "A"], set()),
    ("provided input that is not on disk yet", {"A": ([], ["a"]), "B": (["a"], ["b"])}, ["B", "A"], set()),
    ("existing source file", {"A": (["src"], ["a"])}, ["A"], {"src"}),
    ("two producers of one file", {"X": ([], ["f"]), "Y": ([], ["f"])}, ["X", "Y"], set()),
    ("missing source file", {"X": (["nowhere"], ["x"])}, ["X"], set()),
    ("self-loop", {"X": (["f"], ["f"])}, ["X"], set()),
    ("2-cycle next to a healthy chain (not reachable from its endpoint)", {"P": ([], ["p"]), "Q": (["p"], ["q"]), "R": (["s1"], ["s2"]), "S": (["s2"], ["s1"])}, ["P", "Q", "R", "S"], set()),
    ("3-cycle behind a tail", {"A": (["c"], ["a"]), "B": (["a"], ["b"]), "C": (["b"], ["c"]), "T": (["c"], ["t"])}, ["T", "A", "B", "C"], set()),
    # a consumer of BOTH members of a 2-cycle, defined first (an explicit-stack search that marks nodes when pushed sees both members 'queued' and no back edge)
    ("consumer of both members of a 2-cycle, consumer first", {"R": (["al", "ix"], ["rep"]), "Al": (["ix"], ["al"]), "Ix": (["al"], ["ix"])}, ["R", "Al", "Ix"], set()),
    ("consumer of both members of a 2-cycle, other member order", {"R": (["ix", "al"], ["rep"]), "Al": (["ix"], ["al"]), "Ix": (["al"], ["ix"])}, ["R", "Ix", "Al"], set()),
    ("4-cycle with a chord, entered from outside", {"E": (["a", "c"], ["e"]), "A": (["d"], ["a"]), "B": (["a"], ["b"]), "C": (["b"], ["c"]), "D": (["c", "a2"], ["d"]), "A2": ([], ["a2"])},
     ["E", "A", "B", "C", "D", "A2"], set()),
    # two producers of one file that are not neighbours: several outputs each, another target in between
    ("two producers, the shared file first of several outputs", {"A": ([], ["shared", "a.log"]), "B": ([], ["shared", "b.log"])}, ["A", "B"], set()),
    ("two producers with an unrelated target between them", {"X": ([], ["f"]), "M": ([], ["m"]), "Y": ([], ["f"])}, ["X", "M", "Y"], set()),
    ("two producers, shared file last and first", {"X": ([], ["x1", "f"]), "Y": ([], ["f", "y1"]), "Z": (["f"], ["z"])}, ["Z", "X", "Y"], set()),
]
# well-formed workflows with a redundant ("transitive") edge - report needs index and map, map needs index - in every definition order and with names sorting both ways:
# a search that colours a target when it is queued rather than when it is entered takes the sibling that is still queued for a target on the current path
_TRI = {"qc_report": (["idx", "bam"], ["rep"]), "bwa_index": ([], ["idx"]), "map_reads": (["idx"], ["bam"])}
_TRI2 = {"a_report": (["idx", "bam"], ["rep"]), "z_index": ([], ["idx"]), "m_map": (["idx"], ["bam"])}
import itertools as _it
for _spec in (_TRI, _TRI2):
    for _order in _it.permutations(list(_spec)):
        GRAPH_WITNESSES.append((f"acyclic triangle (a redundant edge), defined in the order {', '.join(_order)}", _spec, list(_order), set()))
GRAPH_WITNESSES.append(("acyclic: two chains sharing their source and their sink, deep side first",
                        {"S": ([], ["s"]), "L1": (["s"], ["l1"]), "L2": (["l1"], ["l2"]), "R1": (["s"], ["r1"]), "T": (["l2", "r1", "s"], ["t"])}, ["T", "L2", "L1", "R1", "S"], set()))


def graph_witnesses(ctx):
    """[(name, got, expected)] for every witness workflow."""
    if "graph_witnesses" in ctx.shared:
        return ctx.shared["graph_witnesses"]
    out = []
    for name, spec, order, existing in GRAPH_WITNESSES:
        got = eval_graph(ctx, spec, order, existing)
        want = graph_oracle(spec, existing)
        out.append((name, got, want))
    ctx.shared["graph_witnesses"] = out
    return out


def eval_slurm_states(ctx, n_ids, accounting, fail=None):
    """SlurmOps.get_job_states with the scheduler commands replaced by recording hooks that answer like squeue/sacct."""
    ci = ctx.index.cls("gwf.backends.slurm:SlurmOps")
    m = ctx.index.method(ci, "get_job_states")
    ids = [str(i) for i in range(1, n_ids + 1)]
    sacct_queries = []
    squeue_calls = []

    def fake_call(exe, *args, **kw):
        args = [str(a) for a in args]
        if exe == "squeue":
            squeue_calls.append(args)
            if fail == "squeue":
                raise Raised("BackendError", "squeue failed")
            return "1;R\n999999;R\n"
        if exe == "sacct":
            if fail == "sacct":
                sacct_queries.append(["<failed>"])
                raise Raised("BackendError", "sacct failed")
            req = []
            if "--jobs" in args:
                req = args[args.index("--jobs") + 1].split(",")
            else:
                for a in args:
                    if a.startswith("--jobs="):
                        req = a[len("--jobs="):].split(",")
                    elif a.startswith("-j"):
                        req = a[2:].lstrip("=").split(",")
            sacct_queries.append(req)
            return "".join(f"{j}|{'FAILED' if j in ('1', str(n_ids)) else 'COMPLETED'}\n" for j in req if j)
        raise Unsupported(f"unexpected command {exe}")

    interp = PureInterp(ctx, hooks={"gwf.backends.utils.call": fake_call})
    interp.max_depth = 10
    obj = make_instance(ctx, ci, "ops", working_dir=PROJ, log_mode="full", accounting_enabled=accounting, target_defaults={})
    try:
        res = interp.call(m, (list(ids),), {}, self_obj=obj)
    except (Raised, Unsupported) as exc:
        return None, f"{exc}", sacct_queries, squeue_calls, m
    return res, None, sacct_queries, squeue_calls, m


HASH_HOOKS = {
    "hashlib.sha1": lambda data=b"", *a, **k: Obj("sha", data=data),
    "hashlib.sha256": lambda data=b"", *a, **k: Obj("sha", data=data),
    "hashlib.md5": lambda data=b"", *a, **k: Obj("sha", data=data),
    "attr:hexdigest": lambda recv, *a: "H:" + repr(getattr(recv, "data", None)),
}


def eval_spec_store(ctx):
    """Scenario evaluation of FileSpecHashes.has_changed / update / invalidate and hash_spec; returns [(step, got, expected-description, ok)]."""
    idx = ctx.index
    ci = idx.cls("gwf.core:FileSpecHashes")
    store = make_instance(ctx, ci, "store", path=PROJ + "/.gwf/spec-hashes.json", hashes={})
    interp = PureInterp(ctx, hooks=dict(HASH_HOOKS))
    T = make_target(ctx, "T", "echo one", {"memory": "4g"}, _interp=interp)
    U = make_target(ctx, "U", "echo one", {"memory": "4g"}, _interp=interp)
    steps = []

    def call(meth, target):
        try:
            return interp.call(idx.method(ci, meth), (target,), {}, self_obj=store)
        except Raised as exc:
            return f"<raises {exc.kind}>"
        except Unsupported as exc:
            return Ellipsis

    def step(name, got, ok, want):
        if got is Ellipsis or (isinstance(got, tuple) and Ellipsis in got):
            return      # not evaluable: no verdict from this step
        steps.append((name, got, want, ok))

    g = call("has_changed", T); step("never recorded target", g, g is not None and not str(g).startswith("<"), "changed (not None)")
    g = call("update", T); step("update(T)", g, g is None, "no error")
    g = call("has_changed", T); step("T right after update(T)", g, g is None, "unchanged (None)")
    g = call("has_changed", U); step("other target U with the same spec, never recorded", g, g is not None and not str(g).startswith("<"), "changed (records are per target name)")
    # the spec is assigned after construction - `gwf.target(...) << "script"` is the usual way to define a target
    lsh = idx.method(idx.cls("gwf.core:Target"), "__lshift__")
    try:
        if lsh is None:
            raise Unsupported("no __lshift__")
        interp.call(lsh, ("echo two",), {}, self_obj=T)
        if T.spec != "echo two":
            T.spec = "echo two"
    except (Raised, Unsupported):
        T.spec = "echo two"
    g = call("has_changed", T); step("T after its spec was assigned anew with `target << 'echo two'`", g, g is not None and not str(g).startswith("<"), "changed (not None)")
    g = call("update", T); g = call("has_changed", T); step("T after update with the edited spec", g, g is None, "unchanged (None)")
    g = call("invalidate", T); step("invalidate(T)", g, g is None, "no error")
    g = call("has_changed", T); step("T after invalidate(T)", g, g is not None and not str(g).startswith("<"), "changed (record erased)")
    g = call("invalidate", T); step("invalidate(T) again (no record)", g, g is None, "no error")
    # the record made by an accepted submission is the one a LATER invocation computes for the unchanged target (submit_backend rewrites
    # target.options with the backend defaults before it records: whatever the hash covers must not depend on that)
    sb = idx.func("gwf.scheduling:submit_backend")
    store2 = make_instance(ctx, ci, "store", path=PROJ + "/.gwf/spec-hashes.json", hashes={})
    backend = Obj("backend", target_defaults={"cores": 1, "memory": "1g", "walltime": "01:00:00", "queue": None})
    interp2 = PureInterp(ctx, hooks=dict(HASH_HOOKS, **{"attr:submit": lambda recv, t, dependencies=None, **k: None}))
    S1 = make_target(ctx, "S", "echo s", {"memory": "4g", "walltime": None}, _interp=interp2)
    try:
        interp2.call(sb, (S1, []), {"backend": backend, "spec_hashes": store2})
        S2 = make_target(ctx, "S", "echo s", {"memory": "4g", "walltime": None}, _interp=interp2)
        g = interp2.call(idx.method(ci, "has_changed"), (S2,), {}, self_obj=store2)
        step("the unchanged target S in the invocation after its accepted submission", g, g is None,
             "unchanged (None): the hash recorded at submission is the one computed from the workflow file later")
    except Raised as exc:
        step("submit_backend(S) then has_changed(S) in the next invocation", f"<raises {exc.kind}: {exc.detail[:60]}>", False, "unchanged (None)")
    except Unsupported as exc:
        pass
    hs = idx.func("gwf.core:hash_spec")
    try:
        h1, h2, h1b = (interp.call(hs, (s_,)) for s_ in ("a", "b", "a"))
        step("hash_spec('a') vs hash_spec('b')", (h1, h2), h1 != h2 and h1 == h1b and isinstance(h1, str), "different specs get different, reproducible values")
    except (Raised, Unsupported) as exc:
        step("hash_spec", f"<{exc}>", False, "evaluable content hash")
    return steps, ci


def eval_get_spec_hashes(ctx):
    fn = ctx.index.func("gwf.core:get_spec_hashes")
    out = {}
    for flag in (True, False, None):
        cfg = Obj("config")
        interp = PureInterp(ctx, hooks={"attr:get": lambda recv, key, default=None, flag=flag: (flag if key == "use_spec_hashes" else default)})
        try:
            res = interp.call(fn, (), {"working_dir": tok("WD"), "config": cfg})
            out[flag] = (res._name, tuple(res.__dict__["_attrs"].get("_args", ())) + tuple(res.__dict__["_attrs"].get("_kwargs", {}).values())) if isinstance(res, Obj) else res
        except (Raised, Unsupported) as exc:
            out[flag] = f"<{exc}>"
    # a configuration in which EVERY other key is set, to a relative path: whatever optional setting relocates the store, the location must not depend on
    # the directory gwf happens to be invoked from
    asked = []

    def h_get(recv, key, default=None):
        asked.append(key)
        return True if key == "use_spec_hashes" else "elsewhere/custom.json"
    interp = PureInterp(ctx, hooks={"attr:get": h_get, "getattr:__getitem__": None} if False else {"attr:get": h_get})
    try:
        res = interp.call(fn, (), {"working_dir": tok("WD"), "config": Obj("config")})
        args = tuple(res.__dict__["_attrs"].get("_args", ())) + tuple(res.__dict__["_attrs"].get("_kwargs", {}).values()) if isinstance(res, Obj) else ()
        out["relocated"] = (args[0] if args else None, [k for k in asked if k != "use_spec_hashes"])
    except Raised as exc:
        out["relocated"] = (f"<raises {exc.kind}>", asked)
    except Unsupported as exc:
        out["relocated"] = (Ellipsis, asked)
    return out, fn


# --------------------------------------------------------------------------- cli.main (the group callback)
class PathTok(str):
    """A symbolic pathlib.Path: a string token with joinpath/parent/mkdir modelled by hooks."""


def eval_cli_main(ctx, found=True, flag_backend=None, flag_no_color=None, config=None, env=None, decline=False, verbose="info", load_hook=None, extra_options=None):
    """Evaluate gwf.cli:main on symbolic inputs; every external effect is a recorded event.

    Returns (result dict, None) or (None, reason)."""
    from ..symeval import _join
    import posixpath
    idx = ctx.index
    main = idx.func("gwf.cli:main")
    events = []
    config = dict(config or {})
    env = env if isinstance(env, dict) and type(env) is not dict else dict(env or {})
    defaults = dict(ctx.ev.eval_global("gwf.conf", "CONFIG_DEFAULTS"))
    from collections import ChainMap
    cfg = ChainMap(config, defaults)
    res = {"events": events, "mkdir": [], "mkdir_kw": [], "config_path": None, "colour_disabled": False, "context": None, "init": None, "prompt": False, "raised": None,
           "logging": None}

    def h_find(path_spec="workflow.py:gwf", *more, **kmore):
        events.append(("find_workflow", path_spec))
        res["find_args"] = (tuple(more), dict(kmore))
        if not found:
            raise Raised("FileNotFoundError", "no workflow file")
        return (PathTok(PROJ + "/workflow.py"), "gwf")

    def h_join(recv, *parts):
        return PathTok(_join(str(recv), *[str(p) for p in parts]))

    def h_mkdir(recv, *a, **k):
        res["mkdir"].append(str(recv))
        res["mkdir_kw"].append(dict(k))
        events.append(("mkdir", str(recv)))

    def h_load(path, *more, **kmore):
        res["config_path"] = str(path)
        events.append(("config.load", str(path)))
        if load_hook is not None:
            return load_hook(path)
        if more or kmore:
            # the loader takes more than the path (e.g. values to layer on top): the real classmethod is evaluated, with the file's content supplied
            ci__ = idx.cls("gwf.conf:FileConfig")
            ip__ = PureInterp(ctx, hooks={"builtins.open": lambda p_, *a, **k: Obj("file", path=str(p_), mode="r"), "json.load": lambda f_, *a, **k: dict(config)})
            return ip__.call(idx.method(ci__, "load"), (path,) + tuple(more), kmore, self_obj=ci__)
        # the object FileConfig.load returns: an instance of the repository's class around ChainMap(<file content>, CONFIG_DEFAULTS)
        ci_ = idx.cls("gwf.conf:FileConfig")
        fields_ = [f_[0] for f_ in ci_.fields]
        if ci_ is None or "data" not in fields_:
            return cfg
        return make_instance(ctx, ci_, "config", **{("path" if "path" in fields_ else fields_[0]): path, "data": cfg})

    def h_confirm(*a, **k):
        res["prompt"] = True
        events.append(("prompt",))
        if decline:
            if k.get("abort"):
                raise Raised("Abort", "prompt declined")
            return False
        return True

    def h_init(d):
        res["init"] = str(d)
        events.append(("init", str(d)))

    hooks = {
        "gwf.utils.find_workflow": h_find, "gwf.cli.find_workflow": h_find,
        "attr:joinpath": h_join, "attr:mkdir": h_mkdir,
        "getattr:parent": lambda o: PathTok(posixpath.dirname(str(o))),
        "attr:resolve": lambda recv, *a, **k: PathTok(tok("symlinks-resolved:" + str(recv))),
        "attr:absolute": lambda recv, *a, **k: recv,
        "os.path.realpath": lambda p_, *a, **k: PathTok(tok("symlinks-resolved:" + str(p_))),
        "pathlib.Path.cwd": lambda: PathTok(tok("CWD")),
        "gwf.conf.FileConfig.load": h_load,
        "gwf.cli.configure_logging": lambda *a, **k: (events.append(("logging", a, k)), res.__setitem__("logging", list(a) + list(k.values())))[0],
        "gwf.backends.base.guess_backend": lambda: (10, tok("GUESSED")), "gwf.backends.guess_backend": lambda: (10, tok("GUESSED")),
        "os.getenv": lambda k, d=None: env.get(k, d), "os.environ.get": lambda k, d=None: env.get(k, d),
        "click.confirm": h_confirm, "gwf.cli.init": h_init,
        # the configuration file being written from the group callback (a `config.dump()` there runs for EVERY command)
        "builtins.open": lambda p_, mode="r", *a, **k: (events.append(("open", str(p_), k.get("mode", mode))), Obj("file", path=str(p_), mode=k.get("mode", mode)))[1],
        "json.dump": lambda data, f_, *a, **k: (events.append(("config-write", dict(data) if hasattr(data, "keys") else data, getattr(f_, "path", None))),
                                                res.__setitem__("config_written", dict(data) if hasattr(data, "keys") else data))[0],
    }
    interp = PureInterp(ctx, hooks=hooks)
    cobj = Obj("click_ctx", obj={})
    try:
        # options added to the group later are passed the way click passes an option that is not given (its declared default, through its callback)
        pnames = main.positional_params()
        known = {"file": "workflow.py:gwf", "backend": flag_backend, "verbose": verbose, "no_color": flag_no_color}
        dflt = click_defaults(ctx, main)
        kwargs_ = {}
        for p_ in pnames[1:]:
            if p_ in known:
                kwargs_[p_] = known[p_]
            elif p_ in dflt:
                kwargs_[p_] = dflt[p_]
        if not set(known) <= set(pnames):
            return None, "Unsupported: the group callback's parameters are not the known ones"
        kwargs_.update(extra_options or {})
        interp.call(main, (cobj,), kwargs_)
    except Raised as exc:
        res["raised"] = exc.kind  # an outcome of the evaluated code, not a limitation of the evaluator
    except Unsupported as exc:
        return None, f"{type(exc).__name__}: {exc}"
    for e in interp.events:
        if e[0] == "setattr" and e[1].endswith("isatty"):
            lam = e[2]
            val = None
            if isinstance(lam, tuple) and lam and lam[0] == "lambda":
                try:
                    val = interp.eval(lam[1].body, {a.arg: None for a in lam[1].args.args}, lam[2])
                except (Raised, Unsupported):
                    val = None
            res["colour_disabled"] = val is False or val is None and not isinstance(lam, tuple)
            if val is True:
                res["colour_disabled"] = False
    o = cobj.obj
    if isinstance(o, Obj):
        res["context"] = {k: (str(v) if isinstance(v, str) else v) for k, v in o._kwargs.items()}
        if o._args:
            res["context"]["_positional"] = o._args
    return res, None


def cli_main_location_witness(ctx):
    """C19/C05: everything the group callback creates or loads is derived from the found workflow file."""
    diffs, n = [], 0
    for found, base in ((True, PROJ), (False, tok("CWD"))):
        res, err = eval_cli_main(ctx, found=found)
        if err:
            return n, diffs, err
        n += 1
        if res["raised"]:
            diffs.append(f"workflow {'found' if found else 'not found'}: the group callback ends with {res['raised']}")
            continue
        # a path relative to the invoking directory (".", "./x") denotes the same place as the invoking directory itself
        def _anch(p_):
            p_ = str(p_)
            return tok("CWD") if p_ == "." else tok("CWD") + p_[1:] if p_.startswith("./") else p_
        res["mkdir"] = [_anch(p_) for p_ in res["mkdir"]]
        res["config_path"] = _anch(res["config_path"]) if res["config_path"] is not None else None
        if res["init"] is not None:
            res["init"] = _anch(res["init"])
        if res["context"]:
            for k_ in ("working_dir", "workflow_file"):
                if isinstance(res["context"].get(k_), str):
                    res["context"][k_] = _anch(res["context"][k_])
        if any(k.get("exist_ok") is not True for k in res["mkdir_kw"]):
            diffs.append("the state directories are created without exist_ok=True: every invocation after the first fails with FileExistsError")
        want_mk = {base + "/.gwf", base + "/.gwf/logs"}
        if set(res["mkdir"]) != want_mk:
            diffs.append(f"workflow {'found' if found else 'not found'}: the group callback creates {sorted(res['mkdir'])}, expected {sorted(want_mk)}")
        elif res["mkdir"].index(base + "/.gwf") > res["mkdir"].index(base + "/.gwf/logs"):
            diffs.append("the logs directory is created before the state directory (mkdir without parents fails)")
        if res["config_path"] != base + "/.gwfconf.json":
            diffs.append(f"workflow {'found' if found else 'not found'}: configuration loaded from {res['config_path']}, expected {base}/.gwfconf.json")
        c = res["context"] or {}
        if c.get("working_dir") != base or c.get("workflow_file") != base + "/workflow.py" or c.get("workflow_obj") != "gwf":
            diffs.append(f"workflow {'found' if found else 'not found'}: Context(working_dir={c.get('working_dir')}, workflow_file={c.get('workflow_file')}, "
                         f"workflow_obj={c.get('workflow_obj')}), expected the workflow file's directory {base}")
        if found and (res["prompt"] or res["init"]):
            diffs.append("the group callback prompts / initialises a project although a workflow file was found")
        if not found and (not res["prompt"] or res["init"] != base):
            diffs.append("without a workflow file the callback must prompt and initialise the invoking directory only")
        ev = [e[0] for e in res["events"]]
        if not found and "prompt" in ev and "init" in ev and ev.index("prompt") > ev.index("init"):
            diffs.append("the project skeleton is written before the prompt is confirmed")
    # the user declines the offer to create a project: nothing may be created
    res, err = eval_cli_main(ctx, found=False, decline=True)
    if err:
        return n, diffs, err
    n += 1
    if res["raised"] != "Abort" or res["init"] or res["mkdir"]:
        diffs.append(f"no workflow file and the prompt declined: the callback {'ends with ' + str(res['raised']) if res['raised'] else 'continues'}, "
                     f"initialises {res['init']} and creates {res['mkdir']}; expected click.Abort with nothing created")
    return n, diffs, None


def cli_overrides_witness(ctx):
    """Every route by which TEXT from the command line becomes a configuration value coerces it as `gwf config set KEY VALUE` does (integers, yes/no/true/false):
    a repeatable KEY=VALUE option of the `gwf` group (if there is one) is given the spellings a user types to switch something off or to give a number, and the
    configuration the commands then see is compared with what `config set` stores for the same text.  No such option: nothing to compare (0 rows)."""
    idx = ctx.index
    main = idx.func("gwf.cli:main")
    ci = idx.cls("gwf.conf:FileConfig")
    diffs, n = [], 0
    params = main.positional_params()
    for d in ctx.index.expanded_decorators(main):
        if not (isinstance(d, ast.Call) and idx.canon(d.func, main.module) == "click.option"):
            continue
        kw = {k.arg: k.value for k in d.keywords if k.arg}
        names = [a.value for a in d.args if isinstance(a, ast.Constant) and isinstance(a.value, str)]
        multiple = isinstance(kw.get("multiple"), ast.Constant) and kw["multiple"].value is True
        metavar = kw["metavar"].value if isinstance(kw.get("metavar"), ast.Constant) else ""
        if not (multiple and "=" in str(metavar)):
            continue
        bare = [x for x in names if not x.startswith("-")]
        pname = (bare[0] if bare else max((x for x in names if x.startswith("--")), key=len)[2:]).replace("-", "_")
        if pname not in params:
            continue
        texts = {"clean_logs": "false", "flag.no": "no", "flag.yes": "yes", "number": "12", "backend.slurm.log_mode": "merged", "zero": "0"}
        # what `config set` stores for these texts
        ref = make_instance(ctx, ci, "config", path=PROJ + "/.gwfconf.json", data=__import__("collections").ChainMap({}, {}))
        ip = PureInterp(ctx)
        want = {}
        try:
            for k_, v_ in texts.items():
                ip.call(idx.method(ci, "__setitem__"), (k_, v_), {}, self_obj=ref)
                want[k_] = ip.call(idx.method(ci, "get"), (k_,), {}, self_obj=ref)
        except (Raised, Unsupported) as exc:
            return n, diffs, f"config set reference: {exc}"
        given = tuple(f"{k_}={v_}" for k_, v_ in texts.items())
        res, err = eval_cli_main_with(ctx, {pname: given})
        if err:
            return n, diffs, err
        n += 1
        cfg = (res.get("context") or {}).get("config")
        if res["raised"] or not isinstance(cfg, Obj):
            diffs.append(f"`gwf {names[0]} {' '.join(given[:2])} ...` ends with {res['raised']}")
            continue
        got = {}
        for k_ in texts:
            try:
                got[k_] = ip.call(idx.method(ci, "get"), (k_,), {}, self_obj=cfg)
            except (Raised, Unsupported) as exc:
                got[k_] = f"<{exc}>"
        bad = {k_: (got[k_], want[k_]) for k_ in texts if got[k_] != want[k_] or type(got[k_]) is not type(want[k_])}
        if bad:
            diffs.append(f"`gwf {names[0]} KEY=VALUE`: the commands see {{key: (value, what `gwf config set` stores for the same text)}} = {bad}: text from this option is not coerced like "
                         "`config set` coerces it, so `false`/`no`/`0` arrive as non-empty strings - which are true - and e.g. `clean_logs=false` does not switch log cleaning off")
    return n, diffs, None


def eval_cli_main_with(ctx, extra):
    """eval_cli_main with further options of the group given explicitly."""
    return eval_cli_main(ctx, extra_options=extra)


class OffEnv(dict):
    """An environment in which every variable that is looked up and not listed reads "0" - the value a user exports to switch something OFF."""

    def get(self, key, default=None):
        return dict.get(self, key, "0")


def cli_spec_switch_witness(ctx):
    """C18: which hash store the commands get, by (use_spec_hashes in the project configuration) x (environment): the file-backed store exactly when the
    configuration says so - also when every environment variable gwf cares to look at reads "0"."""
    diffs, n = [], 0
    gsh = ctx.index.func("gwf.core:get_spec_hashes")
    for cval in (None, False, True):
        for env_label, env in (("empty environment", {}), ('an environment in which every variable gwf looks up reads "0"', OffEnv())):
            res, err = eval_cli_main(ctx, config={} if cval is None else {"use_spec_hashes": cval}, env=env)
            if err:
                return n, diffs, err
            if res["raised"] or not res["context"] or res["context"].get("config") is None:
                continue     # reported by the location / precedence witnesses
            cfg = res["context"]["config"]
            interp = PureInterp(ctx, hooks={"os.getenv": lambda k, d=None, e=env: e.get(k, d), "os.environ.get": lambda k, d=None, e=env: e.get(k, d)})
            try:
                st = interp.call(gsh, (), {"working_dir": PROJ, "config": cfg})
            except Raised as exc:
                diffs.append(f"use_spec_hashes={cval} in the project configuration, {env_label}: get_spec_hashes ends with {exc.kind}")
                continue
            except Unsupported as exc:
                return n, diffs, str(exc)
            n += 1
            got = st._name if isinstance(st, Obj) else repr(st)
            want = "FileSpecHashes" if cval is True else "NoopSpecHashes"
            if got != want:
                diffs.append(f"use_spec_hashes {'not set' if cval is None else 'set to ' + str(cval)} in the project configuration, {env_label}: the commands get {got}, expected {want}: "
                             + ("spec hashing is switched on behind the configuration's back (an environment variable is tested for being non-empty, not for its value): every "
                                "target without a record is stale, the whole workflow is submitted again and spec edits cause re-runs although hashing is disabled" if want == "NoopSpecHashes"
                                else "spec hashing is switched off although the configuration enables it"))
    return n, diffs, None


def cli_main_precedence_witness(ctx):
    """C20: backend and colour are decided flag > project configuration > default, over the full finite table."""
    diffs, n = [], 0
    for fb in (None, "F"):
        for cb in (None, "C"):
            cfg = {} if cb is None else {"backend": cb}
            res, err = eval_cli_main(ctx, flag_backend=fb, config=cfg)
            if err:
                return n, diffs, err
            n += 1
            if res["raised"]:
                diffs.append(f"--backend={fb}, config backend={cb}: the group callback ends with {res['raised']}")
                continue
            want = fb or cb or tok("GUESSED")
            got = (res["context"] or {}).get("backend")
            if got != want:
                diffs.append(f"--backend={fb}, config backend={cb}: the commands get backend {got}, expected {want}")
            if res.get("config_written") is not None:
                diffs.append(f"--backend={fb}, config backend={cb}: the group callback - which runs before every command - writes the configuration file ({res['config_written']}): a "
                             "default or a flag value turns into a project setting nobody set (`gwf config get` shows it, `unset` is undone by the next invocation, and it outranks "
                             "the real default from then on)")
            if (res["context"] or {}).get("config") is None:
                diffs.append("the Context does not carry the loaded configuration")
    for fc in (None, True, False):
        for cc in (None, True, False):
            for env in ({}, {"NO_COLOR": "1"}):
                cfg = {} if cc is None else {"no_color": cc}
                res, err = eval_cli_main(ctx, flag_no_color=fc, config=cfg, env=env)
                if err:
                    return n, diffs, err
                n += 1
                if res["raised"]:
                    diffs.append(f"--no-color flag={fc}, config no_color={cc}, NO_COLOR={'set' if env else 'unset'}: the group callback ends with {res['raised']}")
                    continue
                want = fc if fc is not None else (cc if cc is not None else bool(env))
                if bool(res["colour_disabled"]) != bool(want):
                    diffs.append(f"--no-color flag={fc}, config no_color={cc}, NO_COLOR={'set' if env else 'unset'}: colours "
                                 f"{'disabled' if res['colour_disabled'] else 'enabled'}, expected {'disabled' if want else 'enabled'}")
    # the verbosity flag reaches the logging set-up
    res, err = eval_cli_main(ctx, verbose="debug")
    if err:
        return n, diffs, err
    n += 1
    if "debug" not in (res["logging"] or []):
        diffs.append(f"--verbose debug: logging is configured with {res['logging']}; the flag's value does not reach configure_logging")
    return n, diffs, None


def create_backend_witness(ctx):
    """C20: create_backend(name, wd, config) constructs the selected factory with working_dir and exactly config.get_namespace('backend.<name>')."""
    from ..consteval import FuncRef
    cb = ctx.index.func("gwf.backends.base:create_backend")
    diffs, n = [], 0
    for sel, other in (("slurm", "local"), ("local", "slurm")):
        seen = {}

        def h_ns(recv, prefix):
            seen["prefix"] = prefix
            return {"log_mode": "V:" + prefix, "port": 4242}

        def mk(name):
            # (a backend factory as the plug-ins declare them: working_dir plus the backend's own settings, each with a default)
            def fac(working_dir=None, log_mode="full", port=12345, host="localhost", accounting_enabled=True):
                k = {"working_dir": working_dir, "log_mode": log_mode, "port": port}
                seen["built"] = (name, (), k)
                seen["extra"] = {"host": host, "accounting_enabled": accounting_enabled}
                return Obj("backend:" + name)
            return fac

        hooks = {"attr:get_namespace": h_ns, "F_" + sel: mk(sel), "F_" + other: mk(other),
                 "gwf.backends.base.discover_backends": lambda: {sel: (FuncRef("F_" + sel), 10), other: (FuncRef("F_" + other), 20)}}
        interp = PureInterp(ctx, hooks=hooks)
        try:
            out = interp.call(cb, (sel, PROJ, Obj("config")))
        except Raised as exc:
            n += 1
            diffs.append(f"create_backend({sel!r}, ...) ends with {exc.kind} ({exc.detail[:60]})")
            continue
        except Unsupported as exc:
            return n, diffs, f"{type(exc).__name__}: {exc}"
        n += 1
        want = (sel, (), {"working_dir": PROJ, "log_mode": "V:backend." + sel, "port": 4242})
        got = seen.get("built")
        if got != want or seen.get("extra") != {"host": "localhost", "accounting_enabled": True} or not (isinstance(out, Obj) and out._name == "backend:" + sel):
            diffs.append(f"create_backend({sel!r}, ...) builds {got} from namespace {seen.get('prefix')!r}; expected factory {sel} with working_dir and exactly the "
                         f"'backend.{sel}' settings as keyword arguments")
    # a setting the selected backend does not know (a typo, a key of a newer version) next to one it does: refusing is fine, warning and dropping the unknown key is fine -
    # building the backend WITHOUT the setting it does know is not ("the settings of the selected backend reach it")
    built = []

    def fac2(working_dir=None, log_mode="full", accounting_enabled=True, **extra):
        if extra:
            raise Raised("TypeError", f"create_backend() got an unexpected keyword argument {sorted(extra)[0]!r}")
        built.append({"working_dir": working_dir, "log_mode": log_mode, "accounting_enabled": accounting_enabled})
        return Obj("backend:slurm")
    hooks = {"attr:get_namespace": lambda recv, prefix: {"log_mode": "none", "partition": "short"}, "F_slurm": fac2,
             "gwf.backends.base.discover_backends": lambda: {"slurm": (FuncRef("F_slurm"), 10)}}
    try:
        PureInterp(ctx, hooks=hooks).call(cb, ("slurm", PROJ, Obj("config")))
    except Raised:
        pass
    except Unsupported as exc:
        return n, diffs, f"{type(exc).__name__}: {exc}"
    n += 1
    if built and built[-1]["log_mode"] != "none":
        diffs.append(f"with backend.slurm.log_mode=none and an unknown key backend.slurm.partition configured, create_backend builds the backend with {built[-1]}: the setting "
                     "the backend does know (log_mode=none) is discarded together with the unknown one, so the configured value silently has no effect")
    return n, diffs, None


# --------------------------------------------------------------------------- `gwf cancel`
class GraphTok(list):
    """A symbolic Graph: iterating it yields its targets (as Graph.__iter__ does)."""


def eval_cancel_command(ctx, patterns=(), force=False, fail=None):
    """Evaluate the cancel command; fail = {target name: exception kind} raised by backend.cancel."""
    idx = ctx.index
    cc = idx.func("gwf.plugins.cancel:cancel")
    events = []
    all_targets = [target_obj(ctx, name=n) for n in ("A", "B", "C")]
    selected = [all_targets[0], all_targets[2]]
    graph = GraphTok(all_targets)
    fail = dict(fail or {})

    def h_cancel(recv, target):
        events.append(("cancel", target.name))
        if target.name in fail:
            raise Raised(fail[target.name], "cancel failed")

    def h_filter(g, pats):
        events.append(("filter_names", g is graph, tuple(pats)))
        # what the command gets is what filter_names really returns for these patterns - the same KIND of iterable too (a set, a list, a lazy generator)
        try:
            return PureInterp(ctx).call(idx.func("gwf.filtering:filter_names"), (g, tuple(pats)))
        except (Raised, Unsupported):
            return list(selected)

    def h_backend(*a, **k):
        events.append(("create_backend",))
        return Obj("backend")

    hooks = {
        "click.confirm": lambda *a, **k: events.append(("prompt", k.get("abort"))),
        "gwf.workflow.Workflow.from_context": lambda c: Obj("workflow", targets={t.name: t for t in all_targets}),
        "gwf.Workflow.from_context": lambda c: Obj("workflow", targets={t.name: t for t in all_targets}),
        "gwf.core.Graph.from_targets": lambda *a, **k: graph,
        "getattr:targets": lambda o: {t.name: t for t in all_targets}, "getattr:dependencies": lambda o: {t: set() for t in all_targets},
        "getattr:dependents": lambda o: {t: set() for t in all_targets}, "attr:endpoints": lambda recv: set(all_targets),
        "gwf.filtering.filter_names": h_filter,
        "gwf.backends.base.create_backend": h_backend, "gwf.backends.create_backend": h_backend,
        "attr:cancel": h_cancel,
        # what gwf last heard of the jobs: A runs, C is queued, B's job is in a state gwf shows as unknown (SGE Eqw / dr, LSF UNKWN ...) - alive at the scheduler all the same
        "attr:status": lambda recv, target: EnumVal("gwf.backends.base.BackendStatus", {"A": "RUNNING", "B": "UNKNOWN", "C": "SUBMITTED"}.get(target.name, "UNKNOWN")),
        "with_exit": lambda v: events.append(("backend.close",)) if v._name == "backend" else None,
        "click.echo": lambda *a, **k: events.append(("echo", a[0] if a else "")),
    }
    interp = PureInterp(ctx, hooks=hooks)
    out = {"events": events, "raised": None}
    try:
        call_command(ctx, interp, cc, (ctx_obj(ctx, backend="B", working_dir=PROJ, config={}), tuple(patterns), force))
    except Raised as exc:
        out["raised"] = exc.kind
    except Unsupported as exc:
        return None, f"Unsupported: {exc}"
    return out, None


def cancel_command_witness(ctx):
    """C17: selection, prompt and failure independence of `gwf cancel` on a finite witness table."""
    diffs, n = [], 0
    for patterns, force in ((("[AC]",), False), (("[AC]",), True), (("C", "A"), True), (("nomatch*",), True), (("nomatch*",), False), ((), True), ((), False)):
        out, err = eval_cancel_command(ctx, patterns, force)
        if err:
            return n, diffs, err
        n += 1
        ev = out["events"]
        kinds = [e[0] for e in ev]
        cancelled = [e[1] for e in ev if e[0] == "cancel"]
        want = ([] if patterns == ("nomatch*",) else ["A", "C"]) if patterns else ["A", "B", "C"]
        label = f"gwf cancel {' '.join(patterns)}{' --force' if force else ''}"
        if out["raised"]:
            diffs.append(f"`{label}` ends with {out['raised']}")
            continue
        if sorted(cancelled) != want:
            diffs.append(f"`{label}`: backend.cancel called for {cancelled}, expected {want} ({'the targets filter_names selects' if patterns else 'every target of the workflow'})")
        if patterns and ("filter_names", True, tuple(patterns)) not in ev:
            diffs.append(f"`{label}`: the patterns are not resolved with filter_names(graph, patterns)")
        need_prompt = not patterns and not force
        if need_prompt and (("prompt", True) not in ev or kinds.index("prompt") > kinds.index("create_backend")):
            diffs.append(f"`{label}`: cancelling everything must ask for confirmation (abort on decline) before the backend is created")
        if not need_prompt and "prompt" in kinds:
            diffs.append(f"`{label}` asks for confirmation although targets were named or --force was given")
        if "backend.close" not in kinds:
            diffs.append(f"`{label}`: the backend is not closed (tracked-job state not saved)")
    for kind in ("TargetError", "BackendError"):
        for pos in ("A", "B", "C"):
            out, err = eval_cancel_command(ctx, (), True, fail={pos: kind})
            if err:
                return n, diffs, err
            n += 1
            cancelled = [e[1] for e in out["events"] if e[0] == "cancel"]
            if out["raised"] or cancelled != ["A", "B", "C"]:
                diffs.append(f"{kind} while cancelling {pos}: the command {'ends with ' + out['raised'] if out['raised'] else 'continues'}; cancel was attempted for {cancelled}, "
                             "expected all of A, B, C (one failure must not stop the remaining cancellations)")
            elif not any(e[0] == "echo" and pos in str(e[1]) and "could not" in str(e[1]).lower() for e in out["events"]):
                diffs.append(f"{kind} while cancelling {pos}: the failure is not reported to the user")
    out, err = eval_cancel_command(ctx, (), True, fail={"A": "UnsupportedOperationError"})
    if err:
        return n, diffs, err
    n += 1
    if out["raised"] not in ("Abort",):
        diffs.append(f"a backend that cannot cancel at all: the command ends with {out['raised']}, expected click.Abort")
    return n, diffs, None



def anchored_norm(value, wd, rel):
    """Is `value` the anchored, normalised form of join(wd, rel)?  abspath() both anchors and normalises; normpath() only normalises,
    so a result that never went through abspath is only acceptable when nothing relative is left (wd is a token that may be relative)."""
    import posixpath
    if not isinstance(value, str):
        return False
    # markers: abs: = anchored and normalised (os.path.abspath, Path.resolve), norm: = normalised only (normpath), anch: = anchored only (Path.absolute keeps '..')
    anchored = "⟦abs:" in value or "⟦anch:" in value
    normalised = "⟦abs:" in value or value.startswith("⟦norm:")     # a normalisation applied before the anchoring join does not cover the joined result
    plain = value.replace("⟦abs:", "").replace("⟦norm:", "").replace("⟦anch:", "")
    depth = value.count("⟦abs:") + value.count("⟦norm:") + value.count("⟦anch:")
    for _ in range(depth):
        if plain.endswith("⟧"):
            plain = plain[:-1]
    want = wd + "/" + rel
    same = posixpath.normpath(plain.replace(wd, "/WD")) == posixpath.normpath(want.replace(wd, "/WD"))
    return anchored and normalised and same


# --------------------------------------------------------------------------- should_run on a finite witness table
def eval_should_run(ctx, inputs, outputs, spec_changed=False):
    """should_run(target, fs, spec_hashes) with files given as {path: mtime or None (missing)}; returns bool or an error string."""
    sr = ctx.index.func("gwf.scheduling:should_run")
    files = dict(inputs)
    files.update(outputs)

    def h_exists(recv, path):
        return files.get(path) is not None

    def h_changed_at(recv, path):
        if files.get(path) is None:
            raise Raised("FileNotFoundError", path)
        return files[path]

    target = target_obj(ctx, name="T", inputs=list(inputs), outputs=list(outputs))
    hooks = {"attr:exists": h_exists, "attr:changed_at": h_changed_at,
             "attr:flattened_inputs": lambda recv: list(inputs), "attr:flattened_outputs": lambda recv: list(outputs),
             "attr:has_changed": lambda recv, t: ("H" if spec_changed else None)}
    interp = PureInterp(ctx, hooks=hooks)
    try:
        return interp.call(sr, (target, Obj("fs"), Obj("spec_hashes")))
    except (Raised, Unsupported) as exc:
        return f"<{type(exc).__name__}: {exc}>"


def should_run_witnesses():
    """(label, inputs, outputs, spec_changed, expected) rows; expected follows the property text, not the code."""
    rows = []

    def add(label, ins, outs, spec=False):
        present = [v for v in outs.values() if v is not None]
        if spec or not outs or len(present) != len(outs):
            want = True
        else:
            want = max(ins.values(), default=float("-inf")) > min(outs.values())
        rows.append((label, ins, outs, spec, want))

    add("no outputs", {"/p/in": 5}, {})
    add("no outputs, no inputs", {}, {})
    add("output missing", {"/p/in": 1}, {"/p/out": None})
    add("second output missing", {"/p/in": 1}, {"/p/o1": 9, "/p/o2": None})
    add("first output missing", {"/p/in": 1}, {"/p/o1": None, "/p/o2": 9})
    add("up to date", {"/p/in": 1}, {"/p/out": 2})
    add("input newer", {"/p/in": 3}, {"/p/out": 2})
    add("tie, input path sorts after output path", {"/p/z_in": 2}, {"/p/a_out": 2})
    add("tie, input path sorts before output path", {"/p/a_in": 2}, {"/p/z_out": 2})
    add("no inputs", {}, {"/p/out": 2})
    add("spec changed, files up to date", {"/p/in": 1}, {"/p/out": 2}, spec=True)
    add("spec changed, no outputs", {}, {}, spec=True)
    # the decision is about the files' time stamps relative to each other, never relative to the local clock (a file server whose clock runs ahead, or files dated 1970)
    from ..symeval import CLOCK as _now
    add("both files stamped ahead of the local clock (file server runs fast), output newer", {"/p/in": _now + 500.0}, {"/p/out": _now + 600.0})
    add("both files stamped ahead of the local clock, input newer", {"/p/in": _now + 600.0}, {"/p/out": _now + 500.0})
    add("output stamped ahead of the local clock, input just written", {"/p/in": _now - 1.0}, {"/p/out": _now + 600.0})
    add("files dated at the epoch (reproducible archive), output newer", {"/p/in": 0.0}, {"/p/out": 0.5})
    add("files dated at the epoch, tie", {"/p/in": 0.0}, {"/p/out": 0.0})
    for order in ((1, 5, 9), (9, 5, 1), (5, 9, 1), (5, 1, 9)):
        add(f"three outputs {order}, input at 3 (older than some, newer than the oldest)", {"/p/in": 3}, {f"/p/o{i}": t for i, t in enumerate(order)})
        add(f"three inputs {order}, output at 7 (newer than some, older than the newest)", {f"/p/i{i}": t for i, t in enumerate(order)}, {"/p/out": 7})
        add(f"three inputs {order}, output at 9 (tie with the newest)", {f"/p/i{i}": t for i, t in enumerate(order)}, {"/p/out": 9})
        add(f"three outputs {order}, input at 1 (tie with the oldest)", {"/p/in": 1}, {f"/p/o{i}": t for i, t in enumerate(order)})
    return rows


def should_run_witness(ctx):
    diffs, n = [], 0
    for label, ins, outs, spec, want in should_run_witnesses():
        got = eval_should_run(ctx, ins, outs, spec)
        if isinstance(got, str) and got.startswith("<Unsupported"):
            return n, diffs, got
        n += 1
        if got is not want:
            diffs.append(f"should_run on [{label}] inputs={ins} outputs={outs}{' spec changed' if spec else ''} gives {got}, the property prescribes {want}")
    return n, diffs, None



def eval_query_failure(ctx, mod, cname):
    """<Ops>.get_job_states with every scheduler command failing (BackendError from call()): must propagate, never yield a partial/empty state map."""
    ci = ctx.index.cls(f"{mod}:{cname}")
    m = ctx.index.method(ci, "get_job_states")
    seen = []

    def failing(exe, *a, **k):
        seen.append(exe)
        raise Raised("BackendError", f"{exe} failed")

    interp = PureInterp(ctx, hooks={"gwf.backends.utils.call": failing})
    interp.max_depth = 10
    obj = make_instance(ctx, ci, "ops", working_dir=PROJ, log_mode="full", accounting_enabled=True, target_defaults={})
    try:
        res = interp.call(m, (["1", "2"],), {}, self_obj=obj)
        return ("returned", res, seen), m
    except Raised as exc:
        return ("raised", exc.kind, seen), m
    except Unsupported as exc:
        return ("unsupported", str(exc), seen), m


# --------------------------------------------------------------------------- worker-pool server: one connection's session
def eval_server_session(ctx, requests):
    """Server.handle_connection fed with the given request dicts (then EOF); scheduler and stream effects are recorded events.

    Returns {"calls": [(method, kwargs/args)], "responses": [(kind, {key: value})], "ended": "return"|"raise <kind>", "reads": n}."""
    import json as _json
    idx = ctx.index
    ci = idx.cls("gwf.backends.local:Server")
    hc = idx.method(ci, "handle_connection")
    lines = [(_json.dumps(r) + "\n").encode("utf-8") for r in requests]
    state = {"i": 0}
    calls, responses = [], []
    next_tid = [100]

    def h_readline(recv, *a):
        i = state["i"]
        state["i"] += 1
        if i > len(lines) + 3:
            raise Unsupported("handler keeps reading after EOF")
        return lines[i] if i < len(lines) else b""

    def h_enqueue(recv, *a, **k):
        calls.append(("enqueue_task", a, dict(k)))
        next_tid[0] += 1
        return next_tid[0]

    def h_encode(kind, **kw):
        responses.append((kind, dict(kw)))
        return "ENC"

    hooks = {
        "attr:readline": h_readline,
        "attr:enqueue_task": h_enqueue,
        "attr:cancel_task": lambda recv, *a, **k: calls.append(("cancel_task", a, dict(k))),
        "attr:get_task_states": lambda recv, *a, **k: calls.append(("get_task_states", a, dict(k))) or {101: "STATE_101"},
        "attr:get_task_state": lambda recv, *a, **k: calls.append(("get_task_state", a, dict(k))) or "STATE_OF_" + str((list(a) + list(k.values()))[0]),
        "attr:shutdown": lambda recv, *a, **k: calls.append(("scheduler.shutdown", a, dict(k))),
        "attr:close": lambda recv, *a, **k: calls.append(("close:" + getattr(recv, "_name", "?"), a, dict(k))),
        "attr:wait_closed": lambda recv, *a, **k: calls.append(("wait_closed", a, dict(k))),
        "attr:write": lambda recv, *a, **k: calls.append(("write", a, {})),
        "attr:drain": lambda recv, *a, **k: None,
        # the rest of asyncio.StreamWriter / StreamReader a handler may look at
        "attr:get_extra_info": lambda recv, name=None, default=None: {"peername": ("127.0.0.1", 50000), "sockname": ("127.0.0.1", 12345)}.get(name, default),
        "attr:is_closing": lambda recv: any(c[0] == "close:" + getattr(recv, "_name", "?") for c in calls),
        "attr:at_eof": lambda recv: state["i"] > len(lines),
        "attr:can_write_eof": lambda recv: True, "attr:write_eof": lambda recv: None,
        "attr:writelines": lambda recv, data: [calls.append(("write", (d,), {})) for d in data] and None,
        "gwf.backends.local.encode": h_encode,
    }
    interp = PureInterp(ctx, hooks=hooks)
    interp.max_depth = 8
    server = Obj("server_obj", scheduler=Obj("scheduler"), server=Obj("aio_server"), **{"__class__": ci})
    from ..symeval import _simple_field_default
    for name, _ann, value in ci.fields:
        if name not in ("scheduler", "server") and _simple_field_default(value) is Ellipsis:   # fields with a literal default / factory get it lazily
            server.__setattr__(name, Obj("field:" + name))
    out = {"calls": calls, "responses": responses}
    try:
        interp.call(hc, (Obj("reader"), Obj("writer")), {}, self_obj=server)
        out["ended"] = "return"
    except Raised as exc:
        out["ended"] = f"raise {exc.kind}"
    except Unsupported as exc:
        out["ended"] = f"unsupported: {exc}"
    out["reads"] = state["i"]
    return out, hc


def server_session_witness(ctx):
    """One well-formed session, an EOF-only session and a shutdown session of the pool's connection handler, against the protocol the client speaks."""
    diffs, n = [], 0
    sched = ctx.index.func("gwf.backends.local:Scheduler.enqueue_task")
    params = sched.positional_params()[1:]
    msg = {"name": "N", "script": "S", "working_dir": "/w", "time_limit": 5, "deps": [1, 2]}
    reqs = [dict(msg, __kind__="enqueue_task"), {"__kind__": "get_task_states"}, {"__kind__": "cancel_task", "tid": 7}, {"__kind__": "get_task_state", "tid": 7}, {"__kind__": "close"}]
    out, hc = eval_server_session(ctx, reqs)
    if out["ended"].startswith("unsupported"):
        return n, diffs, out["ended"]
    n += 1
    sc = [c for c in out["calls"] if c[0] in ("enqueue_task", "cancel_task", "get_task_states")]
    enq = [c for c in sc if c[0] == "enqueue_task"]
    if len(enq) != 1:
        diffs.append(f"an enqueue_task request leads to {len(enq)} scheduler.enqueue_task call(s)")
    else:
        bound = dict(zip(params, enq[0][1]))
        bound.update(enq[0][2])
        dv = bound.get("deps")
        if isinstance(dv, (tuple, set, frozenset)):
            bound["deps"] = sorted(dv)          # any re-iterable collection of the same ids is as good as the list
        elif dv is not None and not isinstance(dv, list):
            kind = type(dv).__name__
            try:
                bound["deps"] = list(dv)
            except TypeError:
                pass
            if bound.get("deps") == msg["deps"]:
                diffs.append(f"the prerequisite ids reach the scheduler as a one-shot iterator ({kind}): the task coroutine goes through them twice (wait for all, then check every "
                             "state), the second pass sees nothing, so a failed or cancelled prerequisite no longer stops the dependent")
        if {k: bound.get(k, Ellipsis) for k in msg} != msg:
            diffs.append(f"enqueue_task request {msg} reaches the scheduler as {bound}: every field must arrive under its own name (deps are the prerequisites the task waits for)")
    if [c[0] for c in sc] != ["enqueue_task", "get_task_states", "cancel_task"]:
        diffs.append(f"requests [enqueue_task, get_task_states, cancel_task] lead to scheduler calls {[c[0] for c in sc]}")
    can = [c for c in sc if c[0] == "cancel_task"]
    if can and (list(can[0][1]) + list(can[0][2].values())) != [7]:
        diffs.append(f"cancel_task for id 7 calls scheduler.cancel_task with {can[0][1]} {can[0][2]}")
    resp = out["responses"]
    if ("task_enqueued", {"tid": 101}) not in resp:
        diffs.append(f"the id returned by the scheduler (101) is not what the client is told: responses {resp[:2]}")
    if ("task_states", {"tasks": {101: "STATE_101"}}) not in resp:
        diffs.append(f"a state query is not answered with the scheduler's state table: responses {resp}")
    if not any(k == "task_state" and kw.get("state") == "STATE_OF_7" for k, kw in resp):
        diffs.append(f"a query for the state of task 7 is not answered with that task's state: responses {[x for x in resp if x[0] == 'task_state']}")
    if len([c for c in out["calls"] if c[0] == "write"]) != len(resp):
        diffs.append("a response is built but not written to the connection")
    if out["ended"] != "return" or out["reads"] != len(reqs):
        diffs.append(f"after `close` the handler {out['ended']}s having read {out['reads']} of {len(reqs)} requests (+EOF)")
    # EOF only
    out, _ = eval_server_session(ctx, [])
    if out["ended"].startswith("unsupported"):
        diffs.append("a client that disconnects without `close`: the handler keeps reading at end-of-stream (busy loop that starves every other client and task)")
    n += 1
    if any(c[0].startswith("close:aio_server") or c[0] == "scheduler.shutdown" for c in out["calls"]):
        diffs.append("a dropped connection shuts the pool down")
    # shutdown
    out, _ = eval_server_session(ctx, [{"__kind__": "shutdown"}])
    n += 1
    if not any(c[0] == "close:aio_server" for c in out["calls"]):
        diffs.append("a shutdown request does not close the listening server")
    # unknown kind, then a valid request from the same client: must not reach the scheduler tables in a damaged way / must not shut down
    out, _ = eval_server_session(ctx, [{"__kind__": "bogus", "x": 1}])
    n += 1
    if any(c[0] in ("close:aio_server", "scheduler.shutdown", "enqueue_task", "cancel_task") for c in out["calls"]):
        diffs.append(f"an unknown request kind has effects on the pool: {[c[0] for c in out['calls']]}")
    return n, diffs, None


def model_connection():
    """A connected socket and the two file objects `makefile` gives, as far as a client may look at them besides reading and writing (which the witness hooks):
    time-outs, shutdown/close and the `closed` flags follow the socket and io documentation."""
    sock = Obj("sock", _timeout=None, _closed=False)
    streams = []

    def mk(name):
        st = Obj(name, closed=False, name=name, encoding="utf-8", errors="strict", newlines=None)
        st.close = lambda: setattr(st, "closed", True)
        st.fileno = lambda: 7
        st.readable = lambda: name == "reader"
        st.writable = lambda: name == "writer"
        st.__enter__ = lambda: st
        st.__exit__ = lambda *a: setattr(st, "closed", True)
        streams.append(st)
        return st

    sock.settimeout = lambda t: setattr(sock, "_timeout", t)
    sock.gettimeout = lambda: sock._timeout
    sock.setblocking = lambda flag: setattr(sock, "_timeout", None if flag else 0.0)
    sock.getblocking = lambda: sock._timeout != 0.0
    sock.shutdown = lambda how=None: None
    sock.close = lambda: setattr(sock, "_closed", True)
    sock.detach = lambda: 7
    sock.fileno = lambda: -1 if sock._closed else 7
    sock.setsockopt = lambda *a: None
    sock.getsockopt = lambda *a: 0
    sock.getpeername = lambda: ("127.0.0.1", 12345)
    sock.getsockname = lambda: ("127.0.0.1", 50000)
    sock.makefile = lambda mode="r", *a, **k: mk("writer" if "w" in mode else "reader")
    return sock, mk("reader"), mk("writer")


def eval_local_client(ctx):
    """LocalOps.submit_target / cancel_job through the real Client methods with the socket streams hooked; returns the requests sent and results."""
    import json as _json
    idx = ctx.index
    ops_ci = idx.cls("gwf.backends.local:LocalOps")
    cl_ci = idx.cls("gwf.backends.local:Client")
    sent, flushed = [], []
    answers = []

    def h_encode(kind, **kw):
        sent.append((kind, dict(kw)))
        return "ENC%d" % len(sent)

    hooks = {
        "gwf.backends.local.encode": h_encode,
        "attr:write": lambda recv, data: flushed.append(("write", data)),
        "attr:flush": lambda recv: flushed.append(("flush",)),
        "attr:readline": lambda recv, *a: answers.pop(0) if answers else "",
    }
    sock, reader, writer = model_connection()
    client = make_instance(ctx, cl_ci, "client", sock=sock, reader=reader, writer=writer)
    ops = make_instance(ctx, ops_ci, "ops", working_dir=PROJ, host="H", port=1, target_defaults={}, _client=client)
    interp = PureInterp(ctx, hooks=hooks)
    interp.max_depth = 8
    out = {}
    answers.append(_json.dumps({"__kind__": "task_enqueued", "tid": 55}) + "\n")
    try:
        out["submit"] = interp.call(idx.method(ops_ci, "submit_target"), (target_obj(ctx, name="N", spec="S", working_dir="/w"), [0, 3]), {}, self_obj=ops)
    except (Raised, Unsupported) as exc:
        out["submit"] = f"<{type(exc).__name__}: {exc}>"
    out["submit_sent"] = list(sent)
    out["submit_io"] = list(flushed)
    del sent[:], flushed[:]
    # a freshly started pool numbers its first task 0
    answers.append(_json.dumps({"__kind__": "task_enqueued", "tid": 0}) + "\n")
    try:
        out["submit0"] = interp.call(idx.method(ops_ci, "submit_target"), (target_obj(ctx, name="N0", spec="S", working_dir="/w"), []), {}, self_obj=ops)
    except Raised as exc:
        out["submit0"] = f"<raises {exc.kind}: {exc.detail[:60]}>"
    except Unsupported as exc:
        out["submit0"] = Ellipsis
    del sent[:], flushed[:]
    try:
        out["cancel"] = interp.call(idx.method(ops_ci, "cancel_job"), (0,), {}, self_obj=ops)
    except (Raised, Unsupported) as exc:
        out["cancel"] = f"<{type(exc).__name__}: {exc}>"
    out["cancel_sent"] = list(sent)
    out["cancel_io"] = list(flushed)
    # the state query: one get_task_states request, the reply's names decoded to LocalStatus members
    del sent[:], flushed[:]
    answers.append(_json.dumps({"__kind__": "task_states", "tasks": {"0": "RUNNING", "3": "FAILED"}}) + "\n")
    st_m = idx.method(cl_ci, "status")
    try:
        out["status"] = interp.call(st_m, (), {}, self_obj=client) if st_m is not None else Ellipsis
    except Raised as exc:
        out["status"] = f"<raises {exc.kind}: {exc.detail[:60]}>"
    except Unsupported as exc:
        out["status"] = Ellipsis
    out["status_sent"] = list(sent)
    out["status_io"] = list(flushed)
    # round trips of the id submit_target handed back for the pool's task 55 (whatever its type on gwf's side): as a prerequisite, to cancel_job, in a state query
    X = out["submit"]
    out["roundtrip"] = {}
    if not (isinstance(X, str) and X.startswith("<")):
        del sent[:], flushed[:]
        answers.append(_json.dumps({"__kind__": "task_enqueued", "tid": 56}) + "\n")
        try:
            interp.call(idx.method(ops_ci, "submit_target"), (target_obj(ctx, name="N2", spec="S", working_dir="/w"), [X]), {}, self_obj=ops)
            out["roundtrip"]["deps"] = [m_[1].get("deps") for m_ in sent if m_[0] == "enqueue_task"]
        except (Raised, Unsupported) as exc:
            out["roundtrip"]["deps"] = f"<{type(exc).__name__}: {exc}>"
        del sent[:], flushed[:]
        try:
            interp.call(idx.method(ops_ci, "cancel_job"), (X,), {}, self_obj=ops)
            out["roundtrip"]["cancel"] = [m_[1].get("tid") for m_ in sent if m_[0] == "cancel_task"]
        except (Raised, Unsupported) as exc:
            out["roundtrip"]["cancel"] = f"<{type(exc).__name__}: {exc}>"
        del sent[:], flushed[:]
        answers.append(_json.dumps({"__kind__": "task_states", "tasks": {"55": "RUNNING", "56": "FAILED"}}) + "\n")
        gjs = idx.method(ops_ci, "get_job_states")
        try:
            st = interp.call(gjs, ([X],), {}, self_obj=ops) if gjs is not None else Ellipsis
            out["roundtrip"]["states"] = st
        except (Raised, Unsupported) as exc:
            out["roundtrip"]["states"] = f"<{type(exc).__name__}: {exc}>"
    return out


def local_client_witness(ctx):
    out = eval_local_client(ctx)
    diffs = []
    for k in ("submit", "cancel"):
        if isinstance(out[k], str) and out[k].startswith("<Unsupported"):
            return 0, diffs, out[k]
    want = {"name": "N", "script": "S", "working_dir": "/w", "deps": [0, 3]}
    ss = out["submit_sent"]
    # (further fields - a newer option of the request - are not this property's business; the ones it names must be there under their own names)
    if len(ss) != 1 or ss[0][0] != "enqueue_task" or {k: ss[0][1].get(k, Ellipsis) for k in want} != want or ss[0][1].get("time_limit") is not None:
        diffs.append(f"submitting target N with prerequisites [0, 3] (the pool numbers its tasks from 0) sends {ss}; expected one enqueue_task carrying name, script, "
                     "working_dir and deps=[0, 3]: a dropped id lets the task start before that prerequisite finished")
    X = out["submit"]
    if isinstance(X, str) and X.startswith("<"):
        diffs.append(f"the pool answers task_enqueued tid=55 but submit_target ends with {X}")
    else:
        rt = out.get("roundtrip") or {}
        # the id is opaque on gwf's side (55, "55" ...): what matters is that it names the pool's task 55 wherever gwf hands it back
        if rt.get("deps") != [[55]]:
            diffs.append(f"the pool answers task_enqueued tid=55 and submit_target returns {X!r}; given back as a prerequisite it is sent as deps={rt.get('deps')}, expected [55] (the pool "
                         "looks prerequisites up by its own integer ids): the dependent does not wait for task 55")
        if rt.get("cancel") != [55]:
            diffs.append(f"the pool answers task_enqueued tid=55 and submit_target returns {X!r}; cancel_job({X!r}) sends cancel_task with tid={rt.get('cancel')}, expected 55 as the pool "
                         "numbers it (an id of another type is not found in the pool's tables: the request fails in the pool and nothing is cancelled)")
        stt = rt.get("states")
        if stt is not Ellipsis and not (isinstance(stt, dict) and len(stt) == 1 and list(stt.values())[0] == EnumVal("gwf.backends.base.BackendStatus", "RUNNING")):
            diffs.append(f"the pool answers task_enqueued tid=55 and submit_target returns {X!r}; with the pool reporting task 55 RUNNING, get_job_states([{X!r}]) gives {stt}: the "
                         "target's state is not the state of its own task")
    if out.get("submit0") is not Ellipsis and not (out.get("submit0") == 0 and out.get("submit0") is not False):
        diffs.append(f"the pool answers task_enqueued tid=0 (the first task of a fresh pool) but submit_target returns {out.get('submit0')!r}: the pool accepted and runs the task, "
                     "gwf treats the submission as failed/untracked and the next run enqueues the target a second time")
    for k in ("submit_io", "cancel_io"):
        io = out[k]
        if [e[0] for e in io] != ["write", "flush"]:
            diffs.append(f"the request is not written and flushed to the socket ({[e[0] for e in io]}): it never reaches the pool")
    cs = out["cancel_sent"]
    if cs != [("cancel_task", {"tid": 0})]:
        diffs.append(f"cancelling job 0 (the pool's first task) sends {cs}; expected one cancel_task with tid=0")
    if out.get("status") is not Ellipsis:
        L = lambda n_: EnumVal("gwf.backends.local.LocalStatus", n_)
        st = out["status"]
        if out["status_sent"] != [("get_task_states", {})] or [e[0] for e in out["status_io"]] != ["write", "flush"]:
            diffs.append(f"a state query sends {out['status_sent']} (io {[e[0] for e in out['status_io']]}); expected one get_task_states request, written and flushed - otherwise "
                         "the client waits for an answer to a question it never asked")
        elif not isinstance(st, dict) or {str(k): v for k, v in st.items()} != {"0": L("RUNNING"), "3": L("FAILED")}:
            diffs.append(f"the pool answers task_states {{'0': 'RUNNING', '3': 'FAILED'}} but Client.status() gives {st}: each task's state must come back under its own id")
    return 3, diffs, None


def eval_enqueue(ctx, args=("N", "S", "/w", 5, [1, 2]), states=None):
    """Scheduler.enqueue_task evaluated with a fresh id 7: what is registered and what the worker coroutine is started with."""
    idx = ctx.index
    ci = idx.cls("gwf.backends.local:Scheduler")
    m = idx.method(ci, "enqueue_task")
    started = []

    def h_task(recv, *a, **k):
        started.append((a, dict(k)))
        return Obj("coro")

    hooks = {"attr:try_handle_task": h_task, "asyncio.create_task": lambda coro, **k: Obj("task", coro=coro),
             "asyncio.ensure_future": lambda coro, **k: Obj("task", coro=coro)}
    if states is None:
        # the prerequisites a request names are tasks the pool accepted earlier (ids below the fresh one)
        states = {d: EnumVal("gwf.backends.local.LocalStatus", "RUNNING" if i % 2 == 0 else "SUBMITTED") for i, d in enumerate(args[4] or []) if isinstance(d, int)}
    def _task(st):
        fin = getattr(st, "member", None) not in ("RUNNING", "SUBMITTED", None)      # the worker task of a task in a final state has finished
        return Obj("task", done=lambda: fin, cancelled=lambda: getattr(st, "member", None) == "CANCELLED", result=lambda: None, exception=lambda: None)
    before_t = {k: _task(v) for k, v in states.items()}
    sched = Obj("scheduler", tasks=dict(before_t), task_states=dict(states), tid_generator=iter([7, 8, 9]), **{"__class__": ci})
    interp = PureInterp(ctx, hooks=hooks)
    try:
        ret = interp.call(m, tuple(args), {}, self_obj=sched)
    except (Raised, Unsupported) as exc:
        return {"error": f"{type(exc).__name__}: {exc}"}, m
    # (what the call added to / changed in the tables)
    return {"ret": ret, "tasks": {k: v for k, v in sched.tasks.items() if before_t.get(k) is not v},
            "states": {k: v for k, v in sched.task_states.items() if k not in states or states[k] != v}, "started": started}, m


# --------------------------------------------------------------------------- find_workflow on a symbolic directory tree
def eval_find_workflow(ctx, spec, cwd, existing, links=None, env=None, more_args=(), more_kwargs=None, _session=None, _then=None):
    """utils.find_workflow(spec) with the invoking directory `cwd` and the set of existing files; returns (path, obj) / 'raise <kind>' / '<unsupported>'."""
    import posixpath
    fw = ctx.index.func("gwf.utils:find_workflow")

    def P(x):
        # pathlib's own tidying of a path string: no "./" components, no doubled or trailing slashes; "" is "."
        s_ = str(x)
        if s_ in ("", "."):
            return PathTok(".")
        lead = "/" if s_.startswith("/") else ""
        parts = [c for c in s_.split("/") if c not in ("", ".")]
        return PathTok(lead + "/".join(parts) if parts or lead else ".")

    def h_join(recv, *parts):
        return P(posixpath.join(str(recv), *[str(p) for p in parts]))

    def absol(p_):
        p_ = str(p_)
        return posixpath.normpath(p_ if p_.startswith("/") else posixpath.join(cwd, p_))

    links = dict(links or {})

    def h_resolve(p_, *a, **k):
        # what Path.resolve()/os.path.realpath do: make absolute, collapse '..', and FOLLOW symbolic links (of the file or of a directory on the way)
        s_ = str(p_)
        if not s_.startswith("/"):
            s_ = posixpath.join(cwd, s_)
        s_ = posixpath.normpath(s_)
        for _ in range(4):
            for src in sorted(links, key=len, reverse=True):
                if s_ == src or s_.startswith(src + "/"):
                    s_ = posixpath.normpath(links[src] + s_[len(src):])
                    break
            else:
                break
        return P(s_)

    looked = []
    hooks = {
        "pathlib.Path": lambda *a: P(posixpath.join(*[str(x) for x in a])) if a else P("."),
        "pathlib.Path.cwd": lambda: P(cwd), "os.getcwd": lambda: cwd,
        "attr:is_absolute": lambda recv: str(recv).startswith("/"),
        "attr:joinpath": h_join,
        "attr:exists": lambda recv: (looked.append(str(recv)) or str(recv) in existing or (not str(recv).startswith("/") and absol(recv) in {posixpath.normpath(e_) for e_ in existing})),
        "attr:is_file": lambda recv: (looked.append(str(recv)) or str(recv) in existing or (not str(recv).startswith("/") and absol(recv) in {posixpath.normpath(e_) for e_ in existing})),
        "getattr:parent": lambda o: P(posixpath.dirname(str(o)) or "."),
        "getattr:anchor": lambda o: "/" if str(o).startswith("/") else "",
        "getattr:parents": lambda o: [P(p) for p in _parents(str(o))],
        # the purely lexical properties of a path, as pathlib computes them
        "getattr:parts": lambda o: __import__("pathlib").PurePosixPath(str(o)).parts,
        "getattr:name": lambda o: __import__("pathlib").PurePosixPath(str(o)).name if isinstance(o, PathTok) else o.name,
        "getattr:stem": lambda o: __import__("pathlib").PurePosixPath(str(o)).stem,
        "getattr:suffix": lambda o: __import__("pathlib").PurePosixPath(str(o)).suffix,
        "getattr:suffixes": lambda o: __import__("pathlib").PurePosixPath(str(o)).suffixes,
        "getattr:root": lambda o: "/" if str(o).startswith("/") else "", "getattr:drive": lambda o: "",
        "attr:as_posix": lambda recv: str(recv), "attr:with_name": lambda recv, nm: P(posixpath.join(posixpath.dirname(str(recv)), nm)),
        "attr:relative_to": lambda recv, other: P(str(__import__("pathlib").PurePosixPath(str(recv)).relative_to(str(other)))),
        "attr:is_relative_to": lambda recv, other: __import__("pathlib").PurePosixPath(str(recv)).is_relative_to(str(other)),
        "attr:resolve": h_resolve, "os.path.realpath": lambda p_, *a, **k: str(h_resolve(p_)), "attr:readlink": lambda recv: P(links.get(str(recv), str(recv))),
        "os.readlink": lambda p_: links.get(str(p_), str(p_)),
        "os.path.abspath": lambda p_: posixpath.normpath(str(p_) if str(p_).startswith("/") else posixpath.join(cwd, str(p_))),
        "os.path.normpath": lambda p_: posixpath.normpath(str(p_)),
        "attr:absolute": lambda recv: recv if str(recv).startswith("/") else P(posixpath.join(cwd, str(recv))),
        "os.path.exists": lambda p: (looked.append(str(p)) or str(p) in existing),
        "os.path.isabs": lambda p: str(p).startswith("/"),
        "os.path.dirname": lambda p: posixpath.dirname(str(p)),
    }
    env = {"PWD": cwd, "HOME": "/home/u"} if env is None else dict(env)
    hooks.update({"os.environ.get": lambda k_, d_=None: env.get(k_, d_), "os.getenv": lambda k_, d_=None: env.get(k_, d_),
                  "os.environ.__getitem__": lambda k_: env[k_], "os.environ.__contains__": lambda k_: k_ in env})
    interp = PureInterp(ctx, hooks=hooks)
    interp.max_loop = 64
    if _then is not None:
        # a second search in the same process from another directory (a notebook, a driver script, a test runner that calls gwf twice): first this one ...
        try:
            interp.call(fw, (spec,) + tuple(more_args), dict(more_kwargs or {}))
        except (Raised, Unsupported):
            pass
        cwd = _then       # ... then the directory changes (the hooks read `cwd` when they are called)
        env["PWD"] = _then
    try:
        res = interp.call(fw, (spec,) + tuple(more_args), dict(more_kwargs or {}))
    except Raised as exc:
        return f"raise {exc.kind}", looked
    except Unsupported as exc:
        return f"<unsupported: {exc}>", looked
    if isinstance(res, (tuple, list)) and len(res) == 2:
        return (str(res[0]), res[1]), looked
    return res, looked


def _parents(p):
    import posixpath
    out = []
    while p not in ("/", ""):
        p = posixpath.dirname(p)
        out.append(p)
    return out


def find_workflow_witness(ctx):
    rows = [
        ("workflow file in the invoking directory", "workflow.py:gwf", "/a/b/c", {"/a/b/c/workflow.py"}, ("/a/b/c/workflow.py", "gwf")),
        ("invoked two levels below the project", "workflow.py:gwf", "/a/b/c", {"/a/workflow.py"}, ("/a/workflow.py", "gwf")),
        ("project at the file system root", "workflow.py:gwf", "/a/b", {"/workflow.py"}, ("/workflow.py", "gwf")),
        ("nearest enclosing project wins", "workflow.py:gwf", "/a/b/c", {"/a/workflow.py", "/a/b/workflow.py"}, ("/a/b/workflow.py", "gwf")),
        ("no workflow file anywhere above", "workflow.py:gwf", "/a/b/c", {"/x/workflow.py"}, "raise FileNotFoundError"),
        ("invoked in the root directory, nothing there", "workflow.py:gwf", "/", set(), "raise FileNotFoundError"),
        ("object name given", "wf.py:analysis", "/a/b", {"/a/wf.py"}, ("/a/wf.py", "analysis")),
        ("no object name: default gwf", "wf.py", "/a/b", {"/a/wf.py"}, ("/a/wf.py", "gwf")),
        ("absolute path is taken as given, whatever the invoking directory", "/p/q/wf.py:gwf", "/a/b", {"/p/q/wf.py", "/a/b/wf.py"}, ("/p/q/wf.py", "gwf")),
        ("relative path with a directory part", "sub/wf.py:gwf", "/a/b", {"/a/sub/wf.py"}, ("/a/sub/wf.py", "gwf")),
        ("path with '..' in it", "../other/wf.py:gwf", "/a/b", {"/a/other/wf.py", "/a/b/../other/wf.py"}, ("/a/other/wf.py", "gwf")),
        # the project is where the file the user points at lives: a workflow file that is a symbolic link to a shared pipeline keeps its own directory
        ("the workflow file is a symbolic link to a shared pipeline", "workflow.py:gwf", "/a/b", {"/a/workflow.py"}, ("/a/workflow.py", "gwf"), {"/a/workflow.py": "/shared/pipeline.py"}),
        ("-f through a symlinked directory", "/home/u/proj/wf.py:gwf", "/x", {"/home/u/proj/wf.py"}, ("/home/u/proj/wf.py", "gwf"), {"/home/u/proj": "/scratch/u/proj"}),
        # the directory a process runs in is what the kernel says (getcwd), not what the environment says: $PWD is only a shell's note and is stale or foreign after
        # os.chdir, `make -C`, a cron/systemd wrapper, `sudo`, or when another tool exported it
        ("$PWD names another project than the directory gwf runs in", "workflow.py:gwf", "/a/b", {"/a/workflow.py", "/other/proj/workflow.py"}, ("/a/workflow.py", "gwf"), None,
         {"PWD": "/other/proj", "HOME": "/home/u"}),
        ("$PWD is not set", "workflow.py:gwf", "/a/b", {"/a/workflow.py"}, ("/a/workflow.py", "gwf"), None, {}),
        ("the same process searched from /p1/sub a moment ago and now runs in /p2", "workflow.py:gwf", "/p1/sub", {"/p1/workflow.py", "/p2/workflow.py"}, ("/p2/workflow.py", "gwf"), None, None, "/p2"),
    ]
    diffs, n = [], 0
    import posixpath as _pp
    # the call as the group callback makes it: whatever further arguments cli.main passes (a start directory, a flag) are passed here as well
    more_a, more_k = (), {}
    try:
        res_m, err_m = eval_cli_main(ctx)
        if err_m is None and res_m.get("find_args"):
            more_a, more_k = res_m["find_args"]
    except (Raised, Unsupported):
        pass
    for row in rows:
        label, spec, cwd, existing, want = row[:5]
        links = row[5] if len(row) > 5 else None
        env = row[6] if len(row) > 6 else None
        then_ = row[7] if len(row) > 7 else None
        got, looked = eval_find_workflow(ctx, spec, cwd, existing, links, env, more_a, more_k, _then=then_)
        if then_ is not None:
            cwd = then_
        if isinstance(got, tuple) and isinstance(got[0], str):
            got = (_pp.normpath(got[0] if got[0].startswith("/") else _pp.join(cwd, got[0])), got[1])      # '..' collapsed or not, relative to the invoking directory or absolute: the same location
        if isinstance(got, str) and got.startswith("<unsupported") and "loop bound" in got:
            got = "no termination (the search never stops at the root directory)"
        if isinstance(got, str) and got.startswith("<unsupported"):
            return n, diffs, got
        n += 1
        if got != want:
            diffs.append(f"find_workflow({spec!r}) invoked in {cwd} with files {sorted(existing)}{' and links ' + str(links) if links else ''} [{label}] gives {got}, expected {want}"
                         + (": the project directory (configuration, .gwf state, relative paths) moves to where the link points" if links else "")
                         + (f" with the environment {env}: the command acts on the project $PWD names - its state files, its tracked jobs - not the one it is run in" if env is not None and got != want and env.get("PWD") else ""))
    return n, diffs, None


def eval_store_load(ctx, ckey, attr, disk):
    """Run the store's initialiser (attrs default method or __attrs_post_init__/__init__) with the given file content (None = no file);
    returns the table the instance starts with, or an error string."""
    if ckey.endswith("TrackingBackend"):
        res = eval_backend_init(ctx, disk)
        return res if isinstance(res, str) else res["tracked"]
    ci, obj = store_object(ctx, ckey, attr, {})
    events = []
    hooks = file_hooks(events, disk if disk is not None else {})
    if disk is None:
        def h_open(path, mode="r", *a, **k):
            raise Raised("FileNotFoundError", str(path))
        hooks["builtins.open"] = h_open
    interp = PureInterp(ctx, hooks=hooks)
    interp.events = events
    try:
        for m in ci.methods.values():
            decos = [d or "" for d in m.decorator_names()]
            if any(d.endswith(f"{attr}.default") for d in decos):
                setattr(obj, attr, interp.call(m, (), {}, self_obj=obj))
            elif m.name in ("__attrs_post_init__",):
                interp.call(m, (), {}, self_obj=obj)
    except (Raised, Unsupported) as exc:
        return f"<{type(exc).__name__}: {exc}>"
    v = getattr(obj, attr)
    return dict(v) if isinstance(v, dict) else v


# --------------------------------------------------------------------------- configuration: commands and file round trip
def eval_config_session(ctx):
    """`gwf config set/get/unset` evaluated across two invocations through FileConfig.load/dump with the file modelled by hooks.

    Returns a list of (step, got, want)."""
    idx = ctx.index
    ci = idx.cls("gwf.conf:FileConfig")
    load = idx.method(ci, "load")
    cmd = {n: idx.func(f"gwf.plugins.config:{n}") for n in ("get", "set", "unset")}
    disk = {"content": None}
    events = []
    echoed = []

    def h_open(path, mode="r", *a, **k):
        mode = k.get("mode", mode)
        events.append(("open", str(path), mode))
        if "r" in mode and "+" not in mode and disk["content"] is None:
            raise Raised("FileNotFoundError", str(path))
        return Obj("file", path=str(path), mode=mode)

    def h_dump(data, fobj, *a, **k):
        events.append(("dump", dict(data), getattr(fobj, "path", None)))
        disk["content"] = dict(data)
        disk["path"] = getattr(fobj, "path", None)

    hooks = {"builtins.open": h_open, "json.dump": h_dump, "json.load": lambda f, *a, **k: dict(disk["content"] or {}),
             "click.echo": lambda *a, **k: echoed.append(a[0] if a else "")}
    interp = PureInterp(ctx, hooks=hooks)
    CFG = PROJ + "/.gwfconf.json"
    steps = []

    def invocation():
        # the configuration object a command gets is the one the group callback (cli.main) builds from the file - whatever it layers on top of it
        try:
            res, err = eval_cli_main(ctx, load_hook=lambda path: interp.call(load, (PathTok(str(path)),), {}, self_obj=ci))
            cfg = (res or {}).get("context", {}) and res["context"].get("config")
            if err is None and not res["raised"] and isinstance(cfg, Obj):
                return ctx_obj(ctx, config=cfg)
        except (Raised, Unsupported):
            pass
        cfg = interp.call(load, (PathTok(CFG),), {}, self_obj=ci)
        return ctx_obj(ctx, config=cfg)

    def run(step, fn, want):
        try:
            got = fn()
        except Raised as exc:
            got = f"raise {exc.kind}"
        except Unsupported as exc:
            got = f"<unsupported: {exc}>"
        steps.append((step, got, want))

    def do(name, c, *args):
        del echoed[:]
        interp.call(cmd[name], (c,) + args)
        return echoed[-1] if echoed else None

    try:
        c1 = invocation()
    except (Raised, Unsupported) as exc:
        return [("load without a file", f"<{type(exc).__name__}: {exc}>", "an empty configuration over the defaults")]
    run("get of a key that was never set", lambda: do("get", c1, "a"), "<not set>")
    run("get of a default-only key", lambda: do("get", c1, "clean_logs"), True)
    run("set a 12", lambda: (do("set", c1, "a", "12"), dict(disk["content"] or {}), disk.get("path"))[1:], ({"a": 12}, CFG))
    run("set flag no", lambda: (do("set", c1, "flag", "no"), dict(disk["content"] or {}))[1], {"a": 12, "flag": False})
    run("set backend.slurm.log_mode merged", lambda: (do("set", c1, "backend.slurm.log_mode", "merged"), dict(disk["content"] or {}))[1],
        {"a": 12, "flag": False, "backend.slurm.log_mode": "merged"})
    try:
        c2 = invocation()
    except (Raised, Unsupported) as exc:
        steps.append(("second invocation loads the file", f"<{type(exc).__name__}: {exc}>", "loads what the first one saved"))
        return steps
    run("later invocation: get a", lambda: do("get", c2, "a"), 12)
    run("later invocation: get flag (a stored False is a value)", lambda: do("get", c2, "flag"), False)
    run("later invocation: get backend.slurm.log_mode", lambda: do("get", c2, "backend.slurm.log_mode"), "merged")
    run("later invocation: get of an unset key", lambda: do("get", c2, "zzz"), "<not set>")
    run("unset a", lambda: (do("unset", c2, "a"), dict(disk["content"] or {}))[1], {"flag": False, "backend.slurm.log_mode": "merged"})
    run("unset of a key that is not set", lambda: (do("unset", c2, "never"), dict(disk["content"] or {}))[1], {"flag": False, "backend.slurm.log_mode": "merged"})
    run("unset of a default-only key", lambda: (do("unset", c2, "clean_logs"), dict(disk["content"] or {}), do("get", c2, "clean_logs"))[1:],
        ({"flag": False, "backend.slurm.log_mode": "merged"}, True))
    try:
        c3 = invocation()
        run("third invocation: a is gone, the others stay", lambda: (do("get", c3, "a"), do("get", c3, "flag"), do("get", c3, "backend.slurm.log_mode")),
            ("<not set>", False, "merged"))
        # overwriting a stored value with one that merely COMPARES equal (True == 1, False == 0 in Python) must still store the new value
        stored = lambda k: repr((disk["content"] or {}).get(k, "<absent>"))
        run("set k yes, then set k 1: the file holds", lambda: (do("set", c3, "k", "yes"), do("set", c3, "k", "1"), stored("k"))[2], "1")
        run("... and get k prints", lambda: repr(do("get", c3, "k")), "1")
        run("set z 0, then set z no: the file holds", lambda: (do("set", c3, "z", "0"), do("set", c3, "z", "no"), stored("z"))[2], "False")
        run("set z no, then set z 0: the file holds", lambda: (do("set", c3, "z", "0"), stored("z"))[1], "0")
        run("setting a key to the value it already has keeps it", lambda: (do("set", c3, "z", "0"), stored("z"))[1], "0")
        # the switches gwf itself reads (their names may get special treatment): what is stored is the boolean, and the hash store follows it
        for key_ in ("use_spec_hashes", "clean_logs", "no_color"):
            run(f"set {key_} no: the file holds", lambda key_=key_: (do("set", c3, key_, "no"), stored(key_))[1], "False")
            run(f"set {key_} yes: the file holds", lambda key_=key_: (do("set", c3, key_, "yes"), stored(key_))[1], "True")
            run(f"set {key_} false: the file holds", lambda key_=key_: (do("set", c3, key_, "false"), stored(key_))[1], "False")
    except (Raised, Unsupported) as exc:
        steps.append(("third invocation loads the file", f"<{type(exc).__name__}: {exc}>", "loads what the second one saved"))
    return steps


# --------------------------------------------------------------------------- schedule() on concrete witness workflows
def eval_schedule(ctx, deps, states, stale, endpoints):
    """scheduling.schedule evaluated on a concrete dependency relation.

    deps: {name: [direct dependency names]}, states: {name: BackendStatus member}, stale: set of names for which should_run is True.
    Returns ({name: Status member}, [(submitted name, [prerequisite names])]) or an error string."""
    sch = ctx.index.func("gwf.scheduling:schedule")
    T = {n: target_obj(ctx, name=n) for n in deps}
    # (an instance of the package's Graph class, so that its own helpers - dfs, endpoints - are there for a scheduler that uses them)
    try:
        gcls = ctx.index.cls("gwf.core:Graph")
    except Exception:
        gcls = None
    # dependencies / dependents as Graph.from_targets builds them: default-dictionaries that hold a key only for targets that HAVE dependencies / dependents
    import collections as _c
    dep_map, dpt_map = _c.defaultdict(set), _c.defaultdict(set)
    for n_, ds_ in deps.items():
        for d_ in ds_:
            dep_map[T[n_]].add(T[d_])
            dpt_map[T[d_]].add(T[n_])
    keys_before = (set(dep_map), set(dpt_map))
    gattrs = dict(dependencies=dep_map, dependents=dpt_map, targets={n: T[n] for n in deps}, provides={}, unresolved=set())
    graph = Obj("graph", **gattrs, **({"__class__": gcls} if gcls is not None else {}))
    submitted = []

    def status_func(target):
        return EnumVal("gwf.backends.base.BackendStatus", states.get(target.name, "UNKNOWN"))

    def submit_func(target, dependencies=None, **k):
        submitted.append((target.name, sorted(d.name for d in (dependencies or []))))

    hooks = {"gwf.scheduling.should_run": lambda target, fs, sh: target.name in stale}
    interp = PureInterp(ctx, hooks=hooks)
    interp.max_depth = 60
    try:
        res = interp.call(sch, ([T[e] for e in endpoints], graph, Obj("fs"), Obj("spec_hashes"), status_func, submit_func))
    except (Raised, Unsupported) as exc:
        return f"<{type(exc).__name__}: {exc}>", submitted
    out = {}
    for k, v in dict(res).items():
        out[k.name] = v.member if isinstance(v, EnumVal) else v
    grown = sorted(t_.name for t_ in (set(dpt_map) - keys_before[1]))
    if grown:
        # Graph.endpoints() is "the targets that are not a key of dependents": a read of graph.dependents[t] for a target without dependents inserts the key
        return f"<the scheduler changes the graph: {grown} became keys of graph.dependents (a default-dictionary read inserts the key), so Graph.endpoints() no longer lists " \
               "them - `gwf status --endpoints` drops targets that the unfiltered table, the dry run and the run still show>", submitted
    return out, submitted


def schedule_oracle(deps, states, stale, endpoints):
    """What the property prescribes (C02): statuses, the set submitted with their prerequisite sets."""
    cone, stack = set(), list(endpoints)
    while stack:
        n = stack.pop()
        if n not in cone:
            cone.add(n)
            stack.extend(deps[n])
    status, subs = {}, {}

    def decide(n):
        if n in status:
            return status[n]
        not_complete = sorted(d for d in deps[n] if decide(d) != "COMPLETED")
        st = states.get(n, "UNKNOWN")
        if st in ("SUBMITTED", "RUNNING"):
            status[n] = st
        elif st in ("FAILED", "CANCELLED"):
            status[n] = st
            subs[n] = not_complete
        elif not_complete or n in stale:
            status[n] = "SHOULDRUN"
            subs[n] = not_complete
        else:
            status[n] = "COMPLETED"
        return status[n]
    for n in sorted(cone):
        decide(n)
    return status, subs


SCHEDULE_GRAPHS = {
    "chain": ({"A": [], "B": ["A"], "C": ["B"]}, ["C"]),
    "diamond": ({"A": [], "B": ["A"], "C": ["A"], "D": ["B", "C"]}, ["D"]),
    "two endpoints sharing a dependency, one requested": ({"A": [], "X": ["A"], "Y": ["A"], "Z": []}, ["X"]),
    # a redundant ("shortcut") edge: Call needs the index and the mapping made from it.  With Map still running from an earlier run and Index submitted again now,
    # Call must wait for BOTH jobs - the running Map job does not wait for the new Index job
    "triangle": ({"Index": [], "Map": ["Index"], "Call": ["Index", "Map"]}, ["Call"]),
}


def schedule_witness(ctx, full=False):
    import itertools
    ST = ["UNKNOWN", "SUBMITTED", "RUNNING", "COMPLETED", "FAILED", "CANCELLED"]
    diffs, n = [], 0
    for gname, (deps, endpoints) in SCHEDULE_GRAPHS.items():
        names = sorted(deps)
        vectors = []
        if full:
            vectors = [dict(zip(names, v)) for v in itertools.product(ST, repeat=len(names))]
        else:
            for nm in names:
                for st in ST:
                    vectors.append({nm: st})
            vectors += [{names[0]: "FAILED", names[-1]: "SUBMITTED"}, {names[0]: "FAILED", names[-1]: "RUNNING"}, {names[0]: "RUNNING", names[-1]: "FAILED"},
                        {names[0]: "CANCELLED", names[1]: "SUBMITTED"}, {names[0]: "COMPLETED", names[1]: "FAILED", names[-1]: "CANCELLED"}]
        stales = [set(), {names[0]}, {names[-1]}, set(names)] + ([{names[1]}] if len(names) > 2 else [])
        for states in vectors:
            for stale in stales:
                got = eval_schedule(ctx, deps, states, stale, endpoints)
                if isinstance(got[0], str):
                    if got[0].startswith("<Unsupported"):
                        return n, diffs, got[0]
                    n += 1
                    diffs.append(f"{gname} {states} stale={sorted(stale)}: schedule() ends with {got[0]}")
                    continue
                n += 1
                st_got, sub_got = got
                st_want, sub_want = schedule_oracle(deps, states, stale, endpoints)
                where = f"workflow `{gname}` (requested {endpoints}), backend states {states or 'all unknown'}, stale {sorted(stale) or 'none'}"
                if st_got != st_want:
                    k = next(k for k in sorted(set(st_got) | set(st_want)) if st_got.get(k) != st_want.get(k))
                    diffs.append(f"{where}: target {k} is decided {st_got.get(k, 'not at all')}, the property prescribes {st_want.get(k, 'outside the cone: untouched')}")
                names_sub = [s[0] for s in sub_got]
                if sorted(names_sub) != sorted(sub_want):
                    diffs.append(f"{where}: submitted {names_sub}, the property prescribes {sorted(sub_want)}")
                    continue
                for i, (nm, pre) in enumerate(sub_got):
                    if pre != sub_want[nm]:
                        diffs.append(f"{where}: {nm} is submitted with prerequisites {pre}, expected exactly its incomplete direct dependencies {sub_want[nm]}")
                    if any(d in names_sub and names_sub.index(d) > i for d in deps[nm]):
                        diffs.append(f"{where}: {nm} is submitted before a dependency it has to wait for ({names_sub})")
                if len(diffs) > 5:
                    return n, diffs, None
    return n, diffs, None


# --------------------------------------------------------------------------- `gwf clean` and `gwf touch` on a witness project
WITNESS_PROJECT = {
    # name: (dependencies, outputs, protected, is endpoint)
    "A": ([], ["/p/a1", "/p/a2", "/p/a3"], {"/p/a3"}, False),
    "B": (["A"], ["/p/b1"], set(), True),
    "S": ([], ["/p/s1"], set(), False),
    "C": (["S"], ["/p/c1"], set(), True),
}
WITNESS_EXISTING = {"/p/a1", "/p/a3", "/p/b1", "/p/s1", "/p/c1", "/p/source.txt", "/p/.gwf/logs/A.stdout"}


TOUCH_PROJECT = {
    "A": ([], ["/p/a1", "/p/a2"], set(), False),
    "B": (["A"], ["/p/sub/b1"], set(), False),
    "S": ([], ["/p/s1"], set(), False),
    "C": (["S", "A"], ["/p/c1"], set(), False),
    "All": (["B", "C"], [], set(), True),       # an aggregate target without outputs
    "Other": ([], ["/p/o1"], set(), True),
}


# redundant "shortcut" edges (Map needs the genome AND the index built from it), with the shared dependency sorting first in one triangle and last in the other
TOUCH_PROJECT2 = {
    "Genome": ([], ["/p/genome.fa"], set(), False),
    "Index": (["Genome"], ["/p/genome.idx"], set(), False),
    "Map": (["Genome", "Index"], ["/p/map.bam"], set(), False),
    "Stats": (["Map"], ["/p/stats.txt"], set(), True),
    "Zed": ([], ["/p/z"], set(), False),
    "Mid": (["Zed"], ["/p/mid"], set(), False),
    "Top": (["Mid", "Zed"], ["/p/top"], set(), True),
}


# outputs that are symbolic links into shared storage (`ln -s /shared/ref.fa data/ref.fa`); they exist before the command runs
TOUCH_LINKS = ("/p/s1", "/p/genome.fa")


class OSet(set):
    """A set that iterates in a chosen order (real sets of targets iterate in address order, i.e. arbitrarily: the witnesses fix it, and try it both ways)."""

    def __init__(self, items=()):
        items = list(items)
        super().__init__(items)
        self._order = items

    def __iter__(self):
        return iter([x for x in self._order if set.__contains__(self, x)])


def _witness_graph(ctx, WITNESS_PROJECT=None, reverse=False):
    WITNESS_PROJECT = WITNESS_PROJECT or globals()["WITNESS_PROJECT"]
    T = {n: target_obj(ctx, name=n) for n in WITNESS_PROJECT}
    graph = GraphTok(T[n] for n in WITNESS_PROJECT)
    rv = (lambda xs: list(reversed(list(xs)))) if reverse else list
    deps = {T[n]: OSet(rv(T[d] for d in v[0])) for n, v in WITNESS_PROJECT.items()}
    dependents = {T[n]: OSet(rv(T[m] for m, v in WITNESS_PROJECT.items() if n in v[0])) for n in WITNESS_PROJECT}
    hooks = {
        "attr:flattened_outputs": lambda recv: list(WITNESS_PROJECT[recv.name][1]),
        "attr:flattened_inputs": lambda recv: [],
        "attr:protected": lambda recv: set(WITNESS_PROJECT[recv.name][2]),
        "attr:endpoints": lambda recv: OSet(rv(T[n] for n, v in WITNESS_PROJECT.items() if v[3])),
        "getattr:dependencies": lambda o: deps, "getattr:dependents": lambda o: dependents,
        "getattr:targets": lambda o: {n: T[n] for n in WITNESS_PROJECT},
        "gwf.workflow.Workflow.from_context": lambda c: Obj("workflow", targets={n: T[n] for n in WITNESS_PROJECT}),
        "gwf.Workflow.from_context": lambda c: Obj("workflow", targets={n: T[n] for n in WITNESS_PROJECT}),
        "gwf.core.Graph.from_targets": lambda *a, **k: graph,
        "gwf.core.CachedFilesystem": lambda *a, **k: Obj("fs"),
    }
    return T, graph, hooks


def eval_clean_command(ctx, targets=(), all_=False, force=False, decline=False, size=10):
    fn = ctx.index.func("gwf.plugins.clean:clean")
    T, graph, hooks = _witness_graph(ctx)
    events = []

    def h_confirm(*a, **k):
        events.append(("prompt",))
        if decline:
            if k.get("abort"):
                raise Raised("Abort", "declined")
            return False
        return True

    def h_remove(path):
        events.append(("remove", str(path)))
        if str(path) not in WITNESS_EXISTING:
            raise Raised("FileNotFoundError", str(path))

    store = Obj("spec_hashes")
    hooks.update({
        "click.confirm": h_confirm, "os.remove": h_remove, "os.unlink": h_remove, "attr:unlink": lambda recv, *a, **k: h_remove(str(recv)),
        "os.path.exists": lambda p: str(p) in WITNESS_EXISTING, "os.path.getsize": lambda p: size, "os.path.isfile": lambda p: str(p) in WITNESS_EXISTING,
        "gwf.core.get_spec_hashes": lambda *a, **k: (events.append(("open-store",)), store)[1],
        "attr:invalidate": lambda recv, t: events.append(("invalidate", t.name)),
        "with_exit": lambda v: events.append(("close-store",)) if v is store else None,
        "click.format_filename": lambda p, *a, **k: str(p), "click.echo": lambda *a, **k: None,
        "shutil.rmtree": lambda p, *a, **k: events.append(("rmtree", str(p))),
    })
    interp = PureInterp(ctx, hooks=hooks)
    interp.max_depth = 10
    out = {"events": events, "raised": None}
    try:
        call_command(ctx, interp, fn, (ctx_obj(ctx, working_dir="/p", config={}, backend="B"), tuple(targets), all_, force))
    except Raised as exc:
        out["raised"] = exc.kind
    except Unsupported as exc:
        return None, f"Unsupported: {exc}"
    return out, None


def clean_command_witness(ctx):
    rows = [
        # label, targets, all, force, decline -> removed, invalidated, prompt?
        ("gwf clean --force", (), False, True, False, {"/p/a1", "/p/s1"}, {"A", "S"}, False),
        ("gwf clean --all --force", (), True, True, False, {"/p/a1", "/p/s1", "/p/b1", "/p/c1"}, {"A", "B", "S", "C"}, False),
        ("gwf clean A", ("A",), False, False, False, {"/p/a1"}, {"A"}, False),
        ("gwf clean B (an endpoint, without --all)", ("B",), False, False, False, set(), set(), False),
        ("gwf clean --all B", ("B",), True, False, False, {"/p/b1"}, {"B"}, False),
        ("gwf clean 'S*' A", ("S*", "A"), False, False, False, {"/p/a1", "/p/s1"}, {"A", "S"}, False),
        ("gwf clean (prompt accepted)", (), False, False, False, {"/p/a1", "/p/s1"}, {"A", "S"}, True),
        ("gwf clean (prompt declined)", (), False, False, True, set(), set(), True),
        ("gwf clean --all (prompt declined)", (), True, False, True, set(), set(), True),
        ("gwf clean 'nomatch*' (a pattern that matches no target)", ("nomatch*",), False, False, False, set(), set(), False),
        ("gwf clean --all --force 'nomatch*'", ("nomatch*",), True, True, False, set(), set(), False),
        # every output is an empty file (markers made by `touch`, *.done flags): zero bytes is not zero files
        ("gwf clean --force [all outputs are empty files]", (), False, True, False, {"/p/a1", "/p/s1"}, {"A", "S"}, False, 0),
        ("gwf clean A [all outputs are empty files]", ("A",), False, False, False, {"/p/a1"}, {"A"}, False, 0),
    ]
    diffs, n = [], 0
    for row in rows:
        label, targets, all_, force, decline, want_rm, want_inv, want_prompt = row[:8]
        out, err = eval_clean_command(ctx, targets, all_, force, decline, size=(row[8] if len(row) > 8 else 10))
        if err:
            return n, diffs, err
        n += 1
        ev = out["events"]
        kinds = [e[0] for e in ev]
        removed = {e[1] for e in ev if e[0] in ("remove", "rmtree")}
        existing_removed = removed & WITNESS_EXISTING
        inv = {e[1] for e in ev if e[0] == "invalidate"}
        if decline:
            if out["raised"] != "Abort":
                diffs.append(f"`{label}`: declining the prompt ends with {out['raised']}, expected click.Abort")
            if removed or inv or "open-store" in kinds[:kinds.index("prompt")] if "prompt" in kinds else False:
                diffs.append(f"`{label}`: although the prompt was declined, files {sorted(removed)} are removed / hashes of {sorted(inv)} forgotten / the hash store was opened before the prompt")
            elif removed or inv:
                diffs.append(f"`{label}`: although the prompt was declined, files {sorted(removed)} are removed and hashes of {sorted(inv)} forgotten")
            continue
        if out["raised"]:
            diffs.append(f"`{label}` ends with {out['raised']}")
            continue
        bad = removed - {p for v in WITNESS_PROJECT.values() for p in v[1]}
        if bad:
            diffs.append(f"`{label}` removes {sorted(bad)}, which is not a declared output of any target")
        if "/p/a3" in removed:
            diffs.append(f"`{label}` removes the protected output /p/a3")
        if existing_removed != want_rm:
            diffs.append(f"`{label}` removes {sorted(existing_removed)}; the property prescribes {sorted(want_rm)} (existing unprotected outputs of the selected targets"
                         f"{'' if all_ else ', endpoints B and C excluded'})")
        if inv != want_inv:
            diffs.append(f"`{label}` forgets the spec hashes of {sorted(inv)}, expected {sorted(want_inv)}")
        if ("prompt" in kinds) != want_prompt:
            diffs.append(f"`{label}`: prompt {'shown' if 'prompt' in kinds else 'not shown'}, expected {'shown' if want_prompt else 'not shown'}")
        if want_prompt and "prompt" in kinds and any(k in ("remove", "invalidate") for k in kinds[:kinds.index("prompt")]):
            diffs.append(f"`{label}`: effects happen before the confirmation prompt")
        if inv and "close-store" not in kinds:
            diffs.append(f"`{label}`: the spec-hash store is not closed (the forgotten hashes are not persisted)")
    return n, diffs, None


def eval_touch_command(ctx, targets=(), project=None, reverse=False, disk="empty"):
    """disk: 'empty' (no output exists yet) or 'uptodate' (every output exists, each target's outputs newer than its dependencies')."""
    fn = ctx.index.func("gwf.plugins.touch:touch")
    proj = project or TOUCH_PROJECT
    T, graph, hooks = _witness_graph(ctx, proj, reverse)
    events = []
    store = Obj("spec_hashes")
    depth_of = {}

    def depth(n_):
        if n_ not in depth_of:
            depth_of[n_] = 1 + max([depth(d_) for d_ in proj[n_][0]] or [0])
        return depth_of[n_]
    mtime = {p_: float(depth(n_)) for n_ in proj for p_ in proj[n_][1]}

    from ..symeval import HookDecline, CLOCK, ClassInfo, MODEL_CLOCK

    def tick():
        MODEL_CLOCK[0] += 1.0
        return MODEL_CLOCK[0]
    # the disk: which paths exist (with their modification time), and which of them are symbolic links (to a file outside the project that exists)
    links = set(TOUCH_LINKS) & set(mtime)
    exists = dict(mtime) if disk == "uptodate" else {p_: 1.0 for p_ in links}

    def h_exists(recv, p_, *a):
        return str(p_) in exists

    def h_changed(recv, p_, *a):
        if str(p_) in exists:
            return exists[str(p_)]
        raise Raised("FileNotFoundError", str(p_))

    def library_recv(recv, name):
        cls_ = recv.__dict__["_attrs"].get("__class__") if isinstance(recv, Obj) else None
        if isinstance(cls_, ClassInfo) and ctx.index.method(cls_, name) is not None:
            raise HookDecline(name)

    def h_touch(recv, mode=0o666, exist_ok=True, **k):
        library_recv(recv, "touch")
        p_ = str(recv)
        if p_ in exists and exist_ok is False:
            raise Raised("FileExistsError", p_)
        exists[p_] = tick()
        events.append(("touch", p_, {"exist_ok": exist_ok, "time": exists[p_]}))

    def h_utime(p_, times=None, *, ns=None, follow_symlinks=True, **k):
        p_ = str(p_)
        if p_ not in exists:
            raise Raised("FileNotFoundError", p_)       # os.utime never creates a file
        when = tick() if times is None and ns is None else (times[1] if times is not None else ns[1] / 1e9)
        if follow_symlinks is False and p_ in links:
            events.append(("stamp-link", p_, {"time": when}))   # the link's own inode: os.stat (what the scheduler reads) does not see it
            return None
        exists[p_] = when
        events.append(("touch", p_, {"time": when}))

    def h_open(p_, mode="r", *a, **k):
        events.append(("open", str(p_), mode))
        if any(ch in mode for ch in "wax+"):
            exists[str(p_)] = tick()
        elif str(p_) not in exists:
            raise Raised("FileNotFoundError", str(p_))
        return Obj("file", path=str(p_), mode=mode)
    fs_cls = ctx.index.cls("gwf.core:CachedFilesystem")
    hooks.update({
        "gwf.core.CachedFilesystem": lambda *a, **k: make_instance(ctx, fs_cls, "fs"),
        "os.path.islink": lambda p_: str(p_) in links, "attr:is_symlink": lambda recv: str(recv) in links,
        "os.path.isfile": lambda p_: str(p_) in exists, "attr:is_file": lambda recv: str(recv) in exists,
        "os.path.lexists": lambda p_: str(p_) in exists,
        "os.path.realpath": lambda p_, **k: ("/shared" + str(p_)) if str(p_) in links else str(p_),
        "os.readlink": lambda p_: "/shared" + str(p_),
        "attr:exists": h_exists, "attr:changed_at": h_changed, "os.path.exists": lambda p_: h_exists(None, p_), "os.path.getmtime": lambda p_: h_changed(None, p_),
        "attr:has_changed": lambda recv, t: None,
        "pathlib.Path": lambda *a: PathTok("/".join(str(x) for x in a)),
        "getattr:parent": lambda o: PathTok(str(o).rsplit("/", 1)[0] or "/"),
        "attr:mkdir": lambda recv, *a, **k: events.append(("mkdir", str(recv), dict(k))),
        "attr:touch": h_touch,
        "os.makedirs": lambda p, *a, **k: events.append(("mkdir", str(p), {"parents": True, **k})),
        "os.utime": h_utime,
        "os.path.dirname": lambda p: str(p).rsplit("/", 1)[0],
        "builtins.open": h_open,
        "gwf.core.get_spec_hashes": lambda *a, **k: (events.append(("open-store",)), store)[1],
        "attr:update": lambda recv, *a, **k: recv.update(*a, **k) if isinstance(recv, (dict, set)) else events.append(("update", a[0].name)),
        "with_exit": lambda v: events.append(("close-store",)) if v is store else None,
    })
    interp = PureInterp(ctx, hooks=hooks)
    interp.max_depth = 30
    out = {"events": events, "raised": None, "disk": exists, "links": links}
    MODEL_CLOCK[0] = CLOCK
    try:
        call_command(ctx, interp, fn, (ctx_obj(ctx, working_dir="/p", config={}, backend="B"), tuple(targets)))
    except Raised as exc:
        out["raised"] = f"{exc.kind}: {exc}"[:160]
    except Unsupported as exc:
        return None, f"Unsupported: {exc}"
    finally:
        MODEL_CLOCK[0] = CLOCK
    return out, None


def touch_command_witness(ctx):
    rows = [("gwf touch", (), {"A", "B", "S", "C", "All", "Other"}, TOUCH_PROJECT), ("gwf touch All", ("All",), {"A", "B", "S", "C", "All"}, TOUCH_PROJECT),
            ("gwf touch B", ("B",), {"A", "B"}, TOUCH_PROJECT), ("gwf touch A", ("A",), {"A"}, TOUCH_PROJECT),
            ("gwf touch 'C*' Other", ("C*", "Other"), {"A", "S", "C", "Other"}, TOUCH_PROJECT),
            ("gwf touch 'nomatch*' (a pattern that matches no target)", ("nomatch*",), set(), TOUCH_PROJECT),
            ("gwf touch [project with shortcut edges]", (), set(TOUCH_PROJECT2), TOUCH_PROJECT2), ("gwf touch Stats [shortcut edges]", ("Stats",), {"Genome", "Index", "Map", "Stats"}, TOUCH_PROJECT2),
            ("gwf touch Top Map [shortcut edges]", ("Top", "Map"), {"Zed", "Mid", "Top", "Genome", "Index", "Map"}, TOUCH_PROJECT2)]
    diffs, n = [], 0
    rows = [(lab + (" [sets iterate in reverse]" if rev else ""), tg, cone, proj, rev, "empty") for (lab, tg, cone, proj) in rows for rev in (False, True)]
    # every file is already in order (a finished project on which spec hashing is switched on afterwards): the current specs must still be recorded
    rows += [("gwf touch [all files already in order]", (), {"A", "B", "S", "C", "All", "Other"}, TOUCH_PROJECT, False, "uptodate"),
             ("gwf touch B [all files already in order]", ("B",), {"A", "B"}, TOUCH_PROJECT, False, "uptodate")]
    for label, targets, cone, WITNESS_PROJECT, rev, disk in rows:
        out, err = eval_touch_command(ctx, targets, WITNESS_PROJECT, rev, disk)
        if err:
            return n, diffs, err
        n += 1
        if out["raised"]:
            diffs.append(f"`{label}` ends with {out['raised']}")
            continue
        ev = out["events"]
        touched = sorted({e[1] for e in ev if e[0] == "touch"})
        writes = [e for e in ev if e[0] == "open" and any(ch in e[2] for ch in "wa+x")]
        from ..symeval import CLOCK as _T0
        when = out["disk"]
        lnk = [e for e in ev if e[0] == "stamp-link"]
        if lnk:
            diffs.append(f"`{label}`: the output {lnk[0][1]} is a symbolic link and only the link itself is stamped (follow_symlinks=False); modification times are read "
                         "with os.stat, which follows links, so the target still looks older than its inputs after `gwf touch`")
            continue
        old = [e for e in ev if e[0] == "touch" and e[2]["time"] < _T0]
        if old:
            diffs.append(f"`{label}` stamps {old[0][1]} with a time {_T0 - old[0][2]['time']:.0f}s before the command started (the modelled machine is {3600}s east of UTC; a naive UTC "
                         "datetime read as local time, or mktime(gmtime()), is off by that much): an input modified within that span is newer than the touched output")
            continue
        want = [p for nme in WITNESS_PROJECT if nme in cone for p in WITNESS_PROJECT[nme][1]]
        if disk == "uptodate":
            # touching files that are already in order is allowed, not required - but nothing outside the cone, and the hashes are recorded all the same
            if not set(touched) <= set(want):
                diffs.append(f"`{label}` touches {sorted(set(touched) - set(want))} outside the cone {sorted(cone)}")
            for nme in cone:
                for d in WITNESS_PROJECT[nme][0]:
                    if WITNESS_PROJECT[d][1] and WITNESS_PROJECT[nme][1] and max(when[p] for p in WITNESS_PROJECT[d][1]) > min(when[p] for p in WITNESS_PROJECT[nme][1]):
                        diffs.append(f"`{label}`: an output of {d} ends up newer than an output of its dependent {nme}: {nme} looks stale afterwards")
            upd = [e[1] for e in ev if e[0] == "update"]
            if sorted(upd) != sorted(cone):
                diffs.append(f"`{label}` records the spec hashes of {sorted(upd)}, expected those of the cone {sorted(cone)}: a target whose files are in order is skipped "
                             "before its current spec is recorded, so with hashing on it is still reported as changed after `gwf touch`")
            continue
        if sorted(touched) != sorted(want):
            diffs.append(f"`{label}` touches {sorted(touched)}; the property prescribes exactly the outputs of the cone {sorted(cone)}: {sorted(want)}")
            continue
        upd = [e[1] for e in ev if e[0] == "update"]
        if sorted(set(upd)) != sorted(cone):
            diffs.append(f"`{label}` records the spec hashes of {sorted(set(upd))}, expected those of every target of the cone {sorted(cone)}: with spec hashing on, the targets "
                         "whose hash is not recorded are still reported as changed (`shouldrun`) after `gwf touch`")
        if writes:
            diffs.append(f"`{label}` opens {writes[0][1]} for writing (mode {writes[0][2]}): the content of existing files must never change")
        for e in ev:
            if e[0] == "touch" and e[2].get("exist_ok") is False:
                diffs.append(f"`{label}`: touch(exist_ok=False) fails on outputs that already exist")
        # dependency order, on the final state of the disk: no output of a dependency is newer than an output of its dependent
        for nme in cone:
            for d in WITNESS_PROJECT[nme][0]:
                if WITNESS_PROJECT[d][1] and WITNESS_PROJECT[nme][1] and max(when[p] for p in WITNESS_PROJECT[d][1]) > min(when[p] for p in WITNESS_PROJECT[nme][1]):
                    diffs.append(f"`{label}`: an output of {d} ends up newer than an output of its dependent {nme} (touched or re-touched after it): {nme} looks stale afterwards")
        for i, e in enumerate(ev):
            if e[0] == "touch":
                parent = e[1].rsplit("/", 1)[0]
                mk = [m for m in ev[:i] if m[0] == "mkdir" and m[1] == parent]
                if not mk:
                    diffs.append(f"`{label}`: {e[1]} is touched without creating its directory first: a missing output in a directory that does not exist yet makes the command fail")
                    break
                if not (mk[-1][2].get("parents") and mk[-1][2].get("exist_ok")):
                    diffs.append(f"`{label}`: the directory of {e[1]} is created with {mk[-1][2]}: it must tolerate existing directories and create missing parents")
                    break
        upd = [e[1] for e in ev if e[0] == "update"]
        if sorted(upd) != sorted(cone):
            diffs.append(f"`{label}` records the spec hashes of {sorted(upd)}, expected those of the cone {sorted(cone)} (each once)")
        kinds = [e[0] for e in ev]
        if "close-store" not in kinds or any(k == "update" for k in kinds[kinds.index("close-store"):]):
            diffs.append(f"`{label}`: spec hashes are recorded outside the store's with-block (never persisted)")
    return n, diffs, None


# --------------------------------------------------------------------------- `gwf run` as a whole on a witness project
RUN_PROJECT = {"A": [], "B": ["A"], "C": ["B"], "X": ["A"], "Gone": None}   # Gone: has logs but is no longer a target


def eval_run_command(ctx, targets=(), dry_run=False, states=None, stale=(), config=None, fail_at=None, store_close_fails=False, flags=None):
    """plugins.run:run with the backend, both stores, the file system and the log directory hooked.

    Returns {"events": [...], "raised": kind|None}; events: ("submit", name, [prereq names]), ("hash", name), ("rm-log", file), ("open-backend"),
    ("close-backend"), ("open-store"), ("close-store")."""
    fn = ctx.index.func("gwf.plugins.run:run")
    names = [n for n, d in RUN_PROJECT.items() if d is not None]
    T = {n: target_obj(ctx, name=n, options={}, spec="spec of " + n) for n in names}
    deps = {T[n]: {T[d] for d in RUN_PROJECT[n]} for n in names}
    dependents = {T[n]: {T[m] for m in names if n in RUN_PROJECT[m]} for n in names}
    graph = GraphTok(T[n] for n in names)
    states = dict(states or {})
    events = []
    n_sub = [0]
    backend = Obj("backend", target_defaults={"cores": 1, "memory": "1g", "queue": None})
    store = Obj("spec_hashes")

    def h_submit(recv, target, dependencies=None, **k):
        n_sub[0] += 1
        if fail_at is not None and n_sub[0] == fail_at:
            events.append(("submit-rejected", target.name))
            raise Raised("BackendError", "sbatch failed")
        events.append(("submit", target.name, sorted(d.name for d in (dependencies or []))))
        states[target.name] = "SUBMITTED"

    def h_close(v):
        if v is backend:
            events.append(("close-backend",))
        elif v is store:
            events.append(("close-store",))
            if store_close_fails:
                raise Raised("OSError", "disk full while writing spec-hashes.json")

    hooks = {
        "gwf.workflow.Workflow.from_context": lambda c: Obj("workflow", targets=dict(T)), "gwf.Workflow.from_context": lambda c: Obj("workflow", targets=dict(T)),
        "gwf.core.Graph.from_targets": lambda *a, **k: graph, "gwf.core.CachedFilesystem": lambda *a, **k: Obj("fs"),
        "getattr:dependencies": lambda o: deps, "getattr:dependents": lambda o: dependents, "getattr:targets": lambda o: dict(T),
        "attr:endpoints": lambda recv: {T[n] for n in names if not dependents[T[n]]},
        "gwf.scheduling.should_run": lambda target, fs, sh: target.name in stale,
        "gwf.backends.base.create_backend": lambda *a, **k: (events.append(("open-backend",)), backend)[1],
        "gwf.backends.create_backend": lambda *a, **k: (events.append(("open-backend",)), backend)[1],
        "gwf.core.get_spec_hashes": lambda *a, **k: (events.append(("open-store",)), store)[1],
        "attr:status": lambda recv, target: EnumVal("gwf.backends.base.BackendStatus", states.get(target.name, "UNKNOWN")),
        "attr:submit": h_submit,
        "attr:update": lambda recv, *a, **k: recv.update(*a, **k) if isinstance(recv, (dict, set)) else events.append(("hash", a[0].name)),
        "attr:has_changed": lambda recv, t: None,
        "with_exit": lambda v: h_close(v),
        "attr:close": lambda recv, *a, **k: h_close(recv),
        "os.listdir": lambda d: ["A.stdout", "A.stderr", "Gone.stdout", "Gone.stderr", "X.stdout"],
        "os.remove": lambda p_: events.append(("rm-log", str(p_).rsplit("/", 1)[-1])), "os.unlink": lambda p_: events.append(("rm-log", str(p_).rsplit("/", 1)[-1])),
    }
    cfg = dict({"clean_logs": True}, **(config or {}))
    interp = PureInterp(ctx, hooks=hooks)
    interp.max_depth = 40
    out = {"events": events, "raised": None}
    try:
        if flags:
            names_ = fn.positional_params()
            kw_ = {n_: v_ for n_, v_ in click_defaults(ctx, fn).items() if n_ in names_[3:]}
            kw_.update(flags)
            interp.call(fn, (ctx_obj(ctx, working_dir="/p", config=cfg, backend="B"), tuple(targets), dry_run), kw_)
        else:
            call_command(ctx, interp, fn, (ctx_obj(ctx, working_dir="/p", config=cfg, backend="B"), tuple(targets), dry_run))
    except Raised as exc:
        out["raised"] = exc.kind
        out["detail"] = exc.detail
    except Unsupported as exc:
        return None, f"Unsupported: {exc}"
    return out, None


def run_command_witness(ctx):
    deps = {n: d for n, d in RUN_PROJECT.items() if d is not None}
    scenarios = [
        ("fresh project, everything stale", (), {}, set(deps)),
        ("only B stale", (), {}, {"B"}),
        ("A failed earlier, B pending on it", (), {"A": "FAILED", "B": "SUBMITTED"}, set()),
        ("A running, nothing stale", (), {"A": "RUNNING"}, set()),
        ("requested: X only, everything stale", ("X",), {}, set(deps)),
        ("requested pattern matching nothing", ("nomatch",), {}, set(deps)),
        ("nothing to do", (), {}, set()),
        ("the endpoints' last jobs failed / were cancelled, everything upstream is complete and nothing is stale", (), {"C": "FAILED", "X": "CANCELLED"}, set()),
        ("one endpoint's last job failed, requested by name", ("C",), {"C": "FAILED"}, set()),
    ]
    diffs, n = [], 0
    for label, targets, states, stale in scenarios:
        if targets == ("nomatch",):
            endpoints = []
        elif targets:
            endpoints = list(targets)
        else:
            endpoints = ["C", "X"]
        _st, want_sub = schedule_oracle(deps, states, stale, endpoints)
        for dry in (False, True):
            out, err = eval_run_command(ctx, targets, dry, states, stale)
            if err:
                return n, diffs, err
            n += 1
            ev = out["events"]
            kinds = [e[0] for e in ev]
            subs = {e[1]: e[2] for e in ev if e[0] == "submit"}
            hashes = [e[1] for e in ev if e[0] == "hash"]
            rm = sorted(e[1] for e in ev if e[0] == "rm-log")
            what = f"`gwf run{' --dry-run' if dry else ''} {' '.join(targets)}` [{label}]"
            if out["raised"]:
                diffs.append(f"{what} ends with {out['raised']}")
                continue
            if dry:
                if subs or hashes or rm:
                    diffs.append(f"{what}: a dry run submits {sorted(subs)}, records hashes of {hashes}, removes logs {rm}; it must change nothing")
                continue
            if subs != want_sub:
                diffs.append(f"{what}: submits {subs} (target: prerequisites); the property prescribes {want_sub}")
            if sorted(hashes) != sorted(want_sub):
                diffs.append(f"{what}: spec hashes recorded for {sorted(hashes)}, expected exactly the accepted submissions {sorted(want_sub)}")
            if rm != ["Gone.stderr", "Gone.stdout"]:
                diffs.append(f"{what}: log cleaning removes {rm}; expected only the logs of the target that left the workflow (Gone.stdout, Gone.stderr)")
            if "close-backend" not in kinds or "close-store" not in kinds:
                diffs.append(f"{what}: {'the tracked-jobs' if 'close-backend' not in kinds else 'the spec-hash'} store is not closed (what was accepted is not saved)")
            elif any(k in ("submit", "hash") for k in kinds[min(kinds.index("close-backend"), kinds.index("close-store")):]):
                diffs.append(f"{what}: submissions or hash records happen after a store was closed")
    # log cleaning switched off
    out, err = eval_run_command(ctx, (), False, {}, set(deps), config={"clean_logs": False})
    if err:
        return n, diffs, err
    n += 1
    if any(e[0] == "rm-log" for e in out["events"]):
        diffs.append("with clean_logs switched off `gwf run` still removes logs")
    # writing the spec-hash file fails (disk full): the tracked jobs must still be saved
    out, err = eval_run_command(ctx, (), False, {}, set(deps), store_close_fails=True)
    if err:
        return n, diffs, err
    n += 1
    if "close-backend" not in [e[0] for e in out["events"]]:
        diffs.append("when saving the spec hashes fails (OSError), the tracked-jobs file is not written either: every job accepted in this run is forgotten and submitted again next time")
    # the k-th submission is rejected: what was accepted before is saved, nothing after it is recorded
    # ... with the command's own defaults, and with every further on/off option of the command switched on (an option such as --keep-going changes what happens after the
    # rejection, not what the property demands of it)
    run_fn = ctx.index.func("gwf.plugins.run:run")
    more_flags = [n_ for n_, v_ in click_defaults(ctx, run_fn).items() if v_ is False and n_ in run_fn.positional_params()[3:]]
    for k, fl in [(k_, None) for k_ in (1, 2, 3)] + [(k_, f_) for f_ in more_flags for k_ in (1, 2)]:
        # history: the workflow ran before (every target has an old, finished job on record) and everything is stale again - so a prerequisite handed over after
        # its submission was rejected would be translated to the id of that old job
        out, err = eval_run_command(ctx, (), False, {n_: "COMPLETED" for n_ in deps}, set(deps), fail_at=k, flags={fl: True} if fl else None)
        if err:
            if fl:
                continue
            return n, diffs, err
        n += 1
        ev = out["events"]
        kinds = [e[0] for e in ev]
        acc = [e[1] for e in ev if e[0] == "submit"]
        hashes = [e[1] for e in ev if e[0] == "hash"]
        rej = [e[1] for e in ev if e[0] == "submit-rejected"]
        what = f"`gwf run{' --' + fl.replace('_', '-') if fl else ''}` with the scheduler rejecting submission #{k} ({rej[0] if rej else '?'})"
        # the failure is reported: the command ends with one of gwf's own errors (the rejection itself, or a summary raised later), not with success or a crash
        own_errors = {ci.name for ci in ctx.index.classes.values() if any(b_.rsplit(".", 1)[-1] in ("ClickException", "UsageError", "Exception") for b_ in ctx.index.mro_names(ci)[1:])}
        if out["raised"] is None:
            diffs.append(f"{what}: the command ends as if nothing had happened; the failure must be reported (BackendError)")
        elif out["raised"] not in own_errors | {"ClickException", "Abort", "Exit", "SystemExit"}:
            diffs.append(f"{what}: the command ends with {out['raised']}; the failure must surface as BackendError")
        if sorted(hashes) != sorted(acc):
            diffs.append(f"{what}: accepted {acc}, spec hashes recorded for {hashes}: a hash may be recorded only for an accepted submission, and must be for each")
        if len(set(acc)) != len(acc) or (rej and rej[0] in acc):
            diffs.append(f"{what}: submissions {acc}: a target is submitted twice in one run")
        # whether the run stops at the rejection or goes on: nothing that needs the rejected target may be handed to the scheduler - the rejected target has no job, so a
        # dependent would be released at once (or held on whatever old job is still on record under that name) and run on missing or stale input
        if rej:
            below = {rej[0]}
            grew = True
            while grew:
                grew = False
                for t_, ds_ in deps.items():
                    if t_ not in below and ds_ is not None and below & set(ds_):
                        below.add(t_)
                        grew = True
            i_rej = kinds.index("submit-rejected")
            late = [e for e in ev[i_rej:] if e[0] == "submit" and e[1] in below]
            if late:
                diffs.append(f"{what}: afterwards the run submits {late[0][1]} with prerequisites {late[0][2]} although {rej[0]}, which it needs, got no job in this run: the "
                             f"prerequisite is translated to the id of {rej[0]}'s old, finished job (the workflow ran before), so the scheduler releases {late[0][1]} at once and it "
                             "runs on stale input")
        if "close-backend" not in kinds or "close-store" not in kinds:
            diffs.append(f"{what}: a state store is not closed on the failure path: the jobs accepted before the failure are forgotten")
    return n, diffs, None


def cached_witness(ctx, key, fn):
    c = ctx.shared.setdefault("_witness_cache", {})
    if key not in c:
        c[key] = fn(ctx)
    return c[key]


def report_witness(r, construct, where, result, ok_text, select=None):
    """Standard reporting of a (n, diffs, unsupported) witness result into rule r; `select` filters the differences relevant to the rule."""
    n, diffs, unsup = result
    if select is not None:
        diffs = [d for d in diffs if select(d)]
    if diffs:
        for d in diffs[:3]:
            r.violation(construct, d, where)
            r.instances[-1]["from_witness"] = True      # a concrete differing row: never overridden by another evaluation that happens to agree (Ctx.reconcile)
    elif unsup is not None:
        r.info(construct, f"not evaluated ({unsup}); the structural rules decide")
    else:
        r.ok(construct, f"{n} evaluated invocations: {ok_text}", where)


# --------------------------------------------------------------------------- scheduler state codes by evaluation
def _scheduler_answer(exe, args, code, job="4242"):
    """What the scheduler prints for one job in state `code`, in the format the command line asks for (so a format/parser mismatch shows)."""
    args = [str(a) for a in args]
    if exe == "squeue":
        fmt = next((a[len("--format="):] for a in args if a.startswith("--format=")), None)
        if fmt is None and "-o" in args:
            fmt = args[args.index("-o") + 1]
        if fmt is None:
            fmt = "%.18i %.9P %.8j %.8u %.2t %.10M %.6D %R"
        line = fmt.replace("%i", job).replace("%t", code).replace("%T", code)
        other = fmt.replace("%i", "777").replace("%t", "R").replace("%T", "RUNNING")   # somebody else's job
        return line + "\n" + other + "\n"
    if exe == "sacct":
        fmt = next((a[len("--format="):] for a in args if a.lower().startswith("--format=")), "jobid,state")
        delim = "|" if ("--parsable2" in args or "-P" in args or "--parsable" in args or "-p" in args) else " "
        cols = [c.strip().lower() for c in fmt.split(",")]
        row = delim.join(job if c == "jobid" else code if c == "state" else "x" for c in cols)
        return row + ("|" if "--parsable" in args or "-p" in args else "") + "\n"
    if exe == "bjobs":
        # one line per job LSF still knows, with the columns `-o` asks for (a job it has forgotten gets no line: "Job <id> is not found" goes to stderr)
        fmt = args[args.index("-o") + 1] if "-o" in args and args.index("-o") + 1 < len(args) else "jobid user stat queue from_host exec_host job_name submit_time"
        delim, cols = " ", []
        for c in fmt.replace("delimiter=", " delimiter=").split():
            if c.startswith("delimiter="):
                delim = c[len("delimiter="):].strip("'\"")
            else:
                cols.append(c.split(":")[0].lower())
        out = [] if "-noheader" in args else [delim.join(c.upper() for c in cols)]
        if code != "":
            out.append(delim.join(job if c in ("jobid", "id") else code if c == "stat" else "x" for c in cols))
        return "\n".join(out) + "\n" if out else ""
    if exe == "qstat":
        return ("<?xml version='1.0'?><job_info><queue_info><job_list state='x'><JB_job_number>%s</JB_job_number><state>%s</state></job_list>"
                "</queue_info><job_info><job_list state='x'><JB_job_number>777</JB_job_number><state>qw</state></job_list></job_info></job_info>") % (job, code)
    raise Unsupported(f"unexpected scheduler command {exe}")


def eval_state_code(ctx, mod, cname, method, code, accounting=True):
    """<Ops>.<method>(['4242']) with the scheduler answering `code` for job 4242: the BackendStatus member reported for it (or '<absent>')."""
    ci = ctx.index.cls(f"{mod}:{cname}")
    m = ctx.index.method(ci, method)
    if m is None:
        return "<no such method>", None

    def fake_call(exe, *args, **kw):
        return _scheduler_answer(exe, args, code)

    interp = PureInterp(ctx, hooks={"gwf.backends.utils.call": fake_call})
    interp.max_depth = 12
    obj = make_instance(ctx, ci, "ops", working_dir=PROJ, log_mode="full", accounting_enabled=accounting, target_defaults={})
    try:
        res = interp.call(m, (["4242"],), {}, self_obj=obj)
    except Raised as exc:
        return f"<raises {exc.kind}: {exc.detail[:60]}>", m
    except Unsupported as exc:
        return f"<unsupported: {exc}>", m
    if not hasattr(res, "get"):
        return f"<returns {type(res).__name__}>", m
    if "777" in res and method.endswith("squeue"):
        return "<a job gwf does not track enters the state map>", m
    v = res.get("4242", "<absent>")
    return (v.member if isinstance(v, EnumVal) else v), m


def state_codes_witness(ctx, which=("squeue", "sacct", "bjobs", "qstat")):
    from ..reference import states as REF
    plans = {
        "squeue": ("gwf.backends.slurm", "SlurmOps", "get_job_states_from_squeue", REF.SLURM_SHORT, "squeue"),
        "sacct": ("gwf.backends.slurm", "SlurmOps", "get_job_states_from_sacct", REF.SLURM_LONG, "sacct"),
        "bjobs": ("gwf.backends.lsf", "LSFOps", "get_job_states", REF.LSF, "bjobs"),
        "qstat": ("gwf.backends.sge", "SGEOps", "get_job_states", REF.SGE, "qstat"),
    }
    diffs, n = [], 0
    for key in which:
        mod, cname, meth, table, tool = plans[key]
        codes = dict(table)
        if key == "sacct":
            codes["CANCELLED by 1234"] = ({"CANCELLED"}, "sacct appends the uid")
        for code, (allowed, why) in codes.items():
            got, m = eval_state_code(ctx, mod, cname, meth, code)
            if isinstance(got, str) and got.startswith("<unsupported"):
                return n, diffs, f"{cname}.{meth}: {got}"
            n += 1
            shown = "UNKNOWN" if got == "<absent>" else got
            if shown not in allowed:
                diffs.append(f"{tool} state {code!r} ({why}) is reported as {got}; the property allows {sorted(allowed)}")
        if key == "bjobs":
            got, m = eval_state_code(ctx, mod, cname, meth, "")
            n += 1
            if got not in ("UNKNOWN", "<absent>"):
                diffs.append(f"an empty bjobs answer (no record of the job) is reported as {got}, expected UNKNOWN")
    return n, diffs, None


# --------------------------------------------------------------------------- the local pool's task coroutine under fault injection
# what the witness task prints: one line of 70000 bytes (a progress bar that only emits carriage returns, minified JSON, base64 -w0) and a last line without a newline
TASK_STDOUT = b"x" * 70000 + b"\nlast line, no newline at the end"
TASK_STDERR = b"warning: something is off\n" * 3000       # 75000 bytes: more than a pipe holds
STREAM_LIMIT = 2 ** 16       # asyncio's default StreamReader limit: readline()/readuntil()/iteration fail on a longer line
PIPE_CAPACITY = 2 ** 16      # what the kernel buffers for a pipe nobody reads; a process that has written more blocks in write()


class Hang(Exception):
    """The evaluated coroutine waits for something that cannot happen (the process cannot exit while it is blocked writing to a pipe nobody drains).  Not an
    exception of the interpreted program: no handler of the program sees it."""


class StreamModel:
    """asyncio.StreamReader over a finished process's pipe, by its documented behaviour: read(n) / read() return what is there, readline() and iteration raise
    ValueError (from LimitOverrunError) when STREAM_LIMIT bytes arrive without the separator - and discard what was buffered."""

    def __init__(self, data):
        self.data = data
        self.pos = 0
        self.peer = None          # the process's other pipe
        self.concurrent = lambda: False     # is the code that reads running as one of several concurrent tasks (so the peer may be drained at the same time)?

    def unread(self):
        return len(self.data) - self.pos

    def _eof_reachable(self):
        """End-of-file on a pipe means the process closed it - it exited.  It cannot exit while it is blocked writing the other pipe."""
        if self.peer is not None and self.peer.unread() > PIPE_CAPACITY and not self.concurrent():
            raise Hang(f"end of {'stdout' if self.data is TASK_STDOUT else 'stderr'} is awaited while {self.peer.unread()} bytes are waiting in the other pipe, which nobody reads: "
                       f"the process blocks in write() once the pipe holds {PIPE_CAPACITY} bytes, never exits and never closes the pipe being read")

    def read(self, n=-1):
        # read(n) gives UP TO n bytes - whatever has arrived; a short chunk says nothing about the end of the stream (only an empty one does)
        end = len(self.data) if n is None or n < 0 else min(len(self.data), self.pos + min(n, 20000))
        if end == self.pos or n is None or n < 0:
            self._eof_reachable()
        chunk, self.pos = self.data[self.pos:end], end
        return chunk

    def readuntil(self, sep=b"\n"):
        i = self.data.find(sep, self.pos)
        if i < 0:
            self._eof_reachable() if len(self.data) - self.pos <= STREAM_LIMIT else None
            if len(self.data) - self.pos > STREAM_LIMIT:
                self.pos = len(self.data)
                raise Raised("LimitOverrunError", "Separator is not found, and chunk exceed the limit")
            chunk, self.pos = self.data[self.pos:], len(self.data)
            raise Raised("IncompleteReadError", f"{len(chunk)} bytes read on a total of undefined expected bytes")
        if i + len(sep) - self.pos > STREAM_LIMIT:
            self.pos = min(len(self.data), self.pos + STREAM_LIMIT)     # the buffer is cleared
            raise Raised("LimitOverrunError", "Separator is found, but chunk is longer than limit")
        chunk, self.pos = self.data[self.pos:i + len(sep)], i + len(sep)
        return chunk

    def readline(self):
        start = self.pos
        try:
            return self.readuntil(b"\n")
        except Raised as exc:
            if exc.kind == "IncompleteReadError":
                return self.data[start:]
            raise Raised("ValueError", exc.detail)

    def __iter__(self):
        while True:
            line = self.readline()
            if line == b"":
                return
            yield line


class _TaskInterp(PureInterp):
    """PureInterp that counts awaits and delivers one CancelledError at the chosen await (before the awaited operation takes effect)."""

    def __init__(self, ctx, hooks, cancel_at=None):
        super().__init__(ctx, hooks=hooks, max_depth=14)
        self.concurrent = 0
        self.cancel_at = cancel_at
        self.awaits = 0
        self.await_log = []

    def e_Call(self, n, env, module, depth):
        # asyncio.ensure_future(coro) / create_task(coro): in the sequential model the coroutine runs here; what it raises is kept in the task object and
        # surfaces where the task is awaited, as in asyncio
        f = n.func
        canon = (self.index.canon(f, module) or "") if isinstance(f, (ast.Name, ast.Attribute)) else ""
        if n.args and (canon in ("asyncio.ensure_future", "asyncio.create_task") or (isinstance(f, ast.Attribute) and f.attr == "create_task")) \
                and isinstance(n.args[0], ast.Call) and not isinstance(n.args[0].func, ast.Lambda):
            inner = n.args[0].func
            iname = inner.attr if isinstance(inner, ast.Attribute) else inner.id if isinstance(inner, ast.Name) else None
            if iname in self._own_coroutines(module):
                self.concurrent += 1
                try:
                    return Obj("aiotask", spawned=True, value=self.eval(n.args[0], env, module, depth), exc=None)
                except Raised as exc:
                    if exc.kind == "CancelledError":
                        raise
                    return Obj("aiotask", spawned=True, value=None, exc=exc)
                finally:
                    self.concurrent -= 1
        if canon in ("asyncio.gather", "asyncio.wait") and n.args:
            # the coroutines handed to gather()/wait() run concurrently with each other
            self.concurrent += 1
            try:
                return super().e_Call(n, env, module, depth)
            finally:
                self.concurrent -= 1
        if canon == "asyncio.wait_for":
            try:
                return super().e_Call(n, env, module, depth)
            except Hang:
                # what is waited for never finishes: the time limit, if there is one, is what ends the wait
                tnode = next((k.value for k in n.keywords if k.arg == "timeout"), n.args[1] if len(n.args) > 1 else None)
                tval = self.eval(tnode, env, module, depth) if tnode is not None else None
                if tval is None:
                    raise
                self.events.append(("wait_for", tval))
                self.events.append(("timed-out",))
                raise Raised("TimeoutError", "time limit (the awaited operation never finishes)")
        return super().e_Call(n, env, module, depth)

    def _settle(self, v):
        if isinstance(v, Obj) and v._name == "aiotask" and v.__dict__["_attrs"].get("spawned"):
            if v.exc is not None:
                raise v.exc
            return v.value
        return v

    def e_Await(self, n, env, module, depth):
        # awaiting one of the pool's own coroutines does not suspend: cancellation lands at the innermost real suspension point
        f = n.value.func if isinstance(n.value, ast.Call) else None
        fname = f.attr if isinstance(f, ast.Attribute) else f.id if isinstance(f, ast.Name) else None
        own = fname and fname in self._own_coroutines(module)
        if own and isinstance(f, ast.Attribute):
            # only a method called on the scheduler itself: asyncio.wait_for(...) is the library's, although the Scheduler has a wait_for method too
            canon = self.index.canon(f, module) or ""
            own = isinstance(f.value, ast.Name) and f.value.id == "self" and not canon.startswith(("asyncio.", "builtins."))
        if own:
            return self.eval(n.value, env, module, depth)
        self.awaits += 1
        self.await_log.append(ast.unparse(n.value)[:50])
        if self.cancel_at is not None and self.awaits == self.cancel_at:
            self.events.append(("cancel-delivered", self.awaits, ast.unparse(n.value)[:40]))
            raise Raised("CancelledError", "cancelled at await #%d" % self.awaits)
        return self._settle(self.eval(n.value, env, module, depth))


def _own_coroutines(self, module):
    c = self.__dict__.setdefault("_own_coros", {})
    if id(module) not in c:
        c[id(module)] = {x.name for x in ast.walk(module.tree) if isinstance(x, ast.AsyncFunctionDef)}
    return c[id(module)]


_TaskInterp._own_coroutines = _own_coroutines


def pool_as_started(ctx):
    """The Scheduler object that `gwf workers -n 2` builds when it runs the way a pool usually runs - detached, standard streams not a terminal (nohup, a batch job, a
    service): `workers` -> start_cluster -> start_cluster_async are evaluated, the server start is a recorder.  Returns the fields of that object that the witnesses'
    own stand-in does not set (working directory, core count, tables), so that the task coroutine is evaluated on the scheduler the command really creates."""
    cache = ctx.shared.setdefault("_pool_as_started", {})
    if "v" in cache:
        return cache["v"]
    fn = ctx.index.func("gwf.plugins.workers:workers")
    got = []
    hooks = {"asyncio.run": lambda coro, **k: coro, "attr:start_server": lambda recv, *a, **k: got.append(getattr(recv, "scheduler", None)),
             "attr:isatty": lambda recv: False, "os.isatty": lambda fd: False, "multiprocessing.cpu_count": lambda: 3, "os.cpu_count": lambda: 3, "os.sched_getaffinity": lambda pid=0: {0, 1, 2}, "os.process_cpu_count": lambda: 3,
             "asyncio.Semaphore": lambda *a, **k: Obj("semaphore"), "asyncio.BoundedSemaphore": lambda *a, **k: Obj("semaphore"),
             "os.getcwd": lambda: tok("CWD"), "os.path.abspath": lambda p: p, "os.path.realpath": lambda p: p,
             "os.environ.get": lambda k_, d_=None: d_, "os.getenv": lambda k_, d_=None: d_}
    interp = PureInterp(ctx, hooks=hooks)
    interp.max_depth = 20
    dflt = click_defaults(ctx, fn)
    names = fn.positional_params()
    kwargs = {n: dflt.get(n) for n in names[1:]}
    for cand in ("num_workers", "max_cores", "n", "workers"):
        if cand in kwargs:
            kwargs[cand] = 2
    extra = {}
    try:
        interp.call(fn, (ctx_obj(ctx, working_dir=PROJ, config={}, backend="local"),), kwargs)
        sch = next((s_ for s_ in got if isinstance(s_, Obj)), None)
        if sch is not None:
            for k_, v_ in sch.__dict__["_attrs"].items():
                if k_ not in ("working_dir", "max_cores", "tasks", "task_states", "cores_ressource", "__class__", "_args", "_kwargs") and isinstance(v_, (bool, int, float, str, type(None))):
                    extra[k_] = v_
    except (Raised, Unsupported):
        extra = {}
    cache["v"] = extra
    return extra


def eval_task(ctx, deps=None, rc=0, timeout=False, spawn_fails=False, log_fails=False, cancel_at=None, unknown_dep=False, finished=(), leader_reaped=False, one_shot=False,
              extra_kwargs=None):
    """Scheduler.try_handle_task evaluated once. deps: {dep id: final LocalStatus member}. Returns (result dict, error)."""
    LOCAL = "gwf.backends.local"
    idx = ctx.index
    ci = idx.cls(f"{LOCAL}:Scheduler")
    th = idx.method(ci, "try_handle_task")
    L = lambda m: EnumVal(f"{LOCAL}.LocalStatus", m)
    deps = dict(deps or {})
    ev = []
    sem = Obj("semaphore")
    proc = Obj("proc", returncode=rc, pid=4321, stdout=StreamModel(TASK_STDOUT), stderr=StreamModel(TASK_STDERR))
    tasks = {d: Obj("aiotask", dep=d) for d in deps}
    states = {d: L(s) for d, s in deps.items()}
    states[7] = L("SUBMITTED")
    dep_ids = list(deps) + ([99] if unknown_dep else [])

    def h_wait(aws, **k):
        aws = list(aws)
        rw = k.get("return_when")
        if rw is not None and "FIRST" in str(getattr(rw, "name", rw)) and aws:
            # FIRST_COMPLETED / FIRST_EXCEPTION: the call returns as soon as one of them is done - in the witness always exactly one, so a loop has to come back for the rest
            ev.append(("wait", [getattr(aws[0], "dep", "?")], dict(k)))
            return ({aws[0]}, set(aws[1:]))
        ev.append(("wait", sorted(getattr(a, "dep", "?") for a in aws), dict(k)))
        return (set(aws), set())

    def h_spawn(*a, **k):
        if spawn_fails == "eagain" and not any(e[0] == "spawn-refused" for e in ev):
            ev.append(("spawn-refused", dict(k), a))      # fork() fails once with EAGAIN (the host is momentarily out of processes); a second attempt would succeed
            raise Raised("BlockingIOError", "[Errno 11] Resource temporarily unavailable")
        ev.append(("spawn", dict(k), a))
        if spawn_fails is True:
            raise Raised("FileNotFoundError", "no such working directory")
        # where the process's output goes: a pipe the pool has to drain, or straight into an open file (then there is no pipe to read - and none to fill up)
        for sname, data in (("stdout", TASK_STDOUT), ("stderr", TASK_STDERR)):
            dest = k.get(sname)
            dn = str(getattr(dest, "name", dest))
            if isinstance(dest, Obj) and dest._name == "file":
                ev.append(("write", getattr(dest, "path", None), data))
                getattr(proc, sname).pos = len(data)
                setattr(proc, sname, None)
            elif dn.endswith("STDOUT") and sname == "stderr":       # stderr=subprocess.STDOUT: merged into the other stream
                proc.stderr.pos = len(TASK_STDERR)
                setattr(proc, sname, None)
            elif dest is None or dn.endswith("DEVNULL"):
                getattr(proc, sname).pos = len(data)                # inherited / discarded: nothing for the pool to read
                setattr(proc, sname, None)
        return proc

    def h_wait_for(aw, timeout=None, **k):
        if timeout is None and k.get("timeout") is not None:
            timeout = k["timeout"]
        ev.append(("wait_for", timeout))
        # the task's process outlives its time limit: the wait that carries that limit (whatever it waits for - communicate(), wait(), the copier tasks) times out, once
        if timeout_flag[0] and timeout == 5 and not any(e[0] == "timed-out" for e in ev):
            ev.append(("timed-out",))
            raise Raised("TimeoutError", "time limit")
        return aw[1] if isinstance(aw, tuple) and aw and aw[0] == "COMM" else aw

    timeout_flag = [timeout]

    def h_communicate(recv, *a, **k):
        cur = states.get(7)
        ev.append(("communicate", cur.member if isinstance(cur, EnumVal) else cur))
        interp.concurrent += 1          # communicate() drains both pipes at the same time
        try:
            return ("COMM", (proc.stdout.read() if proc.stdout is not None else None, proc.stderr.read() if proc.stderr is not None else None))
        finally:
            interp.concurrent -= 1

    def h_proc_wait(recv, *a, **k):
        # the process exits only when everything it printed fitted into the pipes or was read
        if recv is proc and "spawn" in [e[0] for e in ev] and not any(e[0] in ("killpg", "proc.kill") for e in ev) and not getattr(interp, "concurrent", 0):
            for s_ in streams:
                if s_.unread() > PIPE_CAPACITY:
                    raise Hang(f"proc.wait() is awaited while {s_.unread()} bytes are waiting in a pipe nobody reads: the process blocks in write() and never exits")
        ev.append(("proc.wait",))

    def h_open(path, mode="r", *a, **k):
        mode = k.get("mode", mode)
        ev.append(("open", str(path), mode))
        if log_fails:
            raise Raised("PermissionError", str(path))
        return Obj("file", path=str(path), mode=mode)

    def h_lookup(pid):
        # looking a process up by pid fails once it has been reaped, although other members of its group (the script's children) still run
        if leader_reaped:
            raise Raised("ProcessLookupError", f"[Errno 3] No such process: {pid}")
        return pid

    hooks = {
        "asyncio.wait": h_wait,
        "asyncio.gather": lambda *aws, **k: ev.append(("gather", sorted(getattr(a, "dep", "?") for a in aws if not getattr(a, "shielded", False)), dict(k)))
        or ev.append(("wait", sorted(getattr(getattr(a, "inner", a), "dep", "?") for a in aws), {})) or [None for _ in aws],
        "asyncio.shield": lambda aw: Obj("shielded", shielded=True, inner=aw, dep=getattr(aw, "dep", "?")),
        "asyncio.wait_for": h_wait_for,
        "asyncio.create_subprocess_shell": h_spawn, "asyncio.create_subprocess_exec": h_spawn,
        "asyncio.sleep": lambda *a, **k: ev.append(("sleep", a[0] if a else None)),
        # (the pool's cores are the scheduler's semaphore; any other lock the coroutine takes is recorded under another name)
        "attr:acquire": lambda recv, *a, **k: ev.append(("acquire",) if recv is sem or not isinstance(recv, Obj) else ("lock-acquire", getattr(recv, "_name", "?"))),
        "attr:release": lambda recv, *a, **k: ev.append(("release",) if recv is sem or not isinstance(recv, Obj) else ("lock-release", getattr(recv, "_name", "?"))),
        "attr:communicate": h_communicate,
        "attr:wait": h_proc_wait,
        "attr:done": lambda recv, *a, **k: getattr(recv, "dep", None) in finished, "attr:cancelled": lambda recv, *a, **k: False,
        "attr:kill": lambda recv, *a, **k: ev.append(("proc.kill",)), "attr:terminate": lambda recv, *a, **k: ev.append(("proc.terminate",)),
        "attr:send_signal": lambda recv, *a, **k: ev.append(("proc.send_signal", a)),
        "os.killpg": lambda pid, sig: ev.append(("killpg", pid, getattr(sig, "name", str(sig)).rsplit(".", 1)[-1])),
        "os.getpgid": h_lookup, "os.getsid": h_lookup,
        "os.kill": lambda pid, sig: h_lookup(pid) and ev.append(("kill-leader-only", pid)),
        "builtins.open": h_open,
        "attr:open": lambda recv, mode="r", *a, **k: h_open(str(recv), k.get("mode", mode)),
        "attr:write": lambda recv, data, *a: ev.append(("write", getattr(recv, "path", None), data)),
        "attr:flush": lambda recv, *a: None, "attr:cancel": lambda recv, *a: ev.append(("task.cancel", getattr(recv, "dep", None))),
        "attr:close": lambda recv, *a: interp._unwind_exitstack(recv, 0) if isinstance(recv, Obj) and recv._name == "exitstack" else ev.append(("close", getattr(recv, "path", None))),
        "attr:fileno": lambda recv: 7, "os.fsync": lambda fd: None,
        "attr:read": lambda recv, n_=-1: recv.read(n_), "attr:readline": lambda recv: recv.readline(), "attr:readuntil": lambda recv, sep=b"\n": recv.readuntil(sep),
        "attr:at_eof": lambda recv: recv.pos >= len(recv.data),
        "attr:readexactly": lambda recv, n_: recv.read(n_),
        "attr:write_bytes": lambda recv, data: (h_open(str(recv), "wb"), ev.append(("write", str(recv), data)))[1],
        "attr:write_text": lambda recv, data, *a, **k: (h_open(str(recv), "w"), ev.append(("write", str(recv), data)))[1],
    }
    from ..symeval import SymPath      # the pure part of pathlib is computed for real (joinpath, with_suffix, parent ...)
    sched = Obj("scheduler", working_dir=SymPath("/wd"), max_cores=2, tasks=tasks, task_states=states, cores_ressource=sem, **{"__class__": ci}, **pool_as_started(ctx))
    interp = _TaskInterp(ctx, hooks, cancel_at)
    interp.events = ev
    streams = (proc.stdout, proc.stderr)
    proc.stdout.peer, proc.stderr.peer = proc.stderr, proc.stdout
    proc.stdout.concurrent = proc.stderr.concurrent = lambda: interp.concurrent > 0
    out = {"events": ev, "raised": None, "hang": None}
    try:
        interp.call(th, (7, "NAME.v1", "echo hi", "/work", 5 if timeout else None, (iter(dep_ids) if one_shot else dep_ids)), dict(extra_kwargs or {}), self_obj=sched)
    except Hang as exc:
        out["hang"] = str(exc)
    except Raised as exc:
        out["raised"] = exc.kind
    except Unsupported as exc:
        return None, f"Unsupported: {exc}"
    st = states.get(7)
    out["final"] = st.member if isinstance(st, EnumVal) else st
    out["awaits"] = interp.awaits
    out["await_log"] = interp.await_log
    return out, None


def _task_invariants(label, out, pool_size=None):
    """Property-level invariants of one evaluated history of the task coroutine (C11, C12, C13).  pool_size: the task was given a request for several cores (an
    option the checker does not know): it may then hold several, never more than the pool has (it would wait forever for the rest)."""
    ev = out["events"]
    kinds = [e[0] for e in ev]
    diffs = []
    # the cores this task holds, event by event (a cancellation delivered inside acquire() means that acquire did not obtain one)
    held = 0
    for i, e in enumerate(ev):
        if e[0] == "acquire":
            held += 1
            if held > 1 and pool_size is None:
                diffs.append(f"{label}: the task obtains a second core while it still holds one")
            if pool_size is not None and held > pool_size:
                diffs.append(f"{label}: the task asks the pool of {pool_size} for core number {held}: it waits forever, holding all the others")
            elif pool_size is not None and held > 1 and not any("waits for a further core" in d_ for d_ in diffs) and \
                    sum(1 for x in ev[:i] if x[0] == "lock-acquire") <= sum(1 for x in ev[:i] if x[0] == "lock-release"):      # (not while holding a mutex that serialises wide tasks)
                diffs.append(f"{label}: the task waits for a further core while it holds {held - 1} (one acquire() at a time): two such tasks can each hold part of the pool and wait "
                             "for the rest forever - neither ever reaches a final state, and every core they hold is lost to the other tasks (a counting semaphore hands out "
                             "slots one by one; taking several is not atomic)")
        elif e[0] == "cancel-delivered" and "acquire" in str(e[2]):
            held -= 1
        elif e[0] == "release":
            held -= 1
            if held < 0:
                diffs.append(f"{label}: release() is called although the task holds no core (it gave it back before, or never obtained one): the pool grows by a slot for its "
                             "lifetime, so more tasks run at once than there are workers")
                held = 0
        elif e[0] == "spawn" and held < 1:
            diffs.append(f"{label}: the task's process is started without holding a core")
        elif e[0] == "communicate" and held < 1:
            diffs.append(f"{label}: the task's process runs while the task holds no core")
    if held > 0:
        diffs.append(f"{label}: a core was obtained but never released: the slot is lost for the pool's lifetime")
    if "spawn" in kinds:
        i_sp = kinds.index("spawn")
        kw = ev[i_sp][1]
        if not (kw.get("start_new_session") is True or kw.get("process_group") == 0):
            diffs.append(f"{label}: the process is not started as a session/group leader, so its children cannot be signalled")
        if kw.get("cwd") != "/work":
            diffs.append(f"{label}: the process is started in {kw.get('cwd')!r}, not in the task's working directory")
    for e in ev:
        if e[0] == "communicate" and len(e) > 1 and e[1] != "RUNNING":
            diffs.append(f"{label}: while its process runs the task's state is {e[1]}, not RUNNING")
    for e in ev:
        if e[0] == "gather" and e[1]:
            diffs.append(f"{label}: the dependencies {e[1]} are awaited with asyncio.gather without a shield: cancelling this task while it waits cancels the tasks it depends on")
    if out.get("hang"):
        diffs.append(f"{label}: the coroutine never finishes: {out['hang']}; the task stays RUNNING on its core forever (a task that prints more than 64 KiB to each stream)")
        return diffs
    if out["raised"]:
        diffs.append(f"{label}: the coroutine ends with an unhandled {out['raised']} (the task never reaches a final state and its dependents hang)")
    if out["final"] not in ("COMPLETED", "FAILED", "KILLED", "CANCELLED"):
        diffs.append(f"{label}: the coroutine ends with the task in state {out['final']}: not a final state, so it and every task depending on it hang forever")
    return diffs


def task_coroutine_witness(ctx):
    diffs, n = [], 0
    spawned = lambda o: any(e[0] == "spawn" for e in o["events"])

    def run(label, **kw):
        nonlocal n
        out, err = eval_task(ctx, **kw)
        if err:
            raise Unsupported(err)
        n += 1
        diffs.extend(_task_invariants(label, out))
        return out

    try:
        # dependencies
        for deps, want, label in (({}, {"COMPLETED"}, "no dependencies, exit 0"), ({1: "COMPLETED", 2: "COMPLETED"}, {"COMPLETED"}, "two completed dependencies, exit 0"),
                                  ({1: "COMPLETED", 2: "FAILED"}, {"FAILED"}, "one of two dependencies failed"), ({1: "FAILED", 2: "COMPLETED"}, {"FAILED"}, "first of two dependencies failed"),
                                  ({1: "CANCELLED"}, {"CANCELLED"}, "the dependency was cancelled"), ({1: "KILLED"}, {"KILLED", "FAILED"}, "the dependency exceeded its time limit"),
                                  ({1: "COMPLETED", 2: "COMPLETED", 3: "CANCELLED"}, {"CANCELLED"}, "last of three dependencies cancelled")):
            out = run(label, deps=deps)
            ok_deps = all(s == "COMPLETED" for s in deps.values())
            if deps:
                waits = [e for e in out["events"] if e[0] == "wait"]
                # what matters is what has been waited for when the process starts (a loop that wakes up per finished dependency and gives up at the first failure is
                # fine; one that starts the process after the first wake-up is not)
                kinds_ = [e[0] for e in out["events"]]
                upto = kinds_.index("spawn") if "spawn" in kinds_ else len(kinds_)
                waited = sorted({d for e in out["events"][:upto] if e[0] == "wait" for d in e[1]})
                if spawned(out) and waited != sorted(deps):
                    diffs.append(f"{label}: the process is started when only the dependencies {waited} of {sorted(deps)} have been waited for")
                if not spawned(out) and not waits:
                    diffs.append(f"{label}: the coroutine decides without waiting for any dependency")
                for w in waits:
                    if w[2].get("timeout") is not None:
                        diffs.append(f"{label}: the wait for the dependencies has a timeout: the task can start while a dependency is still running")
            if ok_deps != spawned(out):
                diffs.append(f"{label}: the task's process is {'started' if spawned(out) else 'not started'}; it must be started exactly when every dependency completed successfully")
            if out["final"] not in want:
                diffs.append(f"{label}: the task ends {out['final']}, expected {sorted(want)}")
        # dependencies that had already finished when the task was accepted (late submission)
        for deps, fin, want, label in (({1: "FAILED", 2: "COMPLETED"}, (1,), {"FAILED"}, "a dependency had already failed when the task was submitted"),
                                       ({1: "CANCELLED"}, (1,), {"CANCELLED"}, "the only dependency had already been cancelled when the task was submitted"),
                                       ({1: "COMPLETED", 2: "COMPLETED"}, (1, 2), {"COMPLETED"}, "both dependencies had already completed when the task was submitted"),
                                       ({1: "COMPLETED", 2: "KILLED"}, (1, 2), {"KILLED", "FAILED"}, "a dependency had already been killed when the task was submitted")):
            out = run(label, deps=deps, finished=fin)
            ok_deps = all(s == "COMPLETED" for s in deps.values())
            if ok_deps != spawned(out):
                diffs.append(f"{label}: the task's process is {'started' if spawned(out) else 'not started'}; it must be started exactly when every dependency completed successfully")
            if out["final"] not in want:
                diffs.append(f"{label}: the task ends {out['final']}, expected {sorted(want)}")
        # parameters of the coroutine the checker does not know and that count something (an int default: cores, slots, weight ...): the histories in which cores are
        # taken and given back, with a request larger than the pool (2) and with the smallest one
        th_ = ctx.index.method(ctx.index.cls("gwf.backends.local:Scheduler"), "try_handle_task")
        known_ = {"self", "tid", "name", "script", "working_dir", "time_limit", "deps"}
        a_ = th_.node.args
        pos_ = a_.posonlyargs + a_.args
        dflt_ = dict(zip([x.arg for x in pos_[len(pos_) - len(a_.defaults):]], a_.defaults))
        dflt_.update({x.arg: d for x, d in zip(a_.kwonlyargs, a_.kw_defaults) if d is not None})
        for pname, d in dflt_.items():
            if pname in known_ or not (isinstance(d, ast.Constant) and type(d.value) is int):
                continue
            for val in (4, d.value):
                for label, kw in ((f"{pname}={val}, exit 0", {}), (f"{pname}={val}, the process cannot be started", {"spawn_fails": True}),
                                  (f"{pname}={val}, time limit exceeded", {"timeout": True}), (f"{pname}={val}, a dependency failed", {"deps": {1: "FAILED"}})):
                    out, err = eval_task(ctx, extra_kwargs={pname: val}, **kw)
                    if err:
                        raise Unsupported(err)
                    n += 1
                    diffs.extend(d_ for d_ in _task_invariants(label, out, pool_size=2) if "core" in d_ or "release" in d_)
        out = run("unknown dependency id", unknown_dep=True)
        if spawned(out) or out["final"] != "FAILED":
            diffs.append(f"a task naming an unknown dependency id {'is started' if spawned(out) else 'is not started'} and ends {out['final']}; expected: not started, FAILED")
        # exit status
        for rc, want in ((0, "COMPLETED"), (1, "FAILED"), (255, "FAILED"), (-9, "FAILED")):
            out = run(f"exit status {rc}", rc=rc)
            if out["final"] != want:
                diffs.append(f"a task whose process exits with status {rc} ends {out['final']}, expected {want}")
            ev = out["events"]
            writes = {}
            for e in ev:
                if e[0] == "write" and isinstance(e[2], (bytes, bytearray)):
                    writes[str(e[1])] = writes.get(str(e[1]), b"") + bytes(e[2])
                elif e[0] == "write":
                    writes[str(e[1])] = e[2]
            if writes != {"/wd/.gwf/logs/NAME.v1.stdout": TASK_STDOUT, "/wd/.gwf/logs/NAME.v1.stderr": TASK_STDERR}:
                short = {k_: (f"{len(v_)} bytes" if isinstance(v_, bytes) and len(v_) > 60 else v_) for k_, v_ in writes.items()}
                diffs.append(f"exit status {rc}: the task's output (stdout: {len(TASK_STDOUT)} bytes with one line of 70000 bytes and no final newline; stderr: {len(TASK_STDERR)} bytes) "
                             f"is stored as {short}; expected, for the task named NAME.v1, stdout -> <project>/.gwf/logs/NAME.v1.stdout and stderr -> NAME.v1.stderr, complete")
            opens = [e for e in ev if e[0] == "open"]
            if any(e[2] not in ("wb", "bw") for e in opens):
                diffs.append(f"exit status {rc}: the logs are opened with modes {[e[2] for e in opens]}; the latest run's bytes must replace the file ('wb')")
            kinds = [e[0] for e in ev]
            if "communicate" in kinds and "release" in kinds and kinds.index("release") < kinds.index("communicate"):
                diffs.append(f"exit status {rc}: the core is released before the process has finished")
        # faults
        out = run("the process cannot be started", spawn_fails=True)
        if out["final"] != "FAILED":
            diffs.append(f"a task whose process cannot be started (missing working directory) ends {out['final']}, expected FAILED")
        if any(e[0] in ("killpg", "proc.wait", "proc.kill") for e in out["events"]):
            diffs.append("a task whose process could not be started runs the kill sequence on a process that does not exist")
        # fork() refused once (EAGAIN): whether the task gives up (FAILED) or tries again, the cores it obtained and gave back must balance - also when it is cancelled on the way
        out = run("the process cannot be started at the first attempt (fork: EAGAIN)", spawn_fails="eagain")
        if out["final"] not in ("FAILED", "COMPLETED"):
            diffs.append(f"a task whose process cannot be started at the first attempt (EAGAIN) ends {out['final']}, expected FAILED (or COMPLETED after a successful retry)")
        for k in range(1, out["awaits"] + 1):
            label = f"fork refused once (EAGAIN), cancelled at await #{k} (`{out['await_log'][k - 1]}`)"
            o2 = run(label, spawn_fails="eagain", cancel_at=k)
            k2 = [e[0] for e in o2["events"]]
            if "cancel-delivered" in k2 and o2["final"] != "CANCELLED":
                diffs.append(f"{label}: the task ends {o2['final']}, expected CANCELLED")
            if "spawn" in k2 and "cancel-delivered" in k2[k2.index("spawn"):] and not any(e[0] == "killpg" and "KILL" in str(e[2]) for e in o2["events"]):
                diffs.append(f"{label}: the running process group is not sent SIGKILL")
        out = run("the log files cannot be written", log_fails=True)
        if out["final"] != "FAILED":
            diffs.append(f"a task whose logs cannot be written ends {out['final']}, expected FAILED")
        out = run("time limit exceeded", timeout=True)
        kinds = [e[0] for e in out["events"]]
        if out["final"] not in ("KILLED", "FAILED"):
            diffs.append(f"a task that exceeds its time limit ends {out['final']}, expected KILLED")
        if not any(e[0] == "killpg" and "KILL" in str(e[2]) for e in out["events"]):
            diffs.append("a task that exceeds its time limit is not sent SIGKILL through its process group: its children keep running")
        elif "release" in kinds and kinds.index("release") < max(i for i, e in enumerate(out["events"]) if e[0] == "killpg"):
            diffs.append("time limit exceeded: the core is released before the process group has been killed")
        if "proc.wait" not in kinds:
            diffs.append("time limit exceeded: the killed process is never reaped (proc.wait)")
        if not any(e[0] == "wait_for" and e[1] == 5 for e in out["events"]):
            diffs.append("the task's time limit is not applied to the run of its process")
        # the script's shell has exited and been reaped, its background children hold the pipes open and keep running: the group is still there
        out = run("time limit exceeded after the shell itself was reaped (its children still run)", timeout=True, leader_reaped=True)
        if not any(e[0] == "killpg" and "KILL" in str(e[2]) for e in out["events"]):
            diffs.append("time limit exceeded after the script's shell exited and was reaped while its children still run: the process group is not sent SIGKILL (the group is "
                         "looked up through the pid of the reaped leader, which fails, and the failure is swallowed): the task is reported killed but its processes keep running")
        # cancellation at every await of the normal path (with and without dependencies)
        for deps in ({}, {1: "COMPLETED"}):
            base, err = eval_task(ctx, deps=deps)
            if err:
                raise Unsupported(err)
            # positive control of the evaluation itself: it must suspend at least once WHILE the task's process runs (after the spawn, before the logs are written),
            # otherwise no cancellation is ever delivered there and an agreeing evaluation would prove nothing about the cancel path
            ev0 = [e[0] for e in base["events"]]
            if "spawn" in ev0:
                probe = [eval_task(ctx, deps=deps, cancel_at=k)[0] for k in range(1, base["awaits"] + 1)]
                if not any(p_ and "spawn" in [e[0] for e in p_["events"]] and any(e[0] == "cancel-delivered" for e in p_["events"]) for p_ in probe):
                    raise Unsupported("the evaluation delivers no cancellation while the task's process runs (no suspension point recognised between spawn and exit)")
            for k in range(1, base["awaits"] + 1):
                label = f"cancelled at await #{k} (`{base['await_log'][k - 1]}`){' with a dependency' if deps else ''}"
                out = run(label, deps=deps, cancel_at=k)
                kinds = [e[0] for e in out["events"]]
                if out["final"] != "CANCELLED":
                    diffs.append(f"{label}: the task ends {out['final']}, expected CANCELLED")
                if "spawn" in kinds:
                    if not any(e[0] == "killpg" and "KILL" in str(e[2]) for e in out["events"]):
                        diffs.append(f"{label}: the running process group is not sent SIGKILL: the task's processes keep running after the cancellation")
                    elif "release" in kinds and kinds.index("release") < max(i for i, e in enumerate(out["events"]) if e[0] == "killpg"):
                        diffs.append(f"{label}: the core is released before the process group has been killed")
                    if "proc.wait" not in kinds[kinds.index("spawn"):]:
                        diffs.append(f"{label}: the killed process is never reaped")
                elif any(e[0] in ("killpg", "proc.kill") for e in out["events"]):
                    diffs.append(f"{label}: the kill sequence runs although no process was started")
    except Unsupported as exc:
        return n, diffs, str(exc)
    # de-duplicate, keep order
    seen, uniq = set(), []
    for d in diffs:
        if d not in seen:
            seen.add(d)
            uniq.append(d)
    return n, uniq, None


def cancel_task_witness(ctx):
    """Scheduler.cancel_task over every LocalStatus member: only waiting/running tasks are cancelled; a finished task keeps its final state."""
    LOCAL = "gwf.backends.local"
    idx = ctx.index
    ci = idx.cls(f"{LOCAL}:Scheduler")
    m = idx.method(ci, "cancel_task")
    from ..consteval import enum_members
    members = enum_members(idx, idx.cls(f"{LOCAL}:LocalStatus"))
    diffs, n = [], 0
    for st in members:
        calls = []
        worker = Obj("aiotask")
        states = {7: EnumVal(f"{LOCAL}.LocalStatus", st), 8: EnumVal(f"{LOCAL}.LocalStatus", "RUNNING")}
        sched = Obj("scheduler", tasks={7: worker, 8: Obj("aiotask")}, task_states=states, **{"__class__": ci})
        interp = PureInterp(ctx, hooks={"attr:cancel": lambda recv, *a, **k: calls.append(recv is worker), "attr:done": lambda recv: st in ("COMPLETED", "FAILED", "KILLED", "CANCELLED")})
        try:
            interp.call(m, (7,), {}, self_obj=sched)
        except Raised as exc:
            diffs.append(f"cancelling a task in state {st} raises {exc.kind}")
            n += 1
            continue
        except Unsupported as exc:
            return n, diffs, f"Unsupported: {exc}"
        n += 1
        after = states[7].member if isinstance(states[7], EnumVal) else states[7]
        live = st in ("SUBMITTED", "RUNNING")
        if live and (calls != [True] or after != "CANCELLED"):
            diffs.append(f"cancelling a {st} task: worker.cancel() called {len(calls)} time(s), state afterwards {after}; expected one cancel and CANCELLED")
        if not live and (calls or after != st):
            diffs.append(f"cancelling a task that is {st}: worker.cancel() called {len(calls)} time(s), state afterwards {after}; a finished (or unknown) task must keep its state and not be cancelled")
        if states[8].member != "RUNNING":
            diffs.append(f"cancelling task 7 changes the state of task 8 to {states[8].member}")
    return n, diffs, None


def eval_backend_init(ctx, disk, query_fails=False):
    """TrackingBackend's initialisers (attrs default methods in field order, then __attrs_post_init__) with the state file and ops hooked.

    disk: the dict saved by the previous invocation or None (no file). Returns dict(tracked, states, queried, opened) or an error string."""
    idx = ctx.index
    ci = idx.cls("gwf.backends.base:TrackingBackend")
    queried, opened = [], []
    answer = {}

    def h_open(path, mode="r", *a, **k):
        mode = k.get("mode", mode)
        opened.append((str(path), mode))
        if disk is None:
            raise Raised("FileNotFoundError", str(path))
        return Obj("file", path=str(path), mode=mode)

    def h_states(recv, ids):
        ids = list(ids)
        queried.append(ids)
        if query_fails:
            raise Raised("BackendError", "squeue: error: slurm_load_jobs error: Socket timed out on send/recv operation")
        answer.update({i: EnumVal("gwf.backends.base.BackendStatus", "RUNNING") for i in ids})
        return dict(answer)

    hooks = {"builtins.open": h_open, "json.load": lambda f, *a, **k: dict(disk or {}), "attr:get_job_states": h_states}
    obj = Obj("backend", working_dir=PROJ, name="NAME", ops=Obj("ops", target_defaults={}), **{"__class__": ci})
    interp = PureInterp(ctx, hooks=hooks)
    try:
        for fname, _ann, _value in ci.fields:
            for m in ci.methods.values():
                if any((d or "").endswith(f"{fname}.default") for d in m.decorator_names()):
                    setattr(obj, fname, interp.call(m, (), {}, self_obj=obj))
        post = idx.method(ci, "__attrs_post_init__")
        if post is not None:
            interp.call(post, (), {}, self_obj=obj)
    except (Raised, Unsupported) as exc:
        return f"<{type(exc).__name__}: {exc}>"
    a = obj.__dict__["_attrs"]
    return {"tracked": dict(a.get("_tracked_jobs") or {}) if isinstance(a.get("_tracked_jobs"), dict) else a.get("_tracked_jobs"),
            "states": a.get("_job_states"), "queried": queried, "opened": opened}


def eval_submit_ids(ctx):
    """The id each cluster backend hands back for what the scheduler prints on submission."""
    answers = {"sbatch": "4242\n", "qsub": "4242\n", "bsub": "Job <4242> is submitted to default queue <normal>.\n"}
    out = {}
    for mod, cname, exe in (("gwf.backends.slurm", "SlurmOps", "sbatch"), ("gwf.backends.sge", "SGEOps", "qsub"), ("gwf.backends.lsf", "LSFOps", "bsub")):
        ci = ctx.index.cls(f"{mod}:{cname}")
        m = ctx.index.method(ci, "submit_target")
        hooks = {"gwf.backends.utils.call": lambda e, *a, **k: answers.get(e, ""), "attr:compile_script": lambda recv, t: "SCRIPT",
                 "builtins.open": lambda p, mode="r", *a, **k: Obj("file", path=str(p), mode=mode), "attr:write": lambda recv, *a: None}
        interp = PureInterp(ctx, hooks=hooks)
        obj = make_instance(ctx, ci, "ops", working_dir=PROJ, log_mode="full", accounting_enabled=True, target_defaults={})
        try:
            out[cname] = (interp.call(m, (target_obj(ctx, name="T", options={}, spec="x", working_dir="/w"), []), {}, self_obj=obj), m)
        except (Raised, Unsupported) as exc:
            out[cname] = (f"<{type(exc).__name__}: {exc}>", m)
    return out


def cached_fs_witness(ctx):
    """CachedFilesystem evaluated: one stat per path and instance, existence and st_mtime of the file a path denotes, missing files."""
    idx = ctx.index
    ci = idx.cls("gwf.core:CachedFilesystem")
    diffs, n = [], 0
    stats = []

    def h_stat(path, *a, **k):
        stats.append(("stat", str(path), dict(k)))
        if str(path) == "/missing":
            raise Raised("FileNotFoundError", str(path))
        if str(path) == "/epoch":     # a file dated 1970-01-01 (reproducible archives, `touch -d @0`): its time stamp is the number 0
            return Obj("stat_result", st_mtime=0.0, st_ctime=999.0, st_atime=5.0, st_size=0)
        return Obj("stat_result", st_mtime=111.5, st_ctime=999.0, st_atime=5.0, st_size=3)

    def h_quiet(path):       # (the answer without the bookkeeping: the hooks below record their one call themselves)
        n0 = len(stats)
        try:
            return h_stat(path)
        finally:
            del stats[n0:]
    hooks = {"os.stat": h_stat, "os.lstat": lambda p, *a, **k: (stats.append(("lstat", str(p), {})), h_quiet(p))[1],
             "os.path.exists": lambda p: (stats.append(("stat", str(p), {})), str(p) != "/missing")[1],
             "os.path.getmtime": lambda p: (stats.append(("stat", str(p), {})), h_quiet(p).st_mtime)[1],
             # "/adir" is a directory (a folder of reads, a reference index): it exists, and it is not a regular file
             "os.path.isfile": lambda p: (stats.append(("stat", str(p), {})), str(p) not in ("/missing", "/adir"))[1],
             "os.path.isdir": lambda p: (stats.append(("stat", str(p), {})), str(p) == "/adir")[1],
             "os.path.lexists": lambda p: (stats.append(("lstat", str(p), {})), str(p) != "/missing")[1],
             "os.path.islink": lambda p: (stats.append(("lstat", str(p), {})), False)[1],
             "os.access": lambda p, *a, **k: str(p) != "/missing"}
    interp = PureInterp(ctx, hooks=hooks)

    def new_fs():
        return interp.apply(ci, [], {}, 0)

    try:
        fs = new_fs()
        m_exists, m_changed = idx.method(ci, "exists"), idx.method(ci, "changed_at")
        got = [interp.call(m_exists, ("/a",), {}, self_obj=fs), interp.call(m_changed, ("/a",), {}, self_obj=fs), interp.call(m_exists, ("/a",), {}, self_obj=fs),
               interp.call(m_exists, ("/missing",), {}, self_obj=fs), interp.call(m_exists, ("/missing",), {}, self_obj=fs)]
        n += 1
        if got != [True, 111.5, True, False, False]:
            diffs.append(f"CachedFilesystem answers exists('/a'), changed_at('/a'), exists('/a'), exists('/missing') x2 with {got}; expected [True, <st_mtime>, True, False, False]")
        per_path = {}
        for k_, p_, kw in stats:
            per_path[p_] = per_path.get(p_, 0) + 1
            if k_ == "lstat" or kw.get("follow_symlinks") is False:
                diffs.append("the snapshot stats the link itself (lstat / follow_symlinks=False), not the file a path denotes")
        if any(v != 1 for v in per_path.values()):
            diffs.append(f"files are stat'ed {per_path} times within one snapshot: existence and modification time of one file may come from different moments")
        try:
            v = interp.call(m_changed, ("/missing",), {}, self_obj=fs)
            diffs.append(f"changed_at of a missing file returns {v!r} instead of raising FileNotFoundError")
        except Raised as exc:
            if exc.kind != "FileNotFoundError":
                diffs.append(f"changed_at of a missing file raises {exc.kind}, expected FileNotFoundError")
        n += 1
        try:
            got0 = [interp.call(m_exists, ("/epoch",), {}, self_obj=fs), interp.call(m_changed, ("/epoch",), {}, self_obj=fs)]
        except Raised as exc:
            got0 = f"raises {exc.kind}"
        n += 1
        if got0 != [True, 0.0]:
            diffs.append(f"for an existing file whose modification time is 0 (dated 1970-01-01) exists/changed_at give {got0}; expected [True, 0.0]: the time stamp is judged "
                         "by its truth value, so the file counts as missing (a well-formed workflow is rejected with an unresolved input, or the target is always stale)")
        try:
            gotd = [interp.call(m_exists, ("/adir",), {}, self_obj=fs), interp.call(m_changed, ("/adir",), {}, self_obj=fs)]
        except Raised as exc:
            gotd = f"raises {exc.kind}"
        n += 1
        if gotd != [True, 111.5]:
            diffs.append(f"for an existing directory (an input such as a folder of reads, which no target provides) exists/changed_at give {gotd}; expected [True, <st_mtime>]: "
                         "the path counts as missing, so a well-formed workflow is rejected with an unresolved input")
        before = len(stats)
        fs2 = new_fs()
        interp.call(m_exists, ("/a",), {}, self_obj=fs2)
        n += 1
        if len(stats) == before:
            diffs.append("a second CachedFilesystem answers from the first one's snapshot (shared cache): a later build in the same process sees a stale disk")
    except Raised as exc:
        diffs.append(f"CachedFilesystem fails with {exc.kind}: {exc.detail[:60]}")
    except Unsupported as exc:
        return n, diffs, f"Unsupported: {exc}"
    return n, diffs, None


# --------------------------------------------------------------------------- `gwf status` as a whole on the run witness project
def eval_status_command(ctx, status=(), endpoints=False, fmt="default", targets=(), states=None, stale=()):
    fn = ctx.index.func("gwf.plugins.status:status")
    names = [n for n, d in RUN_PROJECT.items() if d is not None]
    T = {n: target_obj(ctx, name=n, options={}, spec="spec of " + n, order=i) for i, n in enumerate(names)}
    deps = {T[n]: {T[d] for d in RUN_PROJECT[n]} for n in names}
    dependents = {T[n]: {T[m] for m in names if n in RUN_PROJECT[m]} for n in names}
    graph = GraphTok(T[n] for n in names)
    states = dict(states or {})
    events, lines = [], []
    backend = Obj("backend", target_defaults={"cores": 1})
    store = Obj("spec_hashes")

    def h_close(v):
        if v is backend:
            events.append(("close-backend",))
        elif v is store:
            events.append(("close-store",))

    hooks = {
        "gwf.workflow.Workflow.from_context": lambda c: Obj("workflow", targets=dict(T)), "gwf.Workflow.from_context": lambda c: Obj("workflow", targets=dict(T)),
        "gwf.core.Graph.from_targets": lambda *a, **k: graph, "gwf.core.CachedFilesystem": lambda *a, **k: Obj("fs"),
        "getattr:dependencies": lambda o: deps, "getattr:dependents": lambda o: dependents, "getattr:targets": lambda o: dict(T),
        "attr:endpoints": lambda recv: {T[n] for n in names if not dependents[T[n]]},
        "gwf.scheduling.should_run": lambda target, fs, sh: target.name in stale,
        "gwf.backends.base.create_backend": lambda *a, **k: (events.append(("open-backend",)), backend)[1],
        "gwf.backends.create_backend": lambda *a, **k: (events.append(("open-backend",)), backend)[1],
        "gwf.core.get_spec_hashes": lambda *a, **k: (events.append(("open-store",)), store)[1],
        "attr:status": lambda recv, target: EnumVal("gwf.backends.base.BackendStatus", states.get(target.name, "UNKNOWN")),
        "attr:submit": lambda recv, target, *a, **k: events.append(("submit", target.name)),
        "attr:cancel": lambda recv, target, *a, **k: events.append(("cancel", target.name)),
        "attr:update": lambda recv, *a, **k: recv.update(*a, **k) if isinstance(recv, (dict, set)) else events.append(("hash", a[0].name)),
        "attr:invalidate": lambda recv, t: events.append(("invalidate", t.name)),
        "attr:has_changed": lambda recv, t: None,
        "with_exit": h_close, "attr:close": lambda recv, *a, **k: h_close(recv),
        "os.remove": lambda p_: events.append(("remove", str(p_))), "os.unlink": lambda p_: events.append(("remove", str(p_))),
        "builtins.open": lambda p_, mode="r", *a, **k: (events.append(("open", str(p_), mode)), Obj("file", path=str(p_), mode=mode))[1],
        "click.secho": lambda *a, **k: lines.append(str(a[0]) if a else ""), "click.echo": lambda *a, **k: lines.append(str(a[0]) if a else ""),
    }
    interp = PureInterp(ctx, hooks=hooks)
    interp.max_depth = 40
    out = {"events": events, "lines": lines, "raised": None}
    try:
        call_command(ctx, interp, fn, (ctx_obj(ctx, working_dir="/p", config={}, backend="B"), tuple(status), endpoints, fmt, tuple(targets)))
    except Raised as exc:
        out["raised"] = exc.kind
        out["detail"] = exc.detail
    except Unsupported as exc:
        return None, f"Unsupported: {exc}"
    return out, None


def status_command_witness(ctx):
    deps = {n: d for n, d in RUN_PROJECT.items() if d is not None}
    all_eps = ["C", "X"]
    diffs, n = [], 0
    scenarios = [({}, set(deps)), ({"A": "FAILED", "B": "SUBMITTED"}, set()), ({"A": "RUNNING"}, {"X"}), ({"A": "COMPLETED", "B": "CANCELLED"}, set()), ({}, set())]
    views = [((), False, ()), (("shouldrun",), False, ()), (("failed", "cancelled"), False, ()), ((), True, ()), ((), False, ("A", "X")), (("shouldrun",), False, ("B*", "X")),
             (("completed", "submitted"), True, ())]
    for states, stale in scenarios:
        st_want, _sub = schedule_oracle(deps, states, stale, all_eps)
        for flt, eps, pats in views:
            import fnmatch
            out, err = eval_status_command(ctx, flt, eps, "default", pats, states, stale)
            if err:
                return n, diffs, err
            n += 1
            label = f"`gwf status{''.join(' -s ' + f for f in flt)}{' --endpoints' if eps else ''} {' '.join(pats)}` with backend states {states or 'none'}, stale {sorted(stale) or 'none'}"
            if out["raised"]:
                diffs.append(f"{label} ends with {out['raised']} ({out.get('detail', '')[:60]})")
                continue
            bad_ev = [e for e in out["events"] if e[0] in ("submit", "cancel", "hash", "invalidate", "remove") or (e[0] == "open" and any(ch in e[2] for ch in "wax+"))]
            if bad_ev:
                diffs.append(f"{label}: the status command has effects {bad_ev[:3]}; it must never submit, cancel, record, erase or delete anything")
            show = {t: s for t, s in st_want.items()
                    if (not flt or s.lower() in flt) and (not eps or t in all_eps) and (not pats or any(fnmatch.fnmatchcase(t, p_) for p_ in pats))}
            got = {}
            for ln in out["lines"]:
                parts = ln.split()
                if len(parts) >= 3 and parts[1] in deps:
                    got[parts[1]] = parts[2].upper()
            if got != show:
                diffs.append(f"{label}: shows {got}; the property prescribes the restriction {show} of the one table {st_want}")
            if len(diffs) > 4:
                return n, diffs, None
    # summary format: counts of the same table
    out, err = eval_status_command(ctx, (), False, "summary", (), {"A": "FAILED"}, {"X"})
    if err:
        return n, diffs, err
    n += 1
    if out["raised"]:
        diffs.append(f"`gwf status -f summary` ends with {out['raised']}")
    # an empty selection must not crash either format
    for fmt in ("default", "summary"):
        out, err = eval_status_command(ctx, ("running",), False, fmt, ("nomatch",), {}, set())
        if err:
            return n, diffs, err
        n += 1
        if out["raised"]:
            diffs.append(f"`gwf status -f {fmt}` on an empty selection ends with {out['raised']}")
    return n, diffs, None


# --------------------------------------------------------------------------- Workflow.target / target_from_template on a symbolic workflow
def eval_workflow_api(ctx):
    """Workflow.target, target_from_template (with and without its own working_dir), duplicate names; Target construction is recorded, not run."""
    idx = ctx.index
    wcls = idx.cls("gwf.workflow:Workflow")
    made = []

    def construct(cls, args, kwargs):
        if cls.name == "Target":
            t = target_obj(ctx, **dict(kwargs))
            if args:
                t._positional = args
            made.append(t)
            return t
        return NotImplemented

    interp = PureInterp(ctx, hooks={"construct": construct})
    interp.max_depth = 10
    wf = Obj("workflow", name="wf", working_dir="/wfdir", defaults={"cores": 2, "memory": "1g", "queue": "normal"}, targets={}, **{"__class__": wcls})
    out = {}

    def call(meth, *a, **k):
        try:
            return interp.call(idx.method(wcls, meth), a, k, self_obj=wf)
        except Raised as exc:
            return f"raise {exc.kind}"
        except Unsupported as exc:
            return f"<unsupported: {exc}>"

    t1 = call("target", "T1", ["in"], ["out"], cores=8)
    out["target"] = t1
    tmpl = template_obj(ctx, inputs=["ti"], outputs=["to"], options={"memory": "4g", "cores": 4}, working_dir=None, spec="SPEC", protect=set(), group="g")
    out["from_template"] = call("target_from_template", "T2", tmpl, cores=16)
    tmpl_wd = template_obj(ctx, inputs=["ti"], outputs=["to2"], options={}, working_dir="/elsewhere", spec="SPEC", protect=set(), group="g")
    out["from_template_wd"] = call("target_from_template", "T3", tmpl_wd)
    out["duplicate"] = call("target", "T1", [], ["other"])
    out["duplicate_template"] = call("target_from_template", "T2", tmpl)
    out["registered"] = {k: v for k, v in wf.targets.items()}
    # protect entries are kept whatever their spelling (they are normalised later, together with the outputs)
    out["protect"] = call("target", "T4", [], ["bam/x.bam", "/abs/y"], protect=["./bam/x.bam", "/abs/../abs/y"])
    tmpl_p = template_obj(ctx, inputs=[], outputs=["bam/z.bam"], options={}, working_dir=None, spec="SPEC", protect={"./bam/z.bam"}, group="g")
    out["protect_template"] = call("target_from_template", "T5", tmpl_p)
    # every target gets its own options dictionary (targets are mutable; the backend defaults are merged into it at submission)
    out["own_options_defaults"] = call("target", "T6", [], ["o6"])
    shared = {"memory": "8g"}
    wf2 = Obj("workflow", name="wf2", working_dir="/wfdir", defaults={}, targets={}, **{"__class__": wcls})
    tmpl_o = template_obj(ctx, inputs=[], outputs=["o7"], options=shared, working_dir=None, spec="SPEC", protect=set(), group="g")
    try:
        out["own_options_template"] = interp.call(idx.method(wcls, "target_from_template"), ("T7", tmpl_o), {}, self_obj=wf2)
    except Raised as exc:
        out["own_options_template"] = f"raise {exc.kind}"
    except Unsupported as exc:
        out["own_options_template"] = f"<unsupported: {exc}>"
    out["_defaults"], out["_shared"] = wf.defaults, shared
    return out


def workflow_api_witness(ctx):
    out = eval_workflow_api(ctx)
    for v in out.values():
        if isinstance(v, str) and v.startswith("<unsupported"):
            return 0, [], v
    diffs = []

    def attrs(t):
        return t.__dict__["_attrs"] if isinstance(t, Obj) else {}
    t1, t2, t3 = out["target"], out["from_template"], out["from_template_wd"]
    a1 = attrs(t1)
    if not isinstance(t1, Obj) or a1.get("name") != "T1" or a1.get("working_dir") != "/wfdir":
        diffs.append(f"Workflow.target('T1', ...) in a workflow rooted at /wfdir gives {t1 if not isinstance(t1, Obj) else {k: a1.get(k) for k in ('name', 'working_dir')}}; the target must resolve its paths against the workflow's directory")
    elif dict(a1.get("options") or {}) != {"cores": 8, "memory": "1g", "queue": "normal"}:
        diffs.append(f"Workflow.target(cores=8) over workflow defaults cores=2, memory=1g, queue=normal resolves options to {dict(a1.get('options') or {})}; per-target arguments override workflow defaults")
    a2 = attrs(t2)
    if not isinstance(t2, Obj) or a2.get("working_dir") != "/wfdir":
        diffs.append(f"a target made from a template without its own working_dir gets working_dir={a2.get('working_dir')!r}, expected the workflow's /wfdir")
    elif dict(a2.get("options") or {}) != {"cores": 16, "memory": "4g", "queue": "normal"}:
        diffs.append(f"target_from_template(cores=16) with template options memory=4g, cores=4 over workflow defaults resolves to {dict(a2.get('options') or {})}; "
                     "precedence is workflow default < template < per-target argument")
    elif a2.get("inputs") != ["ti"] or a2.get("outputs") != ["to"] or a2.get("spec") != "SPEC":
        diffs.append("a target made from a template does not take the template's inputs, outputs and spec")
    a3 = attrs(t3)
    if not isinstance(t3, Obj) or a3.get("working_dir") != "/elsewhere":
        diffs.append(f"a template with its own working_dir=/elsewhere gives a target with working_dir={a3.get('working_dir')!r}")
    reg = out["registered"]
    if set(reg) != {"T1", "T2", "T3"} or reg.get("T1") is not t1 or reg.get("T2") is not t2:
        diffs.append(f"after defining T1, T2, T3 the workflow's targets are {sorted(reg)} (each name must map to the target that was returned)")
    for k, label in (("duplicate", "Workflow.target"), ("duplicate_template", "Workflow.target_from_template")):
        if out[k] != "raise WorkflowError":
            diffs.append(f"{label} with a name that already exists gives {out[k] if isinstance(out[k], str) else 'a second target'}; expected WorkflowError (target names must be unique)")
    for k, label, want in (("protect", "Workflow.target(outputs=['bam/x.bam', '/abs/y'], protect=['./bam/x.bam', '/abs/../abs/y'])", {"./bam/x.bam", "/abs/../abs/y"}),
                           ("protect_template", "a template with outputs=['bam/z.bam'], protect={'./bam/z.bam'}", {"./bam/z.bam"})):
        t = out[k]
        got = attrs(t).get("protect") if isinstance(t, Obj) else t
        try:
            got_set = set(got)
        except TypeError:
            got_set = got
        if got_set != want:
            diffs.append(f"{label} gives a target protecting {got_set if isinstance(got_set, set) else got}: protect entries spelled differently from the output they name "
                         "are dropped before paths are normalised, so `gwf clean` deletes a protected file")
    for k, src, label in (("own_options_defaults", "_defaults", "the workflow's defaults"), ("own_options_template", "_shared", "the template's options")):
        t = out[k]
        if isinstance(t, Obj) and attrs(t).get("options") is out[src]:
            diffs.append(f"a target whose options come from one source only shares the dictionary object of {label}: options set on one target (or merged in at its "
                         "submission) show up in every other target's resource directives")
    return 9, diffs, None


def eval_workflow_map(ctx, name=None, inputs=("a.txt", ("b", "c"), {"x": "d"})):
    """Workflow.map with a recording template function; returns (names of the targets created, template call arguments) or an error string."""
    idx = ctx.index
    wcls = idx.cls("gwf.workflow:Workflow")
    calls, made = [], []

    def copy_file(*a, **k):
        calls.append((a, dict(k)))
        return template_obj(ctx, inputs=list(a), outputs=[], options={}, working_dir=None, spec="S", protect=set(), group="g")

    def construct(cls, args, kwargs):
        if cls.name == "Target":
            t = target_obj(ctx, **dict(kwargs))
            made.append(t)
            return t
        if cls.name == "TargetList":
            return list(*args)
        return NotImplemented

    interp = PureInterp(ctx, hooks={"construct": construct})
    interp.max_depth = 10
    wf = Obj("workflow", name="wf", working_dir="/wfdir", defaults={}, targets={}, **{"__class__": wcls})
    try:
        res = interp.call(idx.method(wcls, "map"), (copy_file, list(inputs) if isinstance(inputs, (list, tuple)) else inputs), {"name": name, "extra": {"flag": 1}}, self_obj=wf)
    except Raised as exc:
        return f"raise {exc.kind}: {exc.detail[:60]}", calls
    except Unsupported as exc:
        return f"<unsupported: {exc}>", calls
    return [getattr(t, "name", None) for t in list(res)], calls, sorted(wf.targets)


def workflow_map_witness(ctx):
    diffs, n = [], 0
    for name, want in ((None, ["copy_file_0", "copy_file_1", "copy_file_2"]), ("Copy", ["Copy_0", "Copy_1", "Copy_2"]),
                       ((lambda i, t: f"n{i}x"), ["n0x", "n1x", "n2x"])):
        got = eval_workflow_map(ctx, name)
        if isinstance(got[0], str) and got[0].startswith("<unsupported"):
            return n, diffs, got[0]
        n += 1
        label = "no name" if name is None else f"name={name!r}" if isinstance(name, str) else "a naming function"
        if isinstance(got[0], str):
            diffs.append(f"Workflow.map over three items with {label} ends with {got[0]}")
            continue
        names, calls, registered = got
        if names != want or registered != sorted(want):
            diffs.append(f"Workflow.map over three items with {label} creates targets {names} (registered: {registered}); expected one target per item named {want} - "
                         "distinct, deterministic, index-bearing names")
        want_calls = [(("a.txt",), {"flag": 1}), (("b", "c"), {"flag": 1}), ((), {"x": "d", "flag": 1})]
        if calls != want_calls:
            diffs.append(f"Workflow.map calls the template with {calls}; expected scalar -> one argument, sequence -> positional arguments, mapping -> keyword arguments, plus `extra`")
    # a naming function that gives two items of ONE map call the same name: names must be unique, so this is an error (never a silent replacement)
    got = eval_workflow_map(ctx, (lambda i, t: "same" if i < 2 else "other"))
    if isinstance(got[0], str) and got[0].startswith("<unsupported"):
        return n, diffs, got[0]
    n += 1
    if not (isinstance(got[0], str) and got[0].startswith("raise WorkflowError")):
        diffs.append(f"Workflow.map with a naming function that names two of three items 'same' gives {got[0]} (registered: {got[2] if len(got) > 2 else '?'}); expected WorkflowError - "
                     "a later target silently replaces the earlier one, so there are fewer targets than items")
    return n, diffs, None


# --------------------------------------------------------------------------- `gwf workers`: what reaches the pool
def _click_convert(ctx, fn, opt_long, text):
    """What click hands to the command for `<opt_long> <text>` according to the option's declared type=; ('rejected', why) when click refuses it.
    Raises Unsupported for parameter types that are not modelled."""
    idx = ctx.index
    for d in ctx.index.expanded_decorators(fn):
        if not (isinstance(d, ast.Call) and idx.canon(d.func, fn.module) == "click.option"):
            continue
        names = [a.value for a in d.args if isinstance(a, ast.Constant) and isinstance(a.value, str)]
        if opt_long not in names:
            continue
        typ = next((k.value for k in d.keywords if k.arg == "type"), None)
        if typ is None:
            dflt = next((k.value for k in d.keywords if k.arg == "default"), None)
            if isinstance(dflt, ast.Constant) and isinstance(dflt.value, (int, float)) and not isinstance(dflt.value, bool):
                typ_name = type(dflt.value).__name__      # click infers the type from the default
            else:
                return text
        else:
            typ_name = idx.canon(typ.func if isinstance(typ, ast.Call) else typ, fn.module) if isinstance(typ.func if isinstance(typ, ast.Call) else typ, (ast.Name, ast.Attribute)) else None
            typ_name = (typ_name or "").replace("builtins.", "")
        lo = hi = None
        clamp = False
        if isinstance(typ, ast.Call):
            vals = {}
            for i, a in enumerate(typ.args[:2]):
                vals[("min", "max")[i]] = a
            for k in typ.keywords:
                vals[k.arg] = k.value
            ip = PureInterp(ctx, hooks={"multiprocessing.cpu_count": lambda: 3, "os.cpu_count": lambda: 3, "os.sched_getaffinity": lambda pid=0: {0, 1, 2}, "os.process_cpu_count": lambda: 3})
            try:
                lo = ip.eval(vals["min"], {}, fn.module) if "min" in vals else None
                hi = ip.eval(vals["max"], {}, fn.module) if "max" in vals else None
                clamp = bool(ip.eval(vals["clamp"], {}, fn.module)) if "clamp" in vals else False
            except (Raised, Unsupported, Exception):
                raise Unsupported("click range bounds cannot be evaluated")
        if typ_name in ("int", "click.INT", "click.IntRange", "click.types.IntRange"):
            try:
                v = int(text)
            except ValueError:
                return ("rejected", f"{text!r} is not a valid integer")
        elif typ_name in ("float", "click.FLOAT", "click.FloatRange", "click.types.FloatRange"):
            try:
                v = float(text)
            except ValueError:
                return ("rejected", f"{text!r} is not a valid float")
        elif typ_name in ("str", "click.STRING"):
            return text
        elif isinstance(idx.lookup(typ_name), ClassInfo) and idx.method(idx.lookup(typ_name), "convert") is not None:
            # a parameter type written in the package: click calls its convert(value, param, ctx); self.fail(...) raises BadParameter
            pcls = idx.lookup(typ_name)
            ip = PureInterp(ctx, hooks={"multiprocessing.cpu_count": lambda: 3, "os.cpu_count": lambda: 3, "os.sched_getaffinity": lambda pid=0: {0, 1, 2}, "os.process_cpu_count": lambda: 3,
                                        "attr:fail": lambda recv, message, *a, **k: (_ for _ in ()).throw(Raised("BadParameter", str(message)))})
            try:
                inst = ip.eval(typ, {}, fn.module) if isinstance(typ, ast.Call) else ip.apply(pcls, [], {}, 0)
                v = ip.call(idx.method(pcls, "convert"), (text, Obj("click_param", name="num_workers"), Obj("click_context")), {}, self_obj=inst)
            except Raised as exc:
                if exc.kind in ("BadParameter", "UsageError"):
                    return ("rejected", exc.detail)
                raise Unsupported(f"the parameter type's convert() raises {exc.kind}")
            return click_callback(ctx, fn, d, v)
        else:
            raise Unsupported(f"click parameter type {typ_name}")
        if (lo is not None and v < lo) or (hi is not None and v > hi):
            if isinstance(typ, ast.Call) and clamp:
                return click_callback(ctx, fn, d, min(max(v, lo if lo is not None else v), hi if hi is not None else v))    # clamp=True silently moves the value into the range
            return ("rejected", f"{v} is not in the range")
        return click_callback(ctx, fn, d, v)
    raise Unsupported(f"option {opt_long} not found")


def eval_workers_command(ctx, text):
    """`gwf workers -n <text>` with the pool start replaced by a recorder: the arguments the pool is started with, bound to start_cluster_async's parameters."""
    idx = ctx.index
    fn = idx.func("gwf.plugins.workers:workers")
    sca = idx.func("gwf.backends.local:start_cluster_async")
    v = _click_convert(ctx, fn, "--num-workers", text)
    if isinstance(v, tuple) and v and v[0] == "rejected":
        return {"rejected": v[1]}
    captured = []

    def rec(*a, **k):
        captured.append((a, dict(k)))

    hooks = {"gwf.backends.local.start_cluster": rec, "gwf.backends.local.start_cluster_async": rec, "multiprocessing.cpu_count": lambda: 3, "os.cpu_count": lambda: 3, "os.sched_getaffinity": lambda pid=0: {0, 1, 2}, "os.process_cpu_count": lambda: 3,
             "os.getcwd": lambda: tok("CWD"), "os.path.abspath": lambda p: p if str(p).startswith(("/", "⟦PROJ")) else tok("CWD") + "/" + str(p),
             "os.path.realpath": lambda p: p if str(p).startswith(("/", "⟦PROJ")) else tok("CWD") + "/" + str(p)}
    interp = PureInterp(ctx, hooks=hooks)
    dflt = click_defaults(ctx, fn)
    names = fn.positional_params()
    kwargs = {n: dflt.get(n) for n in names[1:]}
    for cand in ("num_workers", "max_cores", "n", "workers"):
        if cand in kwargs:
            kwargs[cand] = v
            break
    else:
        raise Unsupported("the parameter receiving --num-workers was not found")
    try:
        interp.call(fn, (ctx_obj(ctx, working_dir=PROJ, config={}, backend="local"),), kwargs)
    except Raised as exc:
        return {"raised": f"{exc.kind}: {exc.detail[:60]}"}
    if len(captured) != 1:
        return {"starts": len(captured)}
    a, k = captured[0]
    bound = dict(zip(sca.positional_params(), a))
    bound.update(k)
    return {"given": v, "bound": bound}


def workers_command_witness(ctx):
    diffs, n = [], 0
    for text in ("1", "2", "7", "2.5", "0.5", "1.0", "75%", "50%", "2x", "half"):     # whatever spellings the option's type accepts must give a whole number of cores
        try:
            out = eval_workers_command(ctx, text)
        except Unsupported as exc:
            return n, diffs, f"workers command: {exc}"
        n += 1
        what = f"`gwf workers -n {text}`"
        if "rejected" in out:
            continue        # click refuses the value: no pool is started
        if "raised" in out:
            if text in ("1", "2", "7"):
                diffs.append(f"{what} ends with {out['raised']}")
            continue
        if "starts" in out:
            diffs.append(f"{what} starts the pool {out['starts']} times")
            continue
        b = out["bound"]
        cores = b.get("max_cores", b.get("num_workers"))
        if isinstance(cores, bool) or not isinstance(cores, (int, float)):
            diffs.append(f"{what} starts the pool with core count {cores!r}")
        elif int(cores) != cores:
            diffs.append(f"{what} starts the pool with {cores!r} cores (3 CPUs): a non-integral count sizes asyncio.Semaphore, whose value then steps over zero "
                         f"({cores} -> {cores - 1} -> {cores - 2} ...) and never reads as locked: the number of running tasks is unbounded")
        elif text in ("1", "2", "7") and cores != int(text):
            diffs.append(f"{what} starts the pool with {cores!r} cores instead of {text}")
        wd = b.get("working_dir")
        if wd != PROJ:
            diffs.append(f"{what} started from another directory serves {str(wd).replace('⟦', '<').replace('⟧', '>')} instead of the project directory the workflow file lives in: the pool "
                         "writes task logs to (and fails on a missing) .gwf/logs under the wrong directory, so tasks that exited 0 end as failed and `gwf logs` finds nothing")
    return n, diffs, None


# --------------------------------------------------------------------------- `gwf info` as a whole command
def eval_info_command(ctx, targets=(), fmt="json", graph_error=None):
    """`gwf info [targets]` on the witness project: the JSON document printed (json format) or the printed lines (pretty)."""
    fn = ctx.index.func("gwf.plugins.info:info")
    T, graph, hooks = _witness_graph(ctx)
    docs, lines = [], []
    hooks.update({
        "json.dumps": lambda o, *a, **k: (docs.append(o), "JSON")[1],
        "builtins.print": lambda *a, **k: lines.append(" ".join(str(x) for x in a)),
        "click.echo": lambda *a, **k: lines.append(a[0] if a else ""), "click.secho": lambda *a, **k: lines.append(a[0] if a else ""),
        "click.format_filename": lambda v, *a, **k: v,
    })
    if graph_error:
        def h_fail(*a, **k):
            raise Raised(graph_error, "graph construction failed")
        hooks["gwf.core.Graph.from_targets"] = h_fail
    interp = PureInterp(ctx, hooks=hooks)
    interp.max_depth = 20
    try:
        call_command(ctx, interp, fn, (ctx_obj(ctx, working_dir="/p"), tuple(targets), fmt))
    except Raised as exc:
        return {"raised": exc.kind}, None
    except Unsupported as exc:
        return None, f"{exc}"
    return {"docs": docs, "lines": lines}, None


def info_command_witness(ctx):
    P = WITNESS_PROJECT
    names = list(P)
    deps = {n: sorted(P[n][0]) for n in names}
    dependents = {n: sorted(m for m in names if n in P[m][0]) for n in names}
    diffs, n = [], 0
    some = names[0]
    for label, targets, want in (("gwf info", (), set(names)), (f"gwf info {some}", (some,), {some}), ("gwf info 'nomatch*'", ("nomatch*",), set())):
        out, err = eval_info_command(ctx, targets)
        if err:
            return n, diffs, err
        n += 1
        if "raised" in out:
            if want:
                diffs.append(f"`{label}` ends with {out['raised']}")
            continue
        if len(out["docs"]) != 1 or not hasattr(out["docs"][0], "keys"):
            diffs.append(f"`{label}` prints {len(out['docs'])} JSON documents")
            continue
        doc = out["docs"][0]
        if set(doc) != want:
            diffs.append(f"`{label}` reports the targets {sorted(doc)}; the workflow's (selected) targets are {sorted(want)}: a target is missing from (or added to) the report, so the reported "
                         "dependents are no longer the inverse of the reported dependencies")
            continue
        for t in sorted(doc):
            rec = dict(doc[t])
            gd, gt = sorted(rec.get("dependencies", [])), sorted(rec.get("dependents", []))
            if gd != deps[t] or gt != dependents[t]:
                diffs.append(f"`{label}`: target {t} is reported with dependencies {gd} and dependents {gt}; the graph has {deps[t]} and {dependents[t]}")
    # a workflow whose graph cannot be built (missing source file, two producers, cycle): `gwf info` fails with that error - it never prints relations it did not compute
    for kind in ("UnresolvedInputError", "FileProvidedByMultipleTargetsError", "CircularDependencyError"):
        out, err = eval_info_command(ctx, (), graph_error=kind)
        if err:
            return n, diffs, err
        n += 1
        if out.get("raised") != kind:
            shown = sorted(out["docs"][0]) if out.get("docs") and hasattr(out["docs"][0], "keys") else out.get("raised")
            diffs.append(f"when the graph cannot be built ({kind}) `gwf info` does not end with that error but reports {shown}: relations (here: none at all) that are not "
                         "the ones the shared file paths induce, with exit status 0")
    return n, diffs, None


# --------------------------------------------------------------------------- workflow helpers given one-shot iterables
def one_shot_witness(ctx):
    """The workflow-file API accepts any iterable; a generator / zip / map object can be gone through only once.  Each helper is evaluated with a list and with a
    one-shot iterator over the same items: the results must be the same (nothing may peek at the items in a first pass and find them gone in the second)."""
    idx = ctx.index
    diffs, n = [], 0
    # (1) collect(records, fields)
    col = idx.maybe_func("gwf.workflow:collect") if hasattr(idx, "maybe_func") else None
    if col is not None:
        recs = [{"bam": "a.bam", "bai": "a.bai"}, {"bam": "b.bam", "bai": "b.bai"}]
        try:
            interp = PureInterp(ctx)
            want = interp.call(col, ([dict(r) for r in recs], ["bam", "bai"]))
            got = interp.call(col, (iter([dict(r) for r in recs]), ["bam", "bai"]))
            n += 1
            if got != want:
                diffs.append(f"collect(<generator of records>, ['bam', 'bai']) gives {got}, for a list of the same records {want}: the records are gone through once per field, so every "
                             "field after the first collects nothing - the target built from it silently loses inputs, and a missing or cyclic file among them is never validated")
        except Raised as exc:
            diffs.append(f"collect() over a generator of records raises {exc.kind}")
        except Unsupported as exc:
            return n, diffs, f"collect: {exc}"
    # (2) Workflow.map(template_func, <one-shot inputs>)
    for label, mk in (("a generator of items", lambda: iter(["a", "b", "c"])), ("a list", lambda: ["a", "b", "c"])):
        got = eval_workflow_map(ctx, None, inputs=mk())
        if isinstance(got[0], str) and got[0].startswith("<unsupported"):
            return n, diffs, got[0]
        n += 1
        if isinstance(got[0], str):
            diffs.append(f"Workflow.map over {label} ends with {got[0]}")
        elif len(got[0]) != 3:
            diffs.append(f"Workflow.map over {label} of three items creates {len(got[0])} target(s) {got[0]}: the items are consumed by a first pass over `inputs`, "
                         "so map() silently returns fewer targets than items (one target per item is required)")
    # (3) Workflow.target(..., protect=<one-shot iterable>)
    wcls = idx.cls("gwf.workflow:Workflow")
    made = []

    def construct(cls, args, kwargs):
        if cls.name == "Target":
            t = target_obj(ctx, **dict(kwargs))
            made.append(t)
            return t
        return NotImplemented
    interp = PureInterp(ctx, hooks={"construct": construct})
    interp.max_depth = 10
    wf = Obj("workflow", name="wf", working_dir="/wfdir", defaults={}, targets={}, **{"__class__": wcls})
    try:
        t = interp.call(idx.method(wcls, "target"), ("P", [], ["x.bam", "y.txt"]), {"protect": (p_ for p_ in ["x.bam"])}, self_obj=wf)
        n += 1
        pv = t.__dict__["_attrs"].get("protect") if isinstance(t, Obj) else None
        try:
            pset = set(pv) if pv is not None else None
        except TypeError:
            pset = pv
        if pset != {"x.bam"}:
            diffs.append(f"Workflow.target(outputs=['x.bam', 'y.txt'], protect=<generator yielding 'x.bam'>) gives a target protecting {pset}: the generator was consumed before the "
                         "target was built, so `gwf clean` deletes the protected file")
    except Raised as exc:
        diffs.append(f"Workflow.target with protect given as a generator raises {exc.kind}")
    except Unsupported as exc:
        return n, diffs, f"Workflow.target: {exc}"
    return n, diffs, None

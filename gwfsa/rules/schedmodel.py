"""A small executable model of the three cluster schedulers' command lines, and the witness that evaluates each <X>Ops against it.

The model answers the commands the way sbatch/squeue/sacct/scancel, qsub/qstat/qdel and bsub/bjobs/bkill document it (as remembered; no
network in the sandbox): which option names a dependency list and that a repeated option REPLACES the earlier one, which jobs a query
prints and in which format (a job the scheduler has purged prints nothing on stdout; sacct prints one record per job STEP unless
--allocations/-X is given), and what a refused submission looks like.  The Ops methods are evaluated by the checker's own interpreter with
backends.utils.call hooked to the model: nothing of gwf is executed by Python.

What is compared is what the property statements fix:
  * submit_target, several submissions on ONE Ops object (state may leak between calls): the job the scheduler created holds on exactly
    the ids it was given, whatever their number (0, 1, 3, 1025, 2050), and the id handed back is the id of that job;
  * a submission the scheduler refuses (a dependency it no longer knows; a wrapper that prints no job id) raises instead of producing a
    job with fewer prerequisites or an empty id;
  * get_job_states over a history (purged, running, failed, pending, completed, somebody else's job): each id gets the class the
    reference table allows for ITS OWN state, and the query neither submits nor cancels anything.
"""
import re

from ..consteval import EnumVal
from ..symeval import Obj, PureInterp, Raised, Unsupported, tok


def _mk_instance(*a, **k):
    from .evalhelpers import make_instance
    return make_instance(*a, **k)


PROJ = tok("PROJ")


class Cluster:
    """jobs: id -> dict(state=<code in the scheduler's own vocabulary>, deps=set, dep_kind=str, owner='me'|'other', steps=[(suffix, code)])"""

    UIDNAME = "uid-account"     # the account the uid of the gwf process maps to (what the schedulers record as the owner)
    ENVNAME = "env-account"     # what $LOGNAME/$USER say (differs under `su -m`, `sudo -E`, containers started with --user, cron wrappers)

    def __init__(self, kind):
        self.kind = kind
        self.jobs = {}
        self.purged = set()
        self.next_id = 5000
        self.log = []          # (exe, args)
        self.created = []      # ids created by submissions, in order
        self.cancelled = []
        self.mute_ids = False  # a site wrapper swallows the "job id" line (esub, banner)

    # ------------------------------------------------------------------ helpers
    def add(self, jid, state, owner="me", steps=(), acct=None):
        """acct: what the accounting database says when it lags behind the live queue (sacct only)"""
        self.jobs[str(jid)] = {"state": state, "deps": set(), "dep_kind": None, "owner": owner, "steps": list(steps), "acct": acct}

    def _new(self, deps, kind):
        self.next_id += 1
        jid = str(self.next_id)
        self.jobs[jid] = {"state": {"slurm": "PD", "sge": "qw", "lsf": "PEND"}[self.kind], "deps": set(deps), "dep_kind": kind, "owner": "me", "steps": []}
        self.created.append(jid)
        return jid

    @staticmethod
    def _opt(args, longs=(), shorts=(), joined_short=True):
        """Value of the LAST occurrence of an option given as --long=V, --long V, -s V or -sV; None when absent."""
        val = None
        i = 0
        while i < len(args):
            a = args[i]
            hit = False
            for lo in longs:
                if a.startswith(lo + "="):
                    val, hit = a[len(lo) + 1:], True
                elif a == lo and i + 1 < len(args):
                    val, hit = args[i + 1], True
                    i += 1
            if not hit:
                for sh in shorts:
                    if a == sh and i + 1 < len(args):
                        val = args[i + 1]
                        i += 1
                    elif joined_short and a.startswith(sh) and len(a) > len(sh) and not a.startswith("--"):
                        val = a[len(sh):].lstrip("=")
            i += 1
        return val

    def __call__(self, exe, *args, **kw):
        args = [str(a) for a in args]
        self.log.append((exe, args))
        fn = getattr(self, "cmd_" + exe, None)
        if fn is None:
            raise Unsupported(f"the scheduler model has no command {exe}")
        return fn(args, kw.get("input"))

    # ------------------------------------------------------------------ Slurm
    def cmd_sbatch(self, args, script):
        dep = self._opt(args, ("--dependency",), ("-d",))
        ids, kind = set(), None
        if dep:
            for part in re.split(r"[,?]", dep):
                bits = part.split(":")
                kind = bits[0]
                ids.update(b for b in bits[1:] if b)
        unknown = [i for i in ids if i in self.purged]
        if unknown:
            raise Raised("BackendError", "sbatch: error: Batch job submission failed: Job dependency problem")
        if self.mute_ids:
            return "Request handled by site wrapper.\n"
        jid = self._new(ids, kind)
        if "--parsable" in args:
            return jid + "\n"
        return f"Submitted batch job {jid}\n"

    # what squeue shows (jobs the controller still holds): compact code (%t) -> long name (%T)
    _SQ = {"PD": "PENDING", "R": "RUNNING", "CG": "COMPLETING", "CF": "CONFIGURING", "S": "SUSPENDED", "ST": "STOPPED", "RD": "RESV_DEL_HOLD", "RF": "REQUEUE_FED",
           "RH": "REQUEUE_HOLD", "RQ": "REQUEUED", "RS": "RESIZING", "SI": "SIGNALING", "SO": "STAGE_OUT", "SE": "SPECIAL_EXIT"}

    def cmd_squeue(self, args, _):
        fmt = self._opt(args, ("--format",), ("-o",)) or "%.18i %.9P %.8j %.8u %.2t %.10M %.6D %R"
        only = self._opt(args, ("--jobs",), ("-j",))
        only = set(only.split(",")) if only else None
        # --user NAME / -u NAME / --me: the scheduler knows the owner of a job by uid; our jobs belong to the account named UIDNAME
        users = self._opt(args, ("--user",), ("-u",))
        users = set(users.split(",")) if users else None
        if "--me" in args:
            users = {self.UIDNAME}
        mine_only = not ("--all" in args or "-a" in args) and False   # --all is about hidden partitions, not users: other users' jobs always show
        out = []
        if not ("--noheader" in args or "-h" in args):
            out.append(re.sub(r"%\.?\d*i", "JOBID", re.sub(r"%\.?\d*[tT]", "ST", fmt)))
        for jid, j in self.jobs.items():
            if j["state"] not in self._SQ or (only is not None and jid not in only) or (mine_only and j["owner"] != "me"):
                continue
            if users is not None and (self.UIDNAME if j["owner"] == "me" else "someone-else") not in users:
                continue
            line = re.sub(r"%\.?\d*i", jid, fmt)
            line = re.sub(r"%\.?\d*t", j["state"], line)
            line = re.sub(r"%\.?\d*T", self._SQ[j["state"]], line)
            out.append(line)
        return "".join(l + "\n" for l in out)

    # what the accounting database says for the same jobs: it only knows its own, smaller set of state names - a job in a queue-only state shows there as running,
    # pending, suspended, requeued or resizing
    _LONG = {"PD": "PENDING", "R": "RUNNING", "CG": "RUNNING", "CF": "RUNNING", "S": "SUSPENDED", "CD": "COMPLETED", "F": "FAILED", "CA": "CANCELLED by 1234",
             "TO": "TIMEOUT", "OOM": "OUT_OF_MEMORY", "NF": "NODE_FAIL", "ST": "SUSPENDED", "RD": "PENDING", "RF": "PENDING", "RH": "PENDING", "RQ": "REQUEUED", "RS": "RESIZING",
             "SI": "RUNNING", "SO": "RUNNING", "SE": "PENDING"}

    def cmd_sacct(self, args, _):
        fmt = self._opt(args, ("--format",), ("-o",)) or "jobid,jobname,partition,account,alloccpus,state,exitcode"
        cols = [c.strip().lower().split("%")[0] for c in fmt.split(",")]
        p2 = "--parsable2" in args or "-P" in args
        p1 = "--parsable" in args or "-p" in args
        delim = "|" if (p1 or p2) else " "
        req = self._opt(args, ("--jobs",), ("-j",))
        req = [r for r in req.split(",") if r] if req else [j for j, d in self.jobs.items() if d["owner"] == "me"]
        alloc_only = "--allocations" in args or "-X" in args
        out = []
        if not ("--noheader" in args or "-n" in args):
            out.append(delim.join(c.upper() for c in cols))
        for jid in req:
            j = self.jobs.get(jid)
            if j is None or jid in self.purged:
                continue
            st_acct = j.get("acct") or j["state"]
            rows = [(jid, self._LONG.get(st_acct, st_acct))]
            if not alloc_only:
                rows += [(f"{jid}.{suffix}", self._LONG.get(code, code)) for suffix, code in j["steps"]]
            for rid, st in rows:
                out.append(delim.join(rid if c == "jobid" else st if c == "state" else "x" for c in cols) + ("|" if p1 and not p2 else ""))
        return "".join(l + "\n" for l in out)

    def cmd_scancel(self, args, _):
        ids = [a for a in args if not a.startswith("-")]
        self.cancelled += ids
        return ""

    # ------------------------------------------------------------------ SGE
    def cmd_qsub(self, args, script):
        hold = self._opt(args, (), ("-hold_jid",), joined_short=False)
        ids = set(i for i in (hold or "").split(",") if i)
        if self.mute_ids:
            return "Request handled by site wrapper.\n"
        jid = self._new(ids, "hold_jid")
        if "-terse" in args:
            return jid + "\n"
        return f'Your job {jid} ("x") has been submitted\n'

    def cmd_qstat(self, args, _):
        if "-xml" not in args:
            raise Unsupported("qstat without -xml is not modelled")
        run, pend = [], []
        for jid, j in self.jobs.items():
            if j["state"] in ("finished",):
                continue
            item = f"<job_list state='x'><JB_job_number>{jid}</JB_job_number><JB_name>n</JB_name><state>{j['state']}</state></job_list>"
            (run if "r" in j["state"] or "t" in j["state"] else pend).append(item)
        if "-f" in args:
            # the full listing groups running jobs under the queue instance they run on: <queue_info><Queue-List><name>..</name> ... <job_list>..</job_list></Queue-List>;
            # queue instances without jobs are listed too
            run_xml = ("<Queue-List><name>all.q@node1</name><qtype>BIP</qtype><slots_used>0</slots_used><slots_total>8</slots_total></Queue-List>"
                       + "".join(f"<Queue-List><name>all.q@node{2 + k}</name><qtype>BIP</qtype><slots_used>1</slots_used><slots_total>8</slots_total>{item}</Queue-List>"
                                 for k, item in enumerate(run)))
        else:
            run_xml = "".join(run)
        return f"<?xml version='1.0'?><job_info><queue_info>{run_xml}</queue_info><job_info>{''.join(pend)}</job_info></job_info>"

    def cmd_qdel(self, args, _):
        self.cancelled += [a for a in args if not a.startswith("-")]
        return ""

    # ------------------------------------------------------------------ LSF
    def cmd_bsub(self, args, script):
        cond = self._opt(args, (), ("-w",), joined_short=False)
        ids, kind = set(), None
        if cond:
            for m in re.finditer(r"(\w+)\((\d+)\)", cond):
                kind = m.group(1)
                ids.add(m.group(2))
        if any(i in self.purged for i in ids):
            raise Raised("BackendError", "bsub failed: 101: Dependency condition invalid or job not found. Job not submitted.")
        if self.mute_ids:
            return "Request aborted by esub. Job not submitted.\n"
        jid = self._new(ids, kind)
        return f"Job <{jid}> is submitted to default queue <normal>.\n"

    def cmd_bjobs(self, args, _):
        fmt = self._opt(args, (), ("-o",), joined_short=False) or "jobid user stat queue"
        cols = fmt.replace("delimiter=", " delimiter=").split()
        delim = " "
        cols2 = []
        for c in cols:
            if c.startswith("delimiter="):
                delim = c[len("delimiter="):].strip("'\"")
            else:
                cols2.append(c.split(":")[0].lower())
        skip = {"-o", "-u", "-q", "-m", "-J"}
        ids, i = [], 0
        while i < len(args):
            if args[i] in skip:
                i += 2
                continue
            if not args[i].startswith("-"):
                ids.append(args[i])
            i += 1
        if not ids:
            ids = [j for j, d in self.jobs.items() if d["owner"] == "me" and ("-a" in args or d["state"] not in ("DONE", "EXIT"))]
        out = []
        if "-noheader" not in args:
            out.append(delim.join(c.upper() for c in cols2))
        for jid in ids:
            j = self.jobs.get(jid)
            if j is None or jid in self.purged:
                continue      # "Job <id> is not found" goes to stderr
            out.append(delim.join(jid if c in ("jobid", "id") else j["state"] if c == "stat" else "x" for c in cols2))
        return "".join(l + "\n" for l in out)

    def cmd_bkill(self, args, _):
        self.cancelled += [a for a in args if not a.startswith("-")]
        return ""


BACKENDS = (("slurm", "gwf.backends.slurm", "SlurmOps"), ("sge", "gwf.backends.sge", "SGEOps"), ("lsf", "gwf.backends.lsf", "LSFOps"))


def _ops(ctx, mod, cname, cluster, accounting=True):
    ci = ctx.index.cls(f"{mod}:{cname}")
    hooks = {"gwf.backends.utils.call": cluster, "attr:compile_script": lambda recv, t: "SCRIPT",
             # who am I: getpass.getuser() trusts the environment, the uid is what the scheduler goes by
             "getpass.getuser": lambda: Cluster.ENVNAME, "os.getlogin": lambda: Cluster.ENVNAME, "os.getuid": lambda: 1000, "os.geteuid": lambda: 1000,
             "pwd.getpwuid": lambda uid: Obj("pwent", pw_name=Cluster.UIDNAME, pw_uid=uid),
             "os.environ.get": lambda k_, d_=None: Cluster.ENVNAME if k_ in ("USER", "LOGNAME", "USERNAME") else d_,
             "os.getenv": lambda k_, d_=None: Cluster.ENVNAME if k_ in ("USER", "LOGNAME", "USERNAME") else d_,
             "builtins.open": lambda p, mode="r", *a, **k: Obj("file", path=str(p), mode=mode), "attr:write": lambda recv, *a: None}
    interp = PureInterp(ctx, hooks=hooks)
    interp.max_depth = 14
    obj = _mk_instance(ctx, ci, "ops", working_dir=PROJ, log_mode="full", accounting_enabled=accounting, target_defaults={})
    return ci, interp, obj


def _target(ctx, name):
    from .evalhelpers import target_obj
    return target_obj(ctx, name=name, options={}, spec="x", working_dir="/w")


def submit_sequence(ctx, kind, mod, cname):
    """Several submissions on one Ops object. Returns (n, diffs, unsupported)."""
    cl = Cluster(kind)
    for j in ("11", "12", "13"):
        cl.add(j, {"slurm": "R", "sge": "r", "lsf": "RUN"}[kind])
    ci, interp, obj = _ops(ctx, mod, cname, cl)
    m = ctx.index.method(ci, "submit_target")
    if m is None:
        return 0, [], f"{cname} has no submit_target"
    diffs, n = [], 0
    many = [str(100000 + i) for i in range(1025)]
    for j in many + [str(200000 + i) for i in range(1025)]:
        cl.add(j, {"slurm": "PD", "sge": "qw", "lsf": "PEND"}[kind])
    plans = [("A", []), ("B", ["11"]), ("C", []), ("D", ["11", "12", "13"]), ("E", many), ("F", []), ("G", many + [str(200000 + i) for i in range(1025)]), ("H", ["12"])]
    want_kind = {"slurm": "afterok", "sge": "hold_jid", "lsf": "done"}[kind]
    for name, deps in plans:
        before = len(cl.created)
        try:
            got = interp.call(m, (_target(ctx, name), list(deps)), {}, self_obj=obj)
        except Raised as exc:
            diffs.append(f"{cname}.submit_target({name}, {len(deps)} prerequisites) raises {exc.kind}: {exc.detail[:80]}")
            n += 1
            continue
        except Unsupported as exc:
            return n, diffs, f"{cname}.submit_target: {exc}"
        n += 1
        new = cl.created[before:]
        if len(new) != 1:
            diffs.append(f"{cname}.submit_target({name}) created {len(new)} jobs at the scheduler, expected exactly one")
            continue
        job = cl.jobs[new[0]]
        if job["deps"] != set(deps):
            missing, extra = sorted(set(deps) - job["deps"]), sorted(job["deps"] - set(deps))
            what = []
            if missing:
                what.append(f"{len(missing)} of its {len(deps)} prerequisites are not held on (e.g. {missing[0]})")
            if extra:
                what.append(f"it holds on {len(extra)} job(s) that are not its prerequisites (e.g. {extra[0]}, left over from an earlier submission)")
            diffs.append(f"{cname}.submit_target({name}): the job the scheduler created differs from what was asked: " + "; ".join(what)
                         + " (a repeated option replaces the earlier one; state shared between submissions leaks)")
        elif deps and job["dep_kind"] != want_kind:
            diffs.append(f"{cname}.submit_target({name}): the prerequisites are given as {job['dep_kind']!r}, the property needs {want_kind!r}")
        if str(got) != new[0]:
            diffs.append(f"{cname}.submit_target({name}) hands back {got!r} but the scheduler accepted the job as {new[0]!r}")
    return n, diffs, None


def submit_refusals(ctx, kind, mod, cname):
    diffs, n = [], 0
    # (1) a prerequisite the scheduler no longer knows makes it refuse the submission; the other prerequisite is still running
    cl = Cluster(kind)
    cl.add("12", {"slurm": "R", "sge": "r", "lsf": "RUN"}[kind])
    cl.purged.add("11")
    ci, interp, obj = _ops(ctx, mod, cname, cl)
    m = ctx.index.method(ci, "submit_target")
    if kind != "sge":      # qsub accepts unknown ids in -hold_jid (they count as finished)
        try:
            got = interp.call(m, (_target(ctx, "T"), ["11", "12"]), {}, self_obj=obj)
            n += 1
            for jid in cl.created:
                if cl.jobs[jid]["deps"] != {"11", "12"}:
                    diffs.append(f"{cname}.submit_target: after the scheduler refused the prerequisites it submits the job again holding on {sorted(cl.jobs[jid]['deps'])}: "
                                 "the job can start while prerequisite 12 is still running")
        except Raised:
            n += 1
        except Unsupported as exc:
            return n, diffs, f"{cname}.submit_target: {exc}"
    # (2) exit status 0 but no job id in the output: nothing was accepted
    cl = Cluster(kind)
    cl.mute_ids = True
    ci, interp, obj = _ops(ctx, mod, cname, cl)
    try:
        got = interp.call(m, (_target(ctx, "T"), []), {}, self_obj=obj)
        n += 1
        if got is None or got == "" or got is False:
            diffs.append(f"{cname}.submit_target returns {got!r} when the scheduler's answer carries no job id: the submission counts as accepted "
                         "(tracked, spec hash recorded) although no job exists")
    except Raised:
        n += 1
    except Unsupported as exc:
        return n, diffs, f"{cname}.submit_target: {exc}"
    return n, diffs, None


def _history(kind):
    """(cluster, tracked ids in file order, {id: (code, reference table)})"""
    from ..reference import states as REF
    cl = Cluster(kind)
    if kind == "slurm":
        rows = [("21", None), ("22", "R"), ("23", "F"), ("24", "PD"), ("25", "CD"), ("26", "CA"), ("27", "TO")]
        # ... and one job in every further state the live queue can show (all of them alive): whichever way the backend asks for states (%t codes, %T names),
        # each must come out as submitted or running
        rows += [(str(31 + i), c_) for i, c_ in enumerate(("CF", "CG", "S", "ST", "RD", "RF", "RH", "RQ", "RS", "SI", "SO"))]
        for jid, code in rows:
            if code is None:
                cl.purged.add(jid)
            else:
                # the accounting database lags: it still lists the running job as pending (the live queue is what counts)
                cl.add(jid, code, steps=[("batch", code), ("0", "F")] if code == "CD" else [("batch", code)], acct="PD" if code == "R" else None)
        cl.add("777", "R", owner="other")
        table = REF.SLURM_SHORT
    elif kind == "lsf":
        rows = [("21", None), ("22", "RUN"), ("23", "EXIT"), ("24", "PEND"), ("25", "DONE"), ("26", "PSUSP")]
        for jid, code in rows:
            if code is None:
                cl.purged.add(jid)
            else:
                cl.add(jid, code)
        cl.add("777", "RUN", owner="other")
        table = REF.LSF
    else:
        rows = [("21", None), ("22", "r"), ("23", "Eqw"), ("24", "qw"), ("25", None), ("26", "hqw")]
        for jid, code in rows:
            if code is None:
                cl.purged.add(jid)
            else:
                cl.add(jid, code)
        cl.add("777", "r", owner="other")
        table = REF.SGE
    return cl, rows, table


def state_history(ctx, kind, mod, cname):
    diffs, n = [], 0
    for accounting in ((True, False) if kind == "slurm" else (True,)):
        for rev in (False, True):
            cl, rows, table = _history(kind)
            ids = [j for j, _c in rows]
            if rev:
                ids.reverse()
            ci, interp, obj = _ops(ctx, mod, cname, cl, accounting=accounting)
            m = ctx.index.method(ci, "get_job_states")
            if m is None:
                return n, diffs, f"{cname} has no get_job_states"
            try:
                res = interp.call(m, (list(ids),), {}, self_obj=obj)
            except Raised as exc:
                n += 1
                diffs.append(f"{cname}.get_job_states over a history with a purged job raises {exc.kind}: {exc.detail[:80]}")
                continue
            except Unsupported as exc:
                return n, diffs, f"{cname}.get_job_states: {exc}"
            n += 1
            if not hasattr(res, "get"):
                diffs.append(f"{cname}.get_job_states returns {type(res).__name__}")
                continue
            for jid, code in rows:
                v = res.get(jid, "<absent>")
                shown = v.member if isinstance(v, EnumVal) else v
                shown = "UNKNOWN" if shown == "<absent>" else shown
                if code is None:
                    allowed, why = {"UNKNOWN"}, "the scheduler has no record of it"
                elif kind == "slurm" and not accounting and code in ("F", "CD", "CA", "TO"):
                    allowed, why = {"UNKNOWN"}, "finished, and accounting is disabled"
                else:
                    allowed, why = table.get(code, ({"UNKNOWN"}, "?"))
                if shown not in allowed:
                    diffs.append(f"{cname}.get_job_states (tracked ids {'reversed' if rev else 'in order'}{'' if accounting else ', accounting off'}): job {jid} is {code or 'purged'} "
                                 f"at the scheduler ({why}) but is reported {shown}; allowed {sorted(allowed)} - each id must get the state of its own job")
            if kind == "slurm" and not accounting and any(e == "sacct" for e, _a in cl.log):
                diffs.append("SlurmOps.get_job_states consults sacct although accounting is disabled")
            if cl.created or cl.cancelled:
                diffs.append(f"{cname}.get_job_states changes the queue: submitted {cl.created} cancelled {cl.cancelled} - a state query (gwf status, run --dry-run) must not submit or cancel")
    return n, diffs, None


def cluster_witness(ctx, parts=("submit", "refuse", "states")):
    n, diffs = 0, []
    for kind, mod, cname in BACKENDS:
        for part, fn in (("submit", submit_sequence), ("refuse", submit_refusals), ("states", state_history)):
            if part not in parts:
                continue
            k, d, unsup = fn(ctx, kind, mod, cname)
            n += k
            diffs += [f"[{part}] {x}" for x in d]
            if unsup is not None:
                return n, diffs, unsup
    return n, diffs, None

"""C05 - status, dry-run and run agree, and the two previews change nothing (effect closure + one shared decision)."""
import ast
import re

from ..consteval import enum_members
from ..index import FuncInfo, dotted, walk_no_nested, loc
from .c02 import rule_cone_selection
from .persist import rule_hash_after_accept
from .schedtable import _calls, rule_decision_table, rule_submit_discipline

FORBIDDEN = {
    "SCHED_SUBMIT": "submits a job", "SCHED_CANCEL": "cancels a job", "SCHED_UNKNOWN": "runs an unclassified scheduler command",
    "LOCAL_SUBMIT": "enqueues a task at the worker pool", "LOCAL_CANCEL": "cancels a task at the worker pool",
    "LOCAL_SHUTDOWN": "shuts the worker pool down", "LOCAL_UNKNOWN": "sends an unclassified request to the worker pool",
    "FS_DELETE": "deletes a file", "STATE_MUT": "changes recorded job ids / spec hashes",
}
STATE_WRITERS = {"gwf.backends.base:TrackingBackend.close", "gwf.core:FileSpecHashes.close"}


def preview_closure(ctx, r, root, bindings, label):
    res = ctx.resolver
    visited, effects, unresolved = res.reach(root, bindings)
    con = f"{root.module.relpath}::{root.qual}[{label}]"
    seen = set()
    n_bad = 0
    for e in effects:
        key = (e.kind, e.detail, e.where)
        if key in seen:
            continue
        seen.add(key)
        msg = None
        if e.kind in FORBIDDEN:
            msg = f"`gwf {label}` can reach code that {FORBIDDEN[e.kind]} ({e.detail} at {e.where})"
        elif e.kind == "FS_WRITE" and e.finfo.key not in STATE_WRITERS and not any(c in STATE_WRITERS for c in e.chain):
            msg = f"`gwf {label}` can reach a file write outside the two state-file saves ({e.detail} at {e.where})"
        elif e.kind == "PROC" and e.finfo.key != "gwf.backends.utils:call" and e.finfo.key not in ctx.index.runner_functions():
            msg = f"`gwf {label}` can start a process outside backends.utils.call ({e.detail} at {e.where})"
        if msg:
            n_bad += 1
            r.violation(f"{con}::{e.kind}:{e.finfo.module.relpath}:{e.finfo.qual}", msg + "; call chain: " + " -> ".join(c.split(":")[1] for c in e.chain[-5:]), e.where,
                        [" -> ".join(e.chain)])
    for u in unresolved:
        r.violation(f"{con}::unresolved", f"a call through an unknown callable cannot be bounded: {u}", u.split(" ")[0])
        n_bad += 1
    if not n_bad:
        kinds = sorted({e.kind for e in effects})
        r.ok(con, f"{len(visited)} (function, context) pairs reached; effects {kinds}: queries, reads and the two state-file saves only", root.where)
    return visited, effects


def _run_structural(ctx):
    idx = ctx.index
    res = ctx.resolver
    roots = res.command_roots()

    r1 = ctx.rule("R1", "effect closure of `gwf status`: no submit/cancel/delete/state mutation reachable; only the no-op submit function")
    preview_closure(ctx, r1, roots["status"], {}, "status")
    gsm = idx.func("gwf.scheduling:get_status_map")
    # both previews construct the backend, whose initialiser asks the scheduler for the job states: that query must be a query
    for mod, cname in (("gwf.backends.slurm", "SlurmOps"), ("gwf.backends.sge", "SGEOps"), ("gwf.backends.lsf", "LSFOps"), ("gwf.backends.local", "LocalOps")):
        ci = idx.cls(f"{mod}:{cname}")
        m = idx.method(ci, "get_job_states") if ci is not None else None
        if m is None:
            continue
        _v, effs, _u = res.reach(m)
        bad = sorted({f"{e.kind} at {e.where}" for e in effs if e.kind in ("SCHED_SUBMIT", "SCHED_CANCEL", "FS_DELETE", "LOCAL_SUBMIT", "LOCAL_CANCEL", "LOCAL_SHUTDOWN")})
        r1.check(not bad, f"{m.module.relpath}::{m.qual}::query-only", "the state query the backend constructor runs only queries",
                 f"{cname}.get_job_states, which runs whenever a backend is constructed (gwf status, gwf run --dry-run), reaches {bad}: a preview changes the queue", m.where)
    from .evalhelpers import cached_witness, report_witness
    from .schedmodel import cluster_witness
    report_witness(r1, "src/gwf/backends::<X>Ops.get_job_states::scheduler-model", "src/gwf/backends/slurm.py:1", cached_witness(ctx, "cluster", cluster_witness),
                   "state queries over a job history (errored, purged, finished jobs included) neither submit nor cancel", select=lambda d: "changes the queue" in d)

    def submit_funcs(root, bindings):
        """Functions bound to schedule()'s submit_func on any path from root (from the reachability contexts)."""
        visited, _e, _u = res.reach(root, bindings)
        out = set()
        for (key, b) in visited:
            if key == "gwf.scheduling:schedule":
                for name, val in b:
                    if name == "submit_func" and isinstance(val, tuple):
                        out.update(k for k, _extra in val)
        return sorted(out)

    subs = submit_funcs(gsm, {})
    r1.check(subs == ["gwf.scheduling:_submit_noop"], f"{gsm.module.relpath}::{gsm.qual}::submit_func", "status schedules with _submit_noop only",
             f"the status map is computed with submit function(s) {subs}: it must be the no-op", gsm.where)
    for key in subs:
        f = idx.func(key)
        _v, effs, _u = res.reach(f)
        effs = [e for e in effs if e.kind not in ("FS_READ",)]
        r1.check(not effs, f"{f.module.relpath}::{f.qual}", "effect-free", f"{f.name} has effects {sorted({e.kind for e in effs})}: `gwf status` is no longer side-effect free",
                 f.where)

    r2 = ctx.rule("R2", "effect closure of `gwf run --dry-run`: every effect of run is guarded by `not dry_run`")
    preview_closure(ctx, r2, roots["run"], {"dry_run": True}, "run --dry-run")
    _v, effs, _u = res.reach(roots["run"], {"dry_run": False})
    kinds = {e.kind for e in effs}
    r2.check({"SCHED_SUBMIT", "LOCAL_SUBMIT", "STATE_MUT"} <= kinds, f"{roots['run'].module.relpath}::run[real]", "the real run does reach submission (analysis is not vacuous)",
             f"with dry_run=False the run reaches only {sorted(kinds)}: the closure analysis lost the submission path", roots["run"].where)
    # the previews' group callback prefix
    main = idx.func("gwf.cli:main")
    _v, meffs, _u = res.reach(main)
    okw = True
    for e in meffs:
        if e.kind in FORBIDDEN and e.kind not in ("STATE_MUT",):
            r2.violation(f"{main.module.relpath}::main::{e.kind}", f"the group callback run before every command {FORBIDDEN[e.kind]} ({e.detail} at {e.where})", e.where)
            okw = False
        if e.kind == "FS_WRITE" and e.finfo.key not in ("gwf.cli:main", "gwf.cli:init", "gwf.conf:FileConfig.dump") and not res.owned_by(
                e.finfo, ["gwf.cli:main", "gwf.cli:init", "gwf.conf:FileConfig.dump"]):
            r2.violation(f"{main.module.relpath}::main::write", f"the group callback writes a file at {e.where}", e.where)
            okw = False
    if okw:
        r2.ok(f"{main.module.relpath}::main", "creates only .gwf/, .gwf/logs/ and (after a confirmed prompt, when no workflow exists) the project skeleton", main.where)
    # mkdir targets in main are the state directories
    def structural(_ctx, rr):
        for c in _calls(main.node):
            if isinstance(c.func, ast.Attribute) and c.func.attr == "mkdir":
                t = ast.unparse(c.func.value)
                rr.check(".gwf" in t and "working_dir" in t, f"{main.module.relpath}::main::mkdir:{t[:40]}", "state directory under the project",
                         f"the group callback creates `{t}`, which is not the project's state directory", loc(c, main.module))
    from .evalhelpers import cli_main_location_witness
    ctx.structural_or_witness(r2, structural, lambda: cli_main_location_witness(ctx), f"{main.module.relpath}::main::mkdir", both=True)

    from .evalhelpers import cached_witness, report_witness, run_command_witness
    report_witness(r2, "src/gwf/plugins/run.py::run::witness-project", "src/gwf/plugins/run.py:1", cached_witness(ctx, "run", run_command_witness),
                   "a dry run submits nothing, records no hash, removes no log", select=lambda d: "dry" in d or "ends with" in d)
    r3 = ctx.rule("R3", "status, dry-run and run share one decision procedure; what is shown shouldrun/failed/cancelled is what is submitted", min_instances=5)
    from ..inline import inlined
    sw = idx.func("gwf.scheduling:submit_workflow")
    for f in (inlined(ctx, gsm), inlined(ctx, sw)):
        ok = False
        detail = ""
        for c in _calls(f.node):
            if isinstance(c.func, ast.Name) and c.func.id == "schedule":
                kws = {k.arg: ast.unparse(k.value) for k in c.keywords}
                args = [ast.unparse(a) for a in c.args]
                p = f.positional_params()
                st = kws.get("status_func") or (args[4] if len(args) > 4 else None)
                backend_p = "backend"
                ok = st == f"{backend_p}.status" and "graph" in args + list(kws.values()) and "fs" in args + list(kws.values()) \
                    and "spec_hashes" in args + list(kws.values())
                detail = f"schedule(..., status_func={st})"
        r3.check(ok, f"{f.module.relpath}::{f.qual}::schedule", detail or "calls schedule",
                 f"{f.name} does not call the shared schedule() with the caller's graph, filesystem snapshot, spec hashes and status_func=backend.status", f.where)
    # dry-run selects an effect-free announcer, the real run a function that reaches the backend's submit
    sel = {}
    for flag in (True, False):
        visited, _e, _u = res.reach(sw, {"dry_run": flag})
        vals = []
        for (key, b) in visited:
            if key == "gwf.scheduling:schedule":
                for name, val in b:
                    if name == "submit_func" and isinstance(val, tuple):
                        vals.extend((idx.functions[k], extra) for k, extra in val)
        sel[flag] = vals
    dry_effs, real_effs = [], []
    for f, extra in sel.get(True, []):
        dry_effs += [e for e in res.reach(f, dict(extra))[1] if e.kind != "FS_READ"]
    for f, extra in sel.get(False, []):
        real_effs += [e for e in res.reach(f, dict(extra))[1]]
    names = {k: [f.name for f, _e in v] for k, v in sel.items()}
    r3.check(sel.get(True) and not dry_effs, f"{sw.module.relpath}::{sw.qual}::dry-run-submit", f"dry run uses {names.get(True)}: effect-free",
             f"the submit function of a dry run ({names.get(True)}) has effects {sorted({e.kind + ':' + e.detail for e in dry_effs})}", sw.where)
    r3.check(sel.get(False) and any(e.kind in ("SCHED_SUBMIT", "LOCAL_SUBMIT") for e in real_effs), f"{sw.module.relpath}::{sw.qual}::real-submit",
             f"real run uses {names.get(False)}: reaches the backend's submit", f"the submit function of a real run ({names.get(False)}) never reaches a scheduler submit", sw.where)
    rule_decision_table(ctx, r3)
    rule_submit_discipline(ctx, r3)
    # "submitted/running/completed targets are shown as such": the id status looks up next time is the one this run recorded (what close() saves is the in-memory table)
    from .c07 import rule_tracked_dump
    from .persist import rule_close_writes
    rule_tracked_dump(ctx, r3)
    rule_close_writes(ctx, r3, ("tracked jobs",))
    from .persist import rule_table_ownership
    rule_table_ownership(ctx, r3)
    from .shared import rule_log_filters
    rule_log_filters(ctx, r3, "`gwf run --dry-run` names only the first target it would submit while status lists, and a real run submits, all of them")
    from .shared import import_rules as _imp
    _imp(ctx, r3, "C08", only={"R2"})      # the ids written at submission are the ids the next status reads and the backend is asked about (type and all)
    from .evalhelpers import cached_witness, report_witness
    from .schedmodel import cluster_witness
    report_witness(r3, "src/gwf/backends::<X>Ops.get_job_states::scheduler-model", "src/gwf/backends/slurm.py:1", cached_witness(ctx, "cluster", cluster_witness),
                   "a pending or running job is reported as such whatever the environment says the user is called, with accounting on and off",
                   select=lambda d: d.startswith("[states]") and "changes the queue" not in d)
    rule_cone_selection(ctx, r3)
    rule_hash_after_accept(ctx, r3)

    r4 = ctx.rule("R4", "filters and formats show restrictions of the one computed table; printers are total (also on an empty selection)", min_instances=6)
    st = inlined(ctx, roots["status"])
    scon = f"{st.module.relpath}::{st.qual}"
    # order: map first, then filters
    map_line = None
    table_var = None
    for n in walk_no_nested(st.node):
        if isinstance(n, ast.Assign) and isinstance(n.value, ast.Call) and idx.canon(n.value.func, st.module) == "gwf.scheduling.get_status_map":
            map_line, table_var = n.lineno, n.targets[0].id
            args = [ast.unparse(a) for a in n.value.args] + [k.arg for k in n.value.keywords]
            r4.check("endpoints" not in [k.arg for k in n.value.keywords] and len(n.value.args) <= 4, scon + "::whole-map",
                     "the status map is computed for the whole workflow (all endpoints) before any filter",
                     "the status map is computed for a pre-filtered selection: the shown statuses would depend on the filters", loc(n, st.module))
    r4.check(map_line is not None, scon + "::map", "get_status_map called", "status does not compute the status map through get_status_map", st.where)
    filt = {}
    for n in walk_no_nested(st.node):
        if isinstance(n, ast.If):
            for c in _calls(n):
                if isinstance(c.func, ast.Attribute) and c.func.attr == "append" and c.args and isinstance(c.args[0], ast.Call):
                    cls = dotted(c.args[0].func)
                    filt[cls] = (ast.unparse(n.test), c.args[0], n)
    want = {"StatusFilter": "status", "NameFilter": "targets", "EndpointFilter": "endpoints"}
    for cls, flag in want.items():
        got = filt.get(cls)
        ok = got is not None and got[0] == flag and (map_line is None or got[2].lineno > map_line)
        r4.check(ok, scon + f"::{cls}", f"{cls} added iff `{flag}` is given, after the map is complete",
                 f"{cls} is not added exactly when `{flag}` is given (found: {got[0] if got else 'no such filter'})", st.where)
    if "StatusFilter" in filt:
        kws = {k.arg: ast.unparse(k.value) for k in filt["StatusFilter"][1].keywords}
        r4.check(kws.get("status_provider") == f"{table_var}.get", scon + "::StatusFilter.provider", "status filter reads the computed table",
                 f"the status filter reads `{kws.get('status_provider')}`, not the computed table", st.where)
    if "EndpointFilter" in filt:
        kws = {k.arg: ast.unparse(k.value) for k in filt["EndpointFilter"][1].keywords}
        r4.check(kws.get("endpoints") == "graph.endpoints()" and kws.get("mode", "'include'") == "'include'", scon + "::EndpointFilter.args",
                 "--endpoints keeps exactly the graph's endpoints", f"--endpoints builds EndpointFilter({kws})", st.where)
    # restriction: values untouched
    restr = False
    for n in walk_no_nested(st.node):
        if isinstance(n, ast.Assign) and isinstance(n.value, ast.DictComp):
            d = n.value
            g = d.generators[0]
            if ast.unparse(g.iter) == f"{table_var}.items()" and isinstance(g.target, ast.Tuple) and len(g.target.elts) == 2:
                k, v = [dotted(e) for e in g.target.elts]
                if dotted(d.key) == k and dotted(d.value) == v and len(g.ifs) == 1 and ast.unparse(g.ifs[0]) == f"{k} in matches":
                    restr = True
    for n in walk_no_nested(st.node):
        # loop form: new = {}; for k, v in table.items(): if k in matches: new[k] = v
        if isinstance(n, ast.For) and ast.unparse(n.iter) == f"{table_var}.items()" and isinstance(n.target, ast.Tuple) and len(n.target.elts) == 2:
            k, v = [dotted(e) for e in n.target.elts]
            body = [b for b in n.body if not (isinstance(b, ast.Expr) and isinstance(b.value, ast.Constant))]
            if len(body) == 1 and isinstance(body[0], ast.If) and ast.unparse(body[0].test) == f"{k} in matches" and not body[0].orelse and len(body[0].body) == 1:
                st2 = body[0].body[0]
                if isinstance(st2, ast.Assign) and isinstance(st2.targets[0], ast.Subscript) and dotted(st2.targets[0].slice) == k and dotted(st2.value) == v:
                    restr = True
    r4.check(restr, scon + "::restriction", "shown table = {k: v for k, v in table.items() if k in matches} (statuses untouched)",
             "the shown table is not the plain restriction of the computed table to the matching targets", st.where)
    # filters semantics
    from .shared import rule_name_selection, rule_flag_default
    rule_flag_default(ctx, r4, "gwf.plugins.status:status", "--endpoints", "targets that are not endpoints would be hidden although --endpoints was not given")
    rule_flag_default(ctx, r2, "gwf.plugins.run:run", "--dry-run", "`gwf run` would only ever preview")
    from .shared import rule_targets_argument, rule_calls_bind, rule_option_declaration
    rule_option_declaration(ctx, r4, "gwf.plugins.status:status", "--status", {"multiple": (True, False)},
                            "`-s A -s B` must show the union of both states; without multiple=True only the last -s counts and the body iterates the characters of one name")
    rule_calls_bind(ctx, r4, ("gwf.plugins.status", "gwf.plugins.run", "gwf.scheduling", "gwf.filtering"))
    rule_targets_argument(ctx, r4, "gwf.plugins.status:status", "`gwf status [NAMES]`")
    rule_targets_argument(ctx, r2, "gwf.plugins.run:run", "`gwf run [NAMES]`")
    rule_name_selection(ctx, r4, "the rows of `gwf status PATTERN...` (the name filter may receive the one-shot result of a previous filter)")
    sf = idx.func("gwf.filtering:StatusFilter.predicate")
    r4.check(any(ast.unparse(n.value).replace(" ", "") == "self.status_provider(target)inself.status" for n in walk_no_nested(sf.node) if isinstance(n, ast.Return)),
             f"{sf.module.relpath}::{sf.qual}", "status filter keeps targets whose status is one of the requested", "StatusFilter.predicate changed polarity or source", sf.where)
    ef = idx.func("gwf.filtering:EndpointFilter.predicate")
    pol = {}
    for n in walk_no_nested(ef.node):
        if isinstance(n, ast.If) and isinstance(n.test, ast.Compare) and isinstance(n.test.comparators[0], ast.Constant):
            mode = n.test.comparators[0].value
            for s_ in n.body:
                if isinstance(s_, ast.Return):
                    pol[mode] = ast.unparse(s_.value)
    r4.check(pol.get("include") == "target in self.endpoints" and pol.get("exclude") == "target not in self.endpoints", f"{ef.module.relpath}::{ef.qual}",
             "include keeps endpoints, exclude drops them", f"EndpointFilter polarity is {pol}", ef.where)
    cf = idx.func("gwf.filtering:CompositeFilter.apply")
    from ..symeval import Obj, PureInterp, Raised, Unsupported
    try:
        f1, f2 = Obj("f1"), Obj("f2")
        got = PureInterp(ctx, hooks={"attr:apply": lambda recv, ts: list(ts) + [recv._name]}).call(
            cf, (["T"],), {}, self_obj=Obj("composite", filters=[f1, f2], **{"__class__": idx.cls("gwf.filtering:CompositeFilter")}))
    except (Raised, Unsupported) as exc:
        got = f"<{exc}>"
    r4.check(got == ["T", "f1", "f2"], f"{cf.module.relpath}::{cf.qual}", "filters are applied one after the other, each to the result of the previous (intersection)",
             f"CompositeFilter.apply over filters [f1, f2] yields {got}: every filter must be applied in sequence to the previous result", cf.where)
    # printers total
    fm = idx.module_const("gwf.plugins.status", "FORMATS")
    printers = []
    if isinstance(fm, ast.Dict):
        for v in fm.values:
            printers.extend(x[0] for x in res.callable_values(v, None, {}))
    choice = None
    for d in ctx.index.expanded_decorators(st):
        if isinstance(d, ast.Call) and any(isinstance(a, ast.Constant) and a.value == "--format" for a in d.args):
            for kw in d.keywords:
                if kw.arg == "type" and isinstance(kw.value, ast.Call) and kw.value.args and isinstance(kw.value.args[0], (ast.List, ast.Tuple)):
                    choice = sorted(e.value for e in kw.value.args[0].elts if isinstance(e, ast.Constant))
    keys = sorted(k.value for k in fm.keys if isinstance(k, ast.Constant)) if isinstance(fm, ast.Dict) else []
    r4.check(choice == keys and keys, scon + "::formats", f"--format choices {choice} == FORMATS keys", f"--format accepts {choice} but FORMATS has {keys} (KeyError)", st.where)
    for p in printers:
        pcon = f"{p.module.relpath}::{p.qual}"
        param = p.positional_params()[0]
        problems = []
        for n in walk_no_nested(p.node):
            if isinstance(n, ast.Call) and isinstance(n.func, ast.Name) and n.func.id in ("max", "min") and len(n.args) == 1 and \
                    not any(k.arg == "default" for k in n.keywords):
                problems.append((n, f"{n.func.id}() over data derived from the table without default="))
            if isinstance(n, ast.Subscript) and isinstance(n.slice, ast.Constant) and isinstance(n.slice.value, int) and isinstance(n.value, ast.Call):
                problems.append((n, f"`{ast.unparse(n)}` indexes a possibly empty sequence"))
            if isinstance(n, ast.Call) and isinstance(n.func, ast.Name) and n.func.id == "next" and len(n.args) == 1:
                problems.append((n, "next() without default"))
        if problems:
            n, why = problems[0]
            r4.violation(pcon, f"the printer is not total on an empty selection: {why} (e.g. `gwf status -s running` with nothing running crashes)", loc(n, p.module))
        else:
            r4.ok(pcon, "no unguarded max/min/[0]/next on table-derived data", p.where)
    # visuals total over Status
    try:
        vis = ctx.ev.eval_global("gwf.plugins.status", "_STATUS_VISUALS")
        members = set(enum_members(idx, idx.cls("gwf.core:Status")))
        have = {k.member for k in vis}
        r4.check(have == members, "src/gwf/plugins/status.py::_STATUS_VISUALS", "a visual for every Status member",
                 f"_STATUS_VISUALS lacks {sorted(members - have)}: printing such a target raises KeyError", "src/gwf/plugins/status.py:1")
    except Exception as exc:
        r4.info("src/gwf/plugins/status.py::_STATUS_VISUALS", f"not evaluable: {exc}")


def run(ctx):
    """Structural (effect closure, shared decision procedure, filters) first; `gwf status` and `gwf run [--dry-run]` evaluated on the witness
    project decide where the closure analysis cannot follow the code (closures, classes, dispatch tables instead of partial())."""
    from ..loader import AnalysisError
    from .evalhelpers import cached_witness, status_command_witness, run_command_witness
    wst = cached_witness(ctx, "status-cmd", status_command_witness)
    wrun = cached_witness(ctx, "run", run_command_witness)
    n0 = len(ctx.rules)
    try:
        _run_structural(ctx)
    except (AnalysisError, Exception) as exc:
        if isinstance(exc, (NameError, ImportError, UnboundLocalError)):
            raise       # a defect of the checker itself, never a reason to fall back
        if any(w[2] is not None or w[1] for w in (wst, wrun)):
            raise
        r0 = ctx.rule("R0", "the effect-closure analysis cannot follow this shape; decided by the evaluated commands")
        r0.info("src/gwf/plugins", f"structural analysis stopped: {type(exc).__name__}: {str(exc)[:120]}")
        for r in ctx.rules[n0:]:
            r.min_instances = 0
    rules = ctx.rules[n0:]
    r_st = ctx.rule("R5", "`gwf status` evaluated on the witness project: 5 histories x 7 filter/endpoint/pattern views + formats show restrictions of one table and change nothing")
    from .evalhelpers import report_witness
    report_witness(r_st, "src/gwf/plugins/status.py::status::witness-project", "src/gwf/plugins/status.py:1", wst, "restrictions of the one table; no submit, cancel, hash record, delete or write")
    if not wst[1] and not wrun[1] and wst[2] is None and wrun[2] is None:
        both = (wst[0] + wrun[0], [], None)
        def pred(c):
            # the evaluated commands replace the two state stores, the backend and the filesystem snapshot by recording stubs: an effect inside those
            # classes is beyond what the evaluation can see, so the structural verdict on it stands
            m = re.search(r"\]::[A-Z_]+:(src/[^:]+):", c)
            if m and not m.group(1).startswith(("src/gwf/plugins/", "src/gwf/scheduling.py", "src/gwf/filtering.py")):
                return False
            return any(k in c for k in ("plugins/status.py", "plugins/run.py", "scheduling.py::submit_workflow", "scheduling.py::get_status_map", "scheduling.py::_submit"))
        ctx.reconcile(rules, pred,
                      both, "src/gwf/plugins::status+run", "src/gwf/plugins/status.py:1")

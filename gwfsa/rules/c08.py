"""C08 - a target's reported state is the scheduler's state of its own latest job (tables, keys, precedence)."""
import ast

from ..consteval import CantEval, EnumVal, DefaultDict, enum_members
from ..index import FuncInfo, dotted, walk_no_nested, loc, ancestors
from ..miniterp import MappingError, map_code
from ..reference import states as REF
from .localpool import LOCAL, _calls, scheduler_info

BASE = "gwf.backends.base"


def _cls_name(v):
    return v.member if isinstance(v, EnumVal) else repr(v)


def _find_block(fn, pred):
    """(statement list, index) of the first statement satisfying pred, searching nested blocks."""
    def rec(stmts):
        for i, st in enumerate(stmts):
            if pred(st):
                return stmts, i
            for fld in ("body", "orelse", "finalbody"):
                sub = getattr(st, fld, None)
                if isinstance(sub, list) and sub and isinstance(sub[0], ast.stmt):
                    r = rec(sub)
                    if r:
                        return r
            for h in getattr(st, "handlers", []):
                r = rec(h.body)
                if r:
                    return r
        return None
    return rec(fn.node.body)


def check_mapping(ctx, rule, fn, table_name, reference, bind, tail_from, sep_hint=None):
    """Evaluate the code->class mapping of `fn` for every documented code and compare with the reference classes."""
    construct = f"{fn.module.relpath}::{fn.qual}"
    found = _find_block(fn, tail_from)
    if found is None:
        rule.violation(construct, f"cannot locate where the {table_name} state code is read", fn.where)
        return
    stmts, i = found
    n_ok = 0
    for code, (allowed, why) in reference.items():
        env = bind(code, stmts[i])
        try:
            stores = map_code(ctx.ev, fn.module, stmts[i:], env)
        except MappingError as exc:
            rule.violation(f"{construct}::{code}", f"{table_name} code {code!r} ({why}) makes the state lookup fail ({exc}): "
                           "every gwf command crashes while such a job exists", loc(stmts[i], fn.module))
            continue
        vals = [v for (_t, _k, v) in stores if isinstance(v, EnumVal)]
        if not vals:
            got = "UNKNOWN"  # skipped: the id keeps its default / is absent from the map
        else:
            got = vals[-1].member
        if got in allowed:
            n_ok += 1
            rule.ok(f"{construct}::{code}", f"{code} -> {got}", loc(stmts[i], fn.module))
        else:
            rule.violation(f"{construct}::{code}", f"{table_name} code {code!r} ({why}) is reported as {got}; the property allows {sorted(allowed)}",
                           loc(stmts[i], fn.module))
    return n_ok


def run(ctx):
    idx = ctx.index
    ev = ctx.ev

    # ------------------------------------------------------------------ R1 tables
    r1 = ctx.rule("R1", "every documented scheduler state code maps to a class the property allows (tables evaluated from the source)", min_instances=60)
    # Slurm squeue
    fn = idx.func("gwf.backends.slurm:SlurmOps.get_job_states_from_squeue")

    def is_split_assign(st):
        return isinstance(st, ast.Assign) and isinstance(st.targets[0], ast.Tuple) and len(st.targets[0].elts) == 2 and any(
            isinstance(c.func, ast.Attribute) and c.func.attr == "split" for c in _calls(st.value))

    def bind_line(sep):
        def bind(code, st):
            line_names = [n.id for n in ast.walk(st.value) if isinstance(n, ast.Name)]
            env = {ln: f"4242{sep}{code}" for ln in line_names}
            env["tracked_jobs"] = ["4242"]
            return env
        return bind

    check_mapping(ctx, r1, fn, "squeue", REF.SLURM_SHORT, bind_line(";"), is_split_assign)
    # squeue format <-> parser
    fmt = sep = None
    for c in _calls(fn.node):
        if isinstance(c.func, (ast.Name, ast.Attribute)) and idx.canon(c.func, fn.module) == "gwf.backends.utils.call":
            for a in c.args:
                if isinstance(a, ast.Constant) and isinstance(a.value, str) and a.value.startswith("--format="):
                    fmt = a.value[len("--format="):]
    for st in walk_no_nested(fn.node):
        if is_split_assign(st):
            for c in _calls(st.value):
                if isinstance(c.func, ast.Attribute) and c.func.attr == "split" and c.args and isinstance(c.args[0], ast.Constant):
                    sep = c.args[0].value
    r1.check(fmt is not None and sep is not None and fmt == f"%i{sep}%t", f"{fn.module.relpath}::{fn.qual}::format",
             f"squeue --format={fmt} parsed as <id>{sep}<short state>",
             f"squeue is asked for --format={fmt!r} but its lines are parsed as <job id>{sep!r}<compact state>: ids and states no longer line up", fn.where)
    all_users = any(isinstance(a, ast.Constant) and a.value in ("--all", "-a") for c in _calls(fn.node) for a in c.args)
    flt = any(isinstance(n, ast.Compare) and isinstance(n.ops[0], ast.In) and dotted(n.comparators[0]) == fn.positional_params()[1]
              for n in walk_no_nested(fn.node))
    r1.check(flt, f"{fn.module.relpath}::{fn.qual}::own-jobs", "queue lines are kept only for tracked job ids",
             "squeue lines are not restricted to the tracked job ids: unrelated jobs would enter the state map", fn.where)

    # Slurm sacct
    fn2 = idx.func("gwf.backends.slurm:SlurmOps.get_job_states_from_sacct")
    check_mapping(ctx, r1, fn2, "sacct", REF.SLURM_LONG, bind_line("|"), is_split_assign)
    # "CANCELLED by 1234"
    found = _find_block(fn2, is_split_assign)
    if found:
        stmts, i = found
        try:
            stores = map_code(ev, fn2.module, stmts[i:], bind_line("|")("CANCELLED by 1234", stmts[i]))
            vals = [v for (_t, _k, v) in stores if isinstance(v, EnumVal)]
            r1.check(bool(vals) and vals[-1].member == "CANCELLED", f"{fn2.module.relpath}::{fn2.qual}::CANCELLED by",
                     "'CANCELLED by <uid>' is cleaned to CANCELLED", "sacct's 'CANCELLED by <uid>' is not reported as cancelled", fn2.where)
        except MappingError as exc:
            r1.violation(f"{fn2.module.relpath}::{fn2.qual}::CANCELLED by", f"sacct's 'CANCELLED by <uid>' makes the lookup fail ({exc})", fn2.where)
    sacct_args = [a.value for n in walk_no_nested(fn2.node) if isinstance(n, (ast.List, ast.Tuple, ast.Call))
                  for a in (n.elts if isinstance(n, (ast.List, ast.Tuple)) else n.args) if isinstance(a, ast.Constant) and isinstance(a.value, str)]
    r1.check("sacct" in sacct_args and ("--allocations" in sacct_args or "-X" in sacct_args) and "--parsable2" in sacct_args
             and any(a.replace(" ", "").lower() in ("--format=jobid,state",) for a in sacct_args),
             f"{fn2.module.relpath}::{fn2.qual}::format", "sacct --allocations --parsable2 --format=jobid,state parsed as <id>|<state>",
             f"sacct arguments {sacct_args} do not produce one '<jobid>|<state>' line per job allocation (steps or other columns would be parsed as jobs)",
             fn2.where)
    # every long name composes to a short key (LONG -> SHORT totality)
    try:
        long_t = ev.eval_global("gwf.backends.slurm", "SLURM_LONG_STATES")
        short_t = ev.eval_global("gwf.backends.slurm", "SLURM_SHORT_STATES")
        missing = sorted(v for v in long_t.values() if v not in short_t)
        r1.check(not missing, "src/gwf/backends/slurm.py::SLURM_LONG_STATES", f"{len(long_t)} long names all map to known short codes",
                 f"long state names map to short codes {missing} that the short table does not know", "src/gwf/backends/slurm.py:1")
    except (CantEval, Exception) as exc:  # tables restructured: the per-code evaluation above still decides
        r1.info("src/gwf/backends/slurm.py::SLURM_LONG_STATES", f"tables not evaluable as dicts ({exc})")

    # LSF
    fn3 = idx.func("gwf.backends.lsf:LSFOps.get_job_states")

    def is_bjobs_assign(st):
        return isinstance(st, ast.Assign) and isinstance(st.targets[0], ast.Name) and any(
            isinstance(c.func, (ast.Name, ast.Attribute)) and idx.canon(c.func, fn3.module) == "gwf.backends.utils.call" for c in _calls(st.value))

    def bind_lsf(code, st):
        return {st.targets[0].id: code, "job_id": "4242", "tracked_jobs": ["4242"]}

    found = _find_block(fn3, is_bjobs_assign)
    if found is None:
        r1.violation(f"{fn3.module.relpath}::{fn3.qual}", "cannot locate where the bjobs state is read", fn3.where)
    else:
        stmts, i = found
        # the assignment itself is opaque (call); evaluate from the next statement with the variable bound
        check_mapping(ctx, r1, fn3, "bjobs", REF.LSF, lambda code, st0: bind_lsf(code, stmts[i]),
                      lambda st: st is stmts[i + 1] if i + 1 < len(stmts) else False)
        # empty answer (job not in the queue any more) keeps the default UNKNOWN
        stores = []
        try:
            stores = map_code(ev, fn3.module, stmts[i + 1:], bind_lsf("", stmts[i]))
        except MappingError:
            stores = [("?", None, EnumVal("x", "ERROR"))]
        vals = [v for (_t, _k, v) in stores if isinstance(v, EnumVal)]
        r1.check(not vals or vals[-1].member == "UNKNOWN", f"{fn3.module.relpath}::{fn3.qual}::<empty>", "no record -> UNKNOWN",
                 f"an empty bjobs answer (no record) is reported as {vals[-1].member if vals else '?'}", fn3.where)
    strip_ok = found is not None and any(isinstance(c.func, ast.Attribute) and c.func.attr == "strip" for c in _calls(found[0][found[1]].value))
    r1.check(strip_ok, f"{fn3.module.relpath}::{fn3.qual}::strip", "bjobs output is stripped before the lookup",
             "the bjobs output is looked up with its trailing newline: no code ever matches", fn3.where)

    # SGE
    fn4 = idx.func("gwf.backends.sge:SGEOps.get_job_states")

    def is_state_assign(st):
        return isinstance(st, ast.Assign) and isinstance(st.targets[0], ast.Name) and 'find("state")' in ast.unparse(st.value).replace("'", '"')

    found = _find_block(fn4, is_state_assign)
    if found is None:
        r1.violation(f"{fn4.module.relpath}::{fn4.qual}", "cannot locate where the qstat state string is read", fn4.where)
    else:
        stmts, i = found
        svar = stmts[i].targets[0].id
        check_mapping(ctx, r1, fn4, "qstat", REF.SGE, lambda code, st0: {svar: code, "job_id": "4242"},
                      lambda st: st is stmts[i + 1] if i + 1 < len(stmts) else False)

    # local
    try:
        smap = ev.eval_global(LOCAL, "STATUS_MAP")
    except CantEval as exc:
        smap = None
        r1.violation("src/gwf/backends/local.py::STATUS_MAP", f"cannot evaluate the local status map ({exc})", "src/gwf/backends/local.py:1")
    if smap is not None:
        members = enum_members(idx, idx.cls(f"{LOCAL}:LocalStatus"))
        for m in members:
            allowed, why = REF.LOCAL.get(m, ({"UNKNOWN"}, "member not in the reference"))
            key = EnumVal(f"{LOCAL}.LocalStatus", m)
            if key not in smap:
                r1.violation(f"src/gwf/backends/local.py::STATUS_MAP::{m}", f"LocalStatus.{m} has no entry in STATUS_MAP: status queries crash with KeyError "
                             "as soon as a task is in that state", "src/gwf/backends/local.py:1")
            else:
                got = _cls_name(smap[key])
                r1.check(got in allowed, f"src/gwf/backends/local.py::STATUS_MAP::{m}", f"{m} -> {got}",
                         f"local task state {m} ({why}) is reported as {got}; the property allows {sorted(allowed)}", "src/gwf/backends/local.py:1")
    # encoder/decoder agree on names
    enc = idx.func(f"{LOCAL}:CustomEncoder.default")
    enc_ok = any(isinstance(n, ast.Return) and isinstance(n.value, ast.Attribute) and n.value.attr == "name" for n in walk_no_nested(enc.node))
    st_fn = idx.func(f"{LOCAL}:Client.status")
    dec_ok = any(isinstance(n, ast.Subscript) and dotted(n.value) == "LocalStatus" for n in ast.walk(st_fn.node))
    r1.check(enc_ok and dec_ok, "src/gwf/backends/local.py::wire-state-encoding", "states travel by member name (encoder .name / decoder LocalStatus[name])",
             "the pool encodes task states differently from how the client decodes them", enc.where)

    # ------------------------------------------------------------------ R2 key agreement
    r2 = ctx.rule("R2", "status reads the state of the id written at the last submit; ids agree between writer and reader", min_instances=6)
    tb = idx.cls(f"{BASE}:TrackingBackend")
    from .evalhelpers import eval_status, S
    from .c02 import rule_id_lookup
    out, st_m = eval_status(ctx)
    scon = f"{st_m.module.relpath}::{st_m.qual}"
    want = {"T": S("RUNNING"), "U": S("UNKNOWN"), "nostate": S("UNKNOWN")}
    r2.check(out == want, scon, "state of the id tracked under the target's own name; UNKNOWN when untracked or without a record",
             f"TrackingBackend.status gives {{tracked+RUNNING: {out.get('T')}, untracked: {out.get('U')}, tracked without record: {out.get('nostate')}}}; "
             "expected RUNNING / UNKNOWN / UNKNOWN (the state of the target's own latest job and of no other)", st_m.where)
    rule_id_lookup(ctx, r2)
    # all tracked ids are queried
    init_s = idx.method(tb, "_init_status")
    q_ok = any(isinstance(c.func, ast.Attribute) and c.func.attr == "get_job_states" and c.args and
               ast.unparse(c.args[0]) in ("list(self._tracked_jobs.values())", "self._tracked_jobs.values()", "set(self._tracked_jobs.values())")
               for c in _calls(init_s.node))
    r2.check(q_ok, f"{init_s.module.relpath}::{init_s.qual}", "all tracked ids are passed to ops.get_job_states",
             "the backend does not query the states of all tracked job ids", init_s.where)
    # load path == save path; what is saved is the in-memory table
    close_m = idx.method(tb, "close")
    init_t = idx.method(tb, "_init_tracked")
    load_ok = any(isinstance(c.func, (ast.Name, ast.Attribute)) and idx.canon(c.func, init_t.module) == "builtins.open" and c.args
                  and ast.unparse(c.args[0]) == "self._get_state_path()" for c in _calls(init_t.node))
    r2.check(load_ok, f"{init_t.module.relpath}::{init_t.qual}", "tracked ids are loaded from self._get_state_path()",
             "tracked ids are not loaded from the backend's state path", init_t.where)
    from .c07 import rule_tracked_dump
    from .persist import rule_close_writes, rule_exit_persists
    rule_tracked_dump(ctx, r2)
    rule_exit_persists(ctx, r2, ("tracked jobs",))
    rule_close_writes(ctx, r2, ("tracked jobs",))
    sp_m = idx.method(tb, "_get_state_path")
    sp_txt = ast.unparse(sp_m.node)
    r2.check(".gwf" in sp_txt and "self.name" in sp_txt and "self.working_dir" in sp_txt, f"{sp_m.module.relpath}::{sp_m.qual}",
             "state file is <project>/.gwf/<backend name>-backend-tracked.json",
             "the tracked-jobs file is not a per-backend file under the project's .gwf directory", sp_m.where)
    # id normalisation per backend (writer) and reader key types
    for mod, cname in (("gwf.backends.slurm", "SlurmOps"), ("gwf.backends.sge", "SGEOps"), ("gwf.backends.lsf", "LSFOps")):
        m = idx.func(f"{mod}:{cname}.submit_target")
        rets = [n for n in walk_no_nested(m.node) if isinstance(n, ast.Return) and n.value is not None]
        bad = None
        for rnode in rets:
            if not _normalised_id(idx, m, rnode.value):
                bad = rnode
        r2.check(rets and bad is None, f"{m.module.relpath}::{m.qual}::id", "the id handed back is stripped / extracted from the scheduler's output",
                 "the job id returned to gwf is the raw output of the submit command (with its trailing newline): the queue listing never matches it, "
                 "so the job's state is never found and dependents are held on a malformed id", loc(bad, m.module) if bad is not None else m.where)
    from .evalhelpers import eval_local_job_states, S
    got, lo = eval_local_job_states(ctx)
    want = {1: S("RUNNING"), 7: S("FAILED"), 9: S("COMPLETED")}
    r2.check(got == want, f"{lo.module.relpath}::{lo.qual}", "wire keys '1','2','7','9' with tracked ids [1,7,9] -> {1: RUNNING, 7: FAILED (killed), 9: COMPLETED}",
             f"the local backend maps the pool's answer to {got}; expected {want}: JSON object keys arrive as strings and must be matched to the integer ids gwf tracks, "
             "only tracked ids are kept", lo.where)

    # ------------------------------------------------------------------ R3 Slurm precedence, batching
    r3 = ctx.rule("R3", "Slurm: accounting only when enabled, live queue overrides accounting, batches cover all ids", min_instances=3)
    gjs = idx.func("gwf.backends.slurm:SlurmOps.get_job_states")
    res = ctx.resolver
    # functions of the module that reach a sacct query
    sacct_fns = set()
    for f in idx.functions.values():
        if f.module.name != "gwf.backends.slurm":
            continue
        _v, effs, _u = res.reach(f)
        if any(e.kind == "SCHED_QUERY" and e.detail == "sacct" for e in effs):
            sacct_fns.add(f.key)
    guard_ok = True
    n_sites = 0
    squeue_line = sacct_line = None
    for n in walk_no_nested(gjs.node):
        if isinstance(n, ast.Call):
            callees = [c for c in res.callees(n, gjs, {}) if isinstance(c, FuncInfo)]
            if any(c.key in sacct_fns and c.key != gjs.key for c in callees):
                n_sites += 1
                sacct_line = n.lineno
                guarded = False
                for a in ancestors(n):
                    if isinstance(a, ast.If) and ast.unparse(a.test) == "self.accounting_enabled" and any(n in ast.walk(b) for b in a.body):
                        guarded = True
                if not guarded:
                    guard_ok = False
                    r3.violation(f"{gjs.module.relpath}::{gjs.qual}::sacct-guard", "the accounting database is queried without testing accounting_enabled: "
                                 "with accounting disabled sacct is still consulted", loc(n, gjs.module))
            if any(c.key.endswith("get_job_states_from_squeue") for c in callees):
                squeue_line = n.lineno
    if guard_ok:
        r3.check(n_sites >= 1 or gjs.key not in sacct_fns, f"{gjs.module.relpath}::{gjs.qual}::sacct-guard",
                 f"{n_sites} accounting call site(s), all under `if self.accounting_enabled`",
                 "sacct is reachable from get_job_states but no guarded call site was found", gjs.where)
    if gjs.key not in sacct_fns:
        r3.violation(f"{gjs.module.relpath}::{gjs.qual}::sacct", "accounting is never consulted: failed/cancelled jobs that left the queue are not reported", gjs.where)
    # other callers of sacct functions
    for f in idx.functions.values():
        if f.key in sacct_fns or f.key == gjs.key:
            continue
        for n in walk_no_nested(f.node):
            if isinstance(n, ast.Call) and any(isinstance(c, FuncInfo) and c.key in sacct_fns and c.module.name == "gwf.backends.slurm"
                                               for c in res.callees(n, f, {})):
                if isinstance(n.func, ast.Attribute) and n.func.attr.startswith("get_job_states_from_sacct"):
                    r3.violation(f"{f.module.relpath}::{f.qual}", "sacct is queried from outside the guarded path", loc(n, f.module))
    # squeue wins: its update comes last on the same dict
    order_ok = squeue_line is not None and (sacct_line is None or squeue_line > sacct_line)
    upd = [n for n in walk_no_nested(gjs.node) if isinstance(n, ast.Call) and isinstance(n.func, ast.Attribute) and n.func.attr == "update"]
    same_dict = len({dotted(u.func.value) for u in upd}) == 1 and len(upd) >= 2
    rets = [n for n in walk_no_nested(gjs.node) if isinstance(n, ast.Return) and n.value is not None]
    ret_same = rets and upd and all(dotted(r.value) == dotted(upd[0].func.value) for r in rets)
    r3.check(order_ok and same_dict and ret_same, f"{gjs.module.relpath}::{gjs.qual}::precedence",
             "accounting states are written first, live queue states overwrite them, that dict is returned",
             "the live queue (squeue) does not take precedence over the accounting database: stale accounting data would hide a job that is queued or running again",
             gjs.where)
    squeue_unguarded = squeue_line is not None and not any(
        isinstance(a, ast.If) for n in walk_no_nested(gjs.node) if isinstance(n, ast.Call) and n.lineno == squeue_line for a in ancestors(n))
    r3.check(squeue_unguarded, f"{gjs.module.relpath}::{gjs.qual}::squeue", "the live queue is always consulted",
             "the live queue is not consulted unconditionally", gjs.where)
    # batching
    bf = idx.func("gwf.backends.slurm:SlurmOps.get_job_states_from_sacct_batched")
    bcon = f"{bf.module.relpath}::{bf.qual}"
    loops = [n for n in walk_no_nested(bf.node) if isinstance(n, ast.For)]
    ok = False
    detail = "no `for i in range(0, len(ids), batch)` loop with slice ids[i:i+batch]"
    for lp in loops:
        it = lp.iter
        if isinstance(it, ast.Call) and idx.canon(it.func, bf.module) == "builtins.range" and len(it.args) == 3 and isinstance(lp.target, ast.Name):
            start, stop, step = it.args
            ids = bf.positional_params()[1]
            if isinstance(start, ast.Constant) and start.value == 0 and ast.unparse(stop) == f"len({ids})":
                i = lp.target.id
                stp = ast.unparse(step)
                slices = [n for n in ast.walk(lp) if isinstance(n, ast.Subscript) and isinstance(n.slice, ast.Slice) and dotted(n.value) == ids]
                for s in slices:
                    lo_ = ast.unparse(s.slice.lower) if s.slice.lower else None
                    up_ = ast.unparse(s.slice.upper).replace(" ", "") if s.slice.upper else None
                    if lo_ == i and up_ in (f"{i}+{stp}", f"{stp}+{i}") and s.slice.step is None:
                        ok = True
                    else:
                        detail = f"batch slice `{ast.unparse(s)}` with loop `{ast.unparse(it)}` does not cover ids[{i}:{i}+{stp}]"
                # each batch result is merged
                merged = any(isinstance(c.func, ast.Attribute) and c.func.attr == "update" for c in _calls(lp))
                if ok and not merged:
                    ok = False
                    detail = "batch results are not merged into the returned map"
    r3.check(ok, bcon, "batches ids[i:i+batch] for i in range(0, len(ids), batch) cover every tracked id exactly once",
             f"accounting batches do not cover all tracked ids: {detail}", bf.where)
    # empty batch guard in the single query is fine; joined ids
    jn = any(isinstance(n, ast.Call) and isinstance(n.func, ast.Attribute) and n.func.attr == "join" and n.args and
             dotted(n.args[0]) == fn2.positional_params()[1] for n in ast.walk(fn2.node))
    r3.check(jn, f"{fn2.module.relpath}::{fn2.qual}::jobs", "all ids of the batch are passed to sacct --jobs",
             "the accounting query does not name all ids of its batch", fn2.where)

    # ------------------------------------------------------------------ R4 identity across pool restarts (known design gap D23)
    r4 = ctx.rule("R4", "a tracked id denotes the same job across invocations")
    info = scheduler_info(ctx)
    enq = idx.func(f"{LOCAL}:Scheduler.enqueue_task")
    fld = info["cls"].field(info["tidgen"]) if info["tidgen"] else None
    per_process = False
    if fld is not None and isinstance(fld[2], ast.Call):
        for kw in fld[2].keywords:
            if kw.arg == "factory" and idx.canon(kw.value, info["cls"].module) == "itertools.count":
                per_process = True
    plain = any(isinstance(n, ast.Assign) and isinstance(n.value, ast.Call) and idx.canon(n.value.func, enq.module) == "builtins.next"
                for n in walk_no_nested(enq.node))
    if per_process and plain:
        r4.violation(f"src/gwf/backends/local.py::Scheduler.{info['tidgen']}",
                     "local task ids come from a per-process itertools.count() while tracked ids persist in .gwf/local-backend-tracked.json: "
                     "after a restart of the worker pool a tracked id denotes a different (or no) task, so a target can show another task's state",
                     info["cls"].where)
    else:
        r4.ok(f"src/gwf/backends/local.py::Scheduler.{info['tidgen']}", "ids carry a pool-instance discriminator", info["cls"].where)


def _normalised_id(idx, m, expr):
    """True if the returned id went through strip()/a regex group/int()."""
    if isinstance(expr, ast.Call) and isinstance(expr.func, ast.Attribute) and expr.func.attr in ("strip", "rstrip", "group") and not (
            expr.func.attr != "group" and expr.args and False):
        return True
    if isinstance(expr, ast.Call) and isinstance(expr.func, ast.Name) and expr.func.id == "int":
        return True
    if isinstance(expr, ast.Subscript):
        # re.search(...)[1] or m.group
        inner = expr.value
        if isinstance(inner, ast.Call) and (idx.canon(inner.func, m.module) or "").startswith("re."):
            return True
        if isinstance(inner, ast.Name):
            return _local_normalised(idx, m, inner.id)
    if isinstance(expr, ast.Name):
        return _local_normalised(idx, m, expr.id)
    return False


def _local_normalised(idx, m, name):
    for n in walk_no_nested(m.node):
        if isinstance(n, ast.Assign) and any(isinstance(t, ast.Name) and t.id == name for t in n.targets):
            if _normalised_id(idx, m, n.value):
                return True
            if isinstance(n.value, ast.Call) and (idx.canon(n.value.func, m.module) or "").startswith("re."):
                return True
    return False

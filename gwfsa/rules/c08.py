"""C08 - a target's reported state is the scheduler's state of its own latest job (tables, keys, precedence)."""
import ast

from ..consteval import CantEval, EnumVal, DefaultDict, enum_members
from ..index import FuncInfo, dotted, walk_no_nested, loc, ancestors
from ..miniterp import MappingError, map_code
from ..reference import states as REF
from .localpool import LOCAL, _calls, scheduler_info

BASE = "gwf.backends.base"


def _cls_name(v):
    return v.member if isinstance(v, EnumVal) else repr(v)


def _find_block(fn, pred):
    """(statement list, index) of the first statement satisfying pred, searching nested blocks."""
    def rec(stmts):
        for i, st in enumerate(stmts):
            if pred(st):
                return stmts, i
            for fld in ("body", "orelse", "finalbody"):
                sub = getattr(st, fld, None)
                if isinstance(sub, list) and sub and isinstance(sub[0], ast.stmt):
                    r = rec(sub)
                    if r:
                        return r
            for h in getattr(st, "handlers", []):
                r = rec(h.body)
                if r:
                    return r
        return None
    return rec(fn.node.body)


def map_one(ctx, fn, stmts, env):
    """Template-evaluate the statements that turn one scheduler state code into a BackendStatus; returns the stored EnumVals."""
    from ..symeval import PureInterp, Raised, Unsupported, _Break, _Continue, _Return, Obj
    interp = PureInterp(ctx)
    env = dict(env)
    store = {}
    env.setdefault("job_states", store)
    if "self" not in env:
        from .evalhelpers import make_instance
        env["self"] = make_instance(ctx, fn.cls, "ops", working_dir="⟦PROJ⟧", accounting_enabled=True) if fn.cls is not None else Obj("ops", working_dir="⟦PROJ⟧", accounting_enabled=True)
    try:
        interp.block(stmts, env, fn.module, 0)
    except (_Continue, _Break, _Return):
        pass
    except Raised as exc:
        raise MappingError(f"lookup fails: {exc}")
    except Unsupported as exc:
        raise MappingError(f"cannot follow: {exc}")
    js = env.get("job_states")
    vals = [v for v in (js.values() if isinstance(js, dict) else []) if isinstance(v, EnumVal)]
    return vals


def check_mapping(ctx, rule, fn, table_name, reference, bind, tail_from, sep_hint=None):
    """Evaluate the code->class mapping of `fn` for every documented code and compare with the reference classes."""
    construct = f"{fn.module.relpath}::{fn.qual}"
    found = _find_block(fn, tail_from)
    if found is None:
        rule.violation(construct, f"cannot locate where the {table_name} state code is read", fn.where)
        return
    stmts, i = found
    n_ok = 0
    for code, (allowed, why) in reference.items():
        env = bind(code, stmts[i])
        try:
            vals = map_one(ctx, fn, stmts[i:], env)
        except MappingError as exc:
            rule.violation(f"{construct}::{code}", f"{table_name} code {code!r} ({why}) makes the state lookup fail ({exc}): "
                           "every gwf command crashes while such a job exists", loc(stmts[i], fn.module))
            continue
        got = vals[-1].member if vals else "UNKNOWN"  # skipped: the id keeps its default / is absent from the map
        if got in allowed:
            n_ok += 1
            rule.ok(f"{construct}::{code}", f"{code} -> {got}", loc(stmts[i], fn.module))
        else:
            rule.violation(f"{construct}::{code}", f"{table_name} code {code!r} ({why}) is reported as {got}; the property allows {sorted(allowed)}",
                           loc(stmts[i], fn.module))
    return n_ok


def run(ctx):
    idx = ctx.index
    ev = ctx.ev

    # ------------------------------------------------------------------ R1 tables
    r1 = ctx.rule("R1", "every documented scheduler state code maps to a class the property allows (tables evaluated from the source)", min_instances=5)
    def cluster_tables_structural(_ctx, rr):
        try:
            _cluster_tables(rr)
        except Exception as exc:  # anchors moved (parsing extracted into helpers/generators): the per-code evaluation decides
            rr.violation("src/gwf/backends::state-tables", f"the state-code lookups are not in a shape the table extraction recognises ({type(exc).__name__}: {str(exc)[:80]})",
                         "src/gwf/backends/slurm.py:1")

    def _cluster_tables(rr):
        # Slurm squeue
        fn = idx.func("gwf.backends.slurm:SlurmOps.get_job_states_from_squeue")

        def is_split_assign(st):
            return isinstance(st, ast.Assign) and isinstance(st.targets[0], ast.Tuple) and len(st.targets[0].elts) == 2 and any(
                isinstance(c.func, ast.Attribute) and c.func.attr == "split" for c in _calls(st.value))

        def bind_line(sep):
            def bind(code, st):
                line_names = [n.id for n in ast.walk(st.value) if isinstance(n, ast.Name)]
                env = {ln: f"4242{sep}{code}" for ln in line_names}
                env["tracked_jobs"] = ["4242"]
                return env
            return bind

        check_mapping(ctx, rr, fn, "squeue", REF.SLURM_SHORT, bind_line(";"), is_split_assign)
        # squeue format <-> parser
        fmt = sep = None
        for c in _calls(fn.node):
            if isinstance(c.func, (ast.Name, ast.Attribute)) and (idx.canon(c.func, fn.module) == "gwf.backends.utils.call" or idx.canon(c.func, fn.module) in idx.command_runners()):
                for a in c.args:
                    if isinstance(a, ast.Constant) and isinstance(a.value, str) and a.value.startswith("--format="):
                        fmt = a.value[len("--format="):]
        for st in walk_no_nested(fn.node):
            if is_split_assign(st):
                for c in _calls(st.value):
                    if isinstance(c.func, ast.Attribute) and c.func.attr == "split" and c.args and isinstance(c.args[0], ast.Constant):
                        sep = c.args[0].value
        rr.check(fmt is not None and sep is not None and fmt == f"%i{sep}%t", f"{fn.module.relpath}::{fn.qual}::format",
                 f"squeue --format={fmt} parsed as <id>{sep}<short state>",
                 f"squeue is asked for --format={fmt!r} but its lines are parsed as <job id>{sep!r}<compact state>: ids and states no longer line up", fn.where)
        all_users = any(isinstance(a, ast.Constant) and a.value in ("--all", "-a") for c in _calls(fn.node) for a in c.args)
        flt = any(isinstance(n, ast.Compare) and isinstance(n.ops[0], ast.In) and dotted(n.comparators[0]) == fn.positional_params()[1]
                  for n in walk_no_nested(fn.node))
        rr.check(flt, f"{fn.module.relpath}::{fn.qual}::own-jobs", "queue lines are kept only for tracked job ids",
                 "squeue lines are not restricted to the tracked job ids: unrelated jobs would enter the state map", fn.where)

        # Slurm sacct
        fn2 = idx.func("gwf.backends.slurm:SlurmOps.get_job_states_from_sacct")
        check_mapping(ctx, rr, fn2, "sacct", REF.SLURM_LONG, bind_line("|"), is_split_assign)
        # "CANCELLED by 1234"
        found = _find_block(fn2, is_split_assign)
        if found:
            stmts, i = found
            try:
                vals = map_one(ctx, fn2, stmts[i:], bind_line("|")("CANCELLED by 1234", stmts[i]))
                rr.check(bool(vals) and vals[-1].member == "CANCELLED", f"{fn2.module.relpath}::{fn2.qual}::CANCELLED by",
                         "'CANCELLED by <uid>' is cleaned to CANCELLED", "sacct's 'CANCELLED by <uid>' is not reported as cancelled", fn2.where)
            except MappingError as exc:
                rr.violation(f"{fn2.module.relpath}::{fn2.qual}::CANCELLED by", f"sacct's 'CANCELLED by <uid>' makes the lookup fail ({exc})", fn2.where)
        sacct_args = [a.value for n in walk_no_nested(fn2.node) if isinstance(n, (ast.List, ast.Tuple, ast.Call))
                      for a in (n.elts if isinstance(n, (ast.List, ast.Tuple)) else n.args) if isinstance(a, ast.Constant) and isinstance(a.value, str)]
        rr.check("sacct" in sacct_args and ("--allocations" in sacct_args or "-X" in sacct_args) and "--parsable2" in sacct_args
                 and any(a.replace(" ", "").lower() in ("--format=jobid,state",) for a in sacct_args),
                 f"{fn2.module.relpath}::{fn2.qual}::format", "sacct --allocations --parsable2 --format=jobid,state parsed as <id>|<state>",
                 f"sacct arguments {sacct_args} do not produce one '<jobid>|<state>' line per job allocation (steps or other columns would be parsed as jobs)",
                 fn2.where)
        # every long name composes to a short key (LONG -> SHORT totality)
        try:
            long_t = ev.eval_global("gwf.backends.slurm", "SLURM_LONG_STATES")
            short_t = ev.eval_global("gwf.backends.slurm", "SLURM_SHORT_STATES")
            missing = sorted(v for v in long_t.values() if v not in short_t)
            rr.check(not missing, "src/gwf/backends/slurm.py::SLURM_LONG_STATES", f"{len(long_t)} long names all map to known short codes",
                     f"long state names map to short codes {missing} that the short table does not know", "src/gwf/backends/slurm.py:1")
        except (CantEval, Exception) as exc:  # tables restructured: the per-code evaluation above still decides
            rr.info("src/gwf/backends/slurm.py::SLURM_LONG_STATES", f"tables not evaluable as dicts ({exc})")

        # LSF
        fn3 = idx.func("gwf.backends.lsf:LSFOps.get_job_states")

        def is_bjobs_assign(st):
            return isinstance(st, ast.Assign) and isinstance(st.targets[0], ast.Name) and any(
                isinstance(c.func, (ast.Name, ast.Attribute)) and (idx.canon(c.func, fn3.module) == "gwf.backends.utils.call" or idx.canon(c.func, fn3.module) in idx.command_runners()) for c in _calls(st.value))

        def bind_lsf(code, st):
            return {st.targets[0].id: code, "job_id": "4242", "tracked_jobs": ["4242"]}

        found = _find_block(fn3, is_bjobs_assign)
        if found is None:
            rr.violation(f"{fn3.module.relpath}::{fn3.qual}", "cannot locate where the bjobs state is read", fn3.where)
        else:
            stmts, i = found
            # the assignment itself is opaque (call); evaluate from the next statement with the variable bound
            check_mapping(ctx, rr, fn3, "bjobs", REF.LSF, lambda code, st0: bind_lsf(code, stmts[i]),
                          lambda st: st is stmts[i + 1] if i + 1 < len(stmts) else False)
            # empty answer (job not in the queue any more) keeps the default UNKNOWN
            try:
                vals = map_one(ctx, fn3, stmts[i + 1:], bind_lsf("", stmts[i]))
            except MappingError:
                vals = [EnumVal("x", "ERROR")]
            rr.check(not vals or vals[-1].member == "UNKNOWN", f"{fn3.module.relpath}::{fn3.qual}::<empty>", "no record -> UNKNOWN",
                     f"an empty bjobs answer (no record) is reported as {vals[-1].member if vals else '?'}", fn3.where)
        strip_ok = found is not None and any(isinstance(c.func, ast.Attribute) and c.func.attr == "strip" for c in _calls(found[0][found[1]].value))
        rr.check(strip_ok, f"{fn3.module.relpath}::{fn3.qual}::strip", "bjobs output is stripped before the lookup",
                 "the bjobs output is looked up with its trailing newline: no code ever matches", fn3.where)

        # SGE
        fn4 = idx.func("gwf.backends.sge:SGEOps.get_job_states")

        def is_state_assign(st):
            return isinstance(st, ast.Assign) and isinstance(st.targets[0], ast.Name) and 'find("state")' in ast.unparse(st.value).replace("'", '"')

        found = _find_block(fn4, is_state_assign)
        if found is None:
            rr.violation(f"{fn4.module.relpath}::{fn4.qual}", "cannot locate where the qstat state string is read", fn4.where)
        else:
            stmts, i = found
            svar = stmts[i].targets[0].id
            check_mapping(ctx, rr, fn4, "qstat", REF.SGE, lambda code, st0: {svar: code, "job_id": "4242"},
                          lambda st: st is stmts[i + 1] if i + 1 < len(stmts) else False)

    from .evalhelpers import cached_witness, state_codes_witness
    ctx.structural_or_witness(r1, cluster_tables_structural, lambda: cached_witness(ctx, "state-codes", state_codes_witness), "src/gwf/backends::state-codes", both=True)

    # local
    try:
        smap = ev.eval_global(LOCAL, "STATUS_MAP")
    except CantEval as exc:
        # a derived table (comprehension over the enum, override dict...): evaluate the module constant with the interpreter
        try:
            from ..symeval import PureInterp
            lmod = idx.repo.module(LOCAL)
            smap = PureInterp(ctx).eval(ast.parse("STATUS_MAP", mode="eval").body, {}, lmod)
            if not isinstance(smap, dict):
                raise CantEval("not a dict")
        except Exception as exc2:
            smap = None
            r1.violation("src/gwf/backends/local.py::STATUS_MAP", f"cannot evaluate the local status map ({exc}; {exc2})", "src/gwf/backends/local.py:1")
    if smap is not None:
        members = enum_members(idx, idx.cls(f"{LOCAL}:LocalStatus"))
        for m in members:
            allowed, why = REF.LOCAL.get(m, ({"UNKNOWN"}, "member not in the reference"))
            key = EnumVal(f"{LOCAL}.LocalStatus", m)
            if key not in smap:
                r1.violation(f"src/gwf/backends/local.py::STATUS_MAP::{m}", f"LocalStatus.{m} has no entry in STATUS_MAP: status queries crash with KeyError "
                             "as soon as a task is in that state", "src/gwf/backends/local.py:1")
            else:
                got = _cls_name(smap[key])
                r1.check(got in allowed, f"src/gwf/backends/local.py::STATUS_MAP::{m}", f"{m} -> {got}",
                         f"local task state {m} ({why}) is reported as {got}; the property allows {sorted(allowed)}", "src/gwf/backends/local.py:1")
    # encoder/decoder agree on names
    enc = idx.func(f"{LOCAL}:CustomEncoder.default")
    enc_ok = any(isinstance(n, ast.Return) and isinstance(n.value, ast.Attribute) and n.value.attr == "name" for n in walk_no_nested(enc.node))
    st_fn = idx.func(f"{LOCAL}:Client.status")
    dec_ok = any(isinstance(n, ast.Subscript) and dotted(n.value) == "LocalStatus" for n in ast.walk(st_fn.node))
    enc_fn = idx.maybe_func(f"{LOCAL}:encode")
    uses_enc = False
    if enc_fn is not None:
        for c_ in ast.walk(enc_fn.node):
            if isinstance(c_, ast.Call) and (idx.canon(c_.func, enc_fn.module) or "") in ("json.dumps", "json.dump"):
                uses_enc = any(k.arg in ("cls", "default") for k in c_.keywords)
    r1.check(uses_enc or enc_fn is None, "src/gwf/backends/local.py::encode::encoder", "encode() serialises with the encoder that knows LocalStatus (cls= / default=)",
             "encode() calls json.dumps without cls=/default=: a reply that carries task states (LocalStatus members) cannot be serialised, every state query of the local "
             "backend fails", enc_fn.where if enc_fn is not None else enc.where)
    # ... decided by evaluating the encoder's default() on every member (and on a value it does not know, which must be refused as json does)
    from ..symeval import PureInterp, Obj, Raised, Unsupported
    from ..consteval import EnumVal as _EV

    def _refuse(*a, **k):
        raise Raised("TypeError", "Object is not JSON serializable")
    ip_ = PureInterp(ctx, hooks={"json.JSONEncoder.default": _refuse, "json.encoder.JSONEncoder.default": _refuse, "attr:default": lambda recv, *a: _refuse()})
    enc_self = Obj("encoder", **{"__class__": enc.cls})
    try:
        names_ = {}
        for m_ in enum_members(idx, idx.cls(f"{LOCAL}:LocalStatus")):
            try:
                names_[m_] = ip_.call(enc, (_EV(f"{LOCAL}.LocalStatus", m_),), {}, self_obj=enc_self)
            except Raised as exc_:
                names_[m_] = f"<raises {exc_.kind}>"
        enc_ok = all(v_ == k_ for k_, v_ in names_.items())
        if not enc_ok:
            r1.violation("src/gwf/backends/local.py::CustomEncoder.default::members", f"the pool's JSON encoder maps the task states to {names_}: a reply that carries task states cannot be "
                         "serialised (or carries something the client's LocalStatus[name] does not find), so every state query of the local backend fails", enc.where)
    except Unsupported:
        pass
    r1.check(enc_ok and dec_ok, "src/gwf/backends/local.py::wire-state-encoding", "states travel by member name (encoder .name / decoder LocalStatus[name])",
             "the pool encodes task states differently from how the client decodes them", enc.where)

    from .evalhelpers import cached_witness, report_witness
    from .schedmodel import cluster_witness
    report_witness(r1, "src/gwf/backends::<X>Ops.get_job_states::scheduler-model", "src/gwf/backends/slurm.py:1", cached_witness(ctx, "cluster", cluster_witness),
                   "against a model of squeue/sacct/qstat/bjobs over a history (purged, running, failed, pending, completed with a failed step, held): each id gets the "
                   "class of its own job, in either file order, with accounting on and off", select=lambda d: d.startswith("[states]") and "changes the queue" not in d)

    # ------------------------------------------------------------------ R2 key agreement
    r2 = ctx.rule("R2", "status reads the state of the id written at the last submit; ids agree between writer and reader", min_instances=6)
    tb = idx.cls(f"{BASE}:TrackingBackend")
    from .evalhelpers import eval_status, S
    from .c02 import rule_id_lookup
    out, st_m = eval_status(ctx)
    scon = f"{st_m.module.relpath}::{st_m.qual}"
    zero = out.pop("zero", None)
    r2.check(zero == S("RUNNING"), scon + "::opaque-id", "job ids are opaque: the state of the local pool's task 0 is looked up like any other",
             f"TrackingBackend.status(T) with T tracked as job id 0 (the first task of a fresh local pool, RUNNING there) gives {zero}: the id is judged by its truth value, so a "
             "running target looks never submitted and is submitted again", st_m.where)
    want = {"T": S("RUNNING"), "U": S("UNKNOWN"), "nostate": S("UNKNOWN")}
    r2.check(out == want, scon, "state of the id tracked under the target's own name; UNKNOWN when untracked or without a record",
             f"TrackingBackend.status gives {{tracked+RUNNING: {out.get('T')}, untracked: {out.get('U')}, tracked without record: {out.get('nostate')}}}; "
             "expected RUNNING / UNKNOWN / UNKNOWN (the state of the target's own latest job and of no other)", st_m.where)
    rule_id_lookup(ctx, r2)
    # start of an invocation: the table is what the previous one saved, and exactly its ids are asked about
    from .evalhelpers import eval_backend_init, eval_submit_ids
    from ..symeval import tok
    disk = {"A": "11", "B": "22"}
    init = eval_backend_init(ctx, disk)
    init0 = eval_backend_init(ctx, None)
    icon = f"{tb.module.relpath}::TrackingBackend::start"
    if isinstance(init, str) or isinstance(init0, str):
        r2.violation(icon, f"the backend's initialisers cannot be followed or fail: {init if isinstance(init, str) else init0}", tb.where)
    else:
        want_path = tok("PROJ") + "/.gwf/NAME-backend-tracked.json"
        r2.check(init["tracked"] == disk and init0["tracked"] == {}, icon + "::load", "tracked ids = the saved file's content (empty when there is no file)",
                 f"with {disk} saved earlier the backend starts with {init['tracked']} (no file: {init0['tracked']}): jobs accepted earlier are forgotten", tb.where)
        r2.check(bool(init["queried"]) and sorted(init["queried"][-1]) == sorted(disk.values()) and isinstance(init["states"], dict) and set(init["states"]) == set(disk.values()),
                 icon + "::query", "all tracked ids are passed to ops.get_job_states and its answer becomes the state table",
                 f"tracked ids {sorted(disk.values())}: ops.get_job_states is asked about {init['queried']}, the state table starts as {init['states']}", tb.where)
        init_z = eval_backend_init(ctx, {"A": 0, "B": 1})
        r2.check(not isinstance(init_z, str) and init_z["queried"] and sorted(init_z["queried"][-1]) == [0, 1] and isinstance(init_z["states"], dict) and set(init_z["states"]) == {0, 1},
                 icon + "::opaque-ids", "ids are opaque: the local pool's task 0 is asked about like any other",
                 f"tracked ids [0, 1] (the first two tasks of a fresh local pool): ops.get_job_states is asked about {init_z if isinstance(init_z, str) else init_z['queried']}: an id is "
                 "dropped because of its value, so that target's state is never the state of its job", tb.where)
        r2.check([p_ for p_, m_ in init["opened"] if "w" not in m_][:1] == [want_path], icon + "::path", "state file is <project>/.gwf/<backend name>-backend-tracked.json",
                 f"the tracked-jobs file is read from {[p_ for p_, m_ in init['opened']]}, expected {want_path}: not a per-backend file under the project's .gwf directory", tb.where)
    from .c07 import rule_tracked_dump
    from .persist import rule_close_writes, rule_exit_persists
    rule_tracked_dump(ctx, r2)
    from .persist import rule_table_ownership
    rule_table_ownership(ctx, r2, ("tracked jobs",))
    rule_exit_persists(ctx, r2, ("tracked jobs",))
    rule_close_writes(ctx, r2, ("tracked jobs",))
    # id normalisation per backend: what the scheduler prints on submission -> the id gwf tracks
    for cname, (got_id, m) in eval_submit_ids(ctx).items():
        r2.check(got_id == "4242", f"{m.module.relpath}::{m.qual}::id", "the id handed back is stripped / extracted from the scheduler's output",
                 f"for a scheduler answer naming job 4242 the backend hands back {got_id!r}: the job id returned to gwf is the raw output of the submit command (with its "
                 "trailing newline): the queue listing never matches it, so the job's state is never found and dependents are held on a malformed id", m.where)
    from .evalhelpers import eval_local_job_states, S
    from .evalhelpers import local_client_witness
    report_witness(r2, "src/gwf/backends/local.py::Client.status", "src/gwf/backends/local.py:1", cached_witness(ctx, "local-client", local_client_witness),
                   "the local client's state query: one get_task_states request, the reply decoded to LocalStatus members id by id",
                   select=lambda d: "task_states" in d or "state query" in d)
    got, lo = eval_local_job_states(ctx)
    want = {1: S("RUNNING"), 7: S("FAILED"), 9: S("COMPLETED")}
    r2.check(got == want, f"{lo.module.relpath}::{lo.qual}", "wire keys '1','2','7','9' with tracked ids [1,7,9] -> {1: RUNNING, 7: FAILED (killed), 9: COMPLETED}",
             f"the local backend maps the pool's answer to {got}; expected {want}: JSON object keys arrive as strings and must be matched to the integer ids gwf tracks, "
             "only tracked ids are kept", lo.where)

    # ------------------------------------------------------------------ R3 Slurm precedence, batching
    r3 = ctx.rule("R3", "Slurm: accounting only when enabled, live queue overrides accounting, batches cover all ids", min_instances=4)
    from .evalhelpers import eval_slurm_states, S
    N = 2100
    res_on, err, queries, squeue_calls, gjs = eval_slurm_states(ctx, N, True)
    gcon = f"{gjs.module.relpath}::{gjs.qual}"
    if err is not None:
        r3.violation(gcon, f"the Slurm state query cannot be followed with the scheduler commands replaced by symbolic answers ({err})", gjs.where)
    else:
        asked = [j for q in queries for j in q]
        missing = sorted(set(str(i) for i in range(1, N + 1)) - set(asked), key=int)
        dup = len(asked) - len(set(asked))
        r3.check(not missing and not dup and queries, gcon + "::batches",
                 f"{len(queries)} accounting queries of sizes {[len(q) for q in queries]} cover all {N} tracked ids exactly once",
                 f"with {N} tracked jobs the accounting queries have sizes {[len(q) for q in queries]}: {len(missing)} ids are never queried (first: {missing[:3]}), "
                 f"{dup} are queried twice - jobs beyond the first batch silently fall back to the file-based decision", gjs.where)
        r3.check(res_on.get("1") == S("RUNNING"), gcon + "::precedence", "a job both in the accounting database (FAILED) and in the live queue (R) is RUNNING",
                 f"a job that accounting reports as FAILED but that is in the live queue as running is reported as {res_on.get('1')}: the live queue must take precedence "
                 "(stale accounting data would hide a job that is queued or running again)", gjs.where)
        r3.check(res_on.get("2") == S("COMPLETED") and res_on.get(str(N)) == S("FAILED"), gcon + "::accounting-used", "jobs that left the queue get their state from accounting",
                 f"jobs that left the queue are reported as {res_on.get('2')} / {res_on.get(str(N))} instead of their accounting state (COMPLETED / FAILED)", gjs.where)
        r3.check("999999" not in res_on, gcon + "::own-jobs", "queue lines of untracked jobs are ignored", "a job gwf does not track (another user's) enters the state map", gjs.where)
        r3.check(len(squeue_calls) == 1, gcon + "::squeue", "the live queue is consulted once", f"the live queue is consulted {len(squeue_calls)} times", gjs.where)
    res_off, err2, queries2, squeue2, _m = eval_slurm_states(ctx, 5, False)
    if err2 is not None:
        r3.violation(gcon + "::accounting-off", f"cannot follow the query with accounting disabled ({err2})", gjs.where)
    else:
        r3.check(not queries2, gcon + "::sacct-guard", "with accounting disabled sacct is never run",
                 f"with accounting disabled the accounting database is still queried ({len(queries2)} sacct call(s))", gjs.where)
        r3.check(res_off == {"1": S("RUNNING")} and len(squeue2) == 1, gcon + "::accounting-off", "with accounting disabled the state comes from the live queue only",
                 f"with accounting disabled the state map is {res_off}", gjs.where)

    _r, _e, q3, _s, _m = eval_slurm_states(ctx, 5, False, fail="squeue")
    r3.check(not q3, gcon + "::sacct-guard-on-failure", "with accounting disabled sacct is not run when the queue query fails either",
             f"with accounting disabled and the queue query failing the accounting database is queried ({len(q3)} sacct call(s)): the switch no longer governs which commands run", gjs.where)
    from .shared import rule_factory_default
    rule_factory_default(ctx, r3, "gwf.backends.slurm:create_backend", "accounting_enabled", True,
                         "with the default configuration jobs that left the queue after failing are never looked up, so failures show as not submitted")
    from .shared import rule_config_switch
    rule_config_switch(ctx, r3, "backend.slurm.accounting_enabled", "the Slurm backend receives its accounting switch (create_backend(**namespace))", via_namespace="backend.slurm")

    # ------------------------------------------------------------------ R4 identity across pool restarts (known design gap D23)
    r4 = ctx.rule("R4", "a tracked id denotes the same job across invocations")
    info = scheduler_info(ctx)
    enq = idx.func(f"{LOCAL}:Scheduler.enqueue_task")
    fld = info["cls"].field(info["tidgen"]) if info["tidgen"] else None
    per_process = False
    if fld is not None and isinstance(fld[2], ast.Call):
        for kw in fld[2].keywords:
            if kw.arg == "factory" and idx.canon(kw.value, info["cls"].module) == "itertools.count":
                per_process = True
    plain = any(isinstance(n, ast.Assign) and isinstance(n.value, ast.Call) and idx.canon(n.value.func, enq.module) == "builtins.next"
                for n in walk_no_nested(enq.node))
    if per_process and plain:
        r4.violation(f"src/gwf/backends/local.py::Scheduler.{info['tidgen']}",
                     "local task ids come from a per-process itertools.count() while tracked ids persist in .gwf/local-backend-tracked.json: "
                     "after a restart of the worker pool a tracked id denotes a different (or no) task, so a target can show another task's state",
                     info["cls"].where)
    else:
        r4.ok(f"src/gwf/backends/local.py::Scheduler.{info['tidgen']}", "ids carry a pool-instance discriminator", info["cls"].where)
    # "success or no record falls back to the file-based decision"; live and failure states are shown as such: the scheduler's decision table (C02.R1)
    r5 = ctx.rule("R5", "what the commands show for each job state: live states as submitted/running, failure and cancellation as such, success or no record decided by the files", min_instances=2)
    from .c02 import rule_decision_table      # (C02 imports C08's rules: the shared rule is called directly)
    rule_decision_table(ctx, r5)


def _normalised_id(idx, m, expr):
    """True if the returned id went through strip()/a regex group/int()."""
    if isinstance(expr, ast.Call) and isinstance(expr.func, ast.Attribute) and expr.func.attr in ("strip", "rstrip", "group") and not (
            expr.func.attr != "group" and expr.args and False):
        return True
    if isinstance(expr, ast.Call) and isinstance(expr.func, ast.Name) and expr.func.id == "int":
        return True
    if isinstance(expr, ast.Subscript):
        # re.search(...)[1] or m.group
        inner = expr.value
        if isinstance(inner, ast.Call) and (idx.canon(inner.func, m.module) or "").startswith("re."):
            return True
        if isinstance(inner, ast.Name):
            return _local_normalised(idx, m, inner.id)
    if isinstance(expr, ast.Name):
        return _local_normalised(idx, m, expr.id)
    return False


def _local_normalised(idx, m, name):
    for n in walk_no_nested(m.node):
        if isinstance(n, ast.Assign) and any(isinstance(t, ast.Name) and t.id == name for t in n.targets):
            if _normalised_id(idx, m, n.value):
                return True
            if isinstance(n.value, ast.Call) and (idx.canon(n.value.func, m.module) or "").startswith("re."):
                return True
    return False

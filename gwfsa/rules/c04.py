"""C04 - validation accepts exactly well-formed workflows and names the defect otherwise; no depth-bounded recursion."""
import ast

from ..index import FuncInfo, dotted, walk_no_nested, loc, ancestors
from .c03 import CORE, _loops_over, rule_norm_path
from ..astutil import truth_table
from .persist import _calls

ACTING = {"SCHED_SUBMIT", "SCHED_CANCEL", "SCHED_UNKNOWN", "LOCAL_SUBMIT", "LOCAL_CANCEL", "LOCAL_SHUTDOWN", "FS_DELETE", "STATE_MUT"}
STATE_WRITERS = {"gwf.backends.base:TrackingBackend.close", "gwf.core:FileSpecHashes.close"}


def _raises(idx, fn, node):
    out = []
    for n in ast.walk(node):
        if isinstance(n, ast.Raise) and n.exc is not None:
            e = n.exc.func if isinstance(n.exc, ast.Call) else n.exc
            out.append(((idx.canon(e, fn.module) or dotted(e) or "").rsplit(".", 1)[-1], n))
    return out


def rule_validators(ctx, r):
    idx = ctx.index
    from ..inline import inlined
    ft = inlined(ctx, idx.func(f"{CORE}:Graph.from_targets"))
    con = f"{ft.module.relpath}::{ft.qual}"
    # (a) duplicate producers: raise under `path in provides`, before the store
    dup_ok = False
    for outer, inner in _loops_over(ft, "flattened_outputs"):
        body = inner.body
        for i, st in enumerate(body):
            if isinstance(st, ast.If) and ast.unparse(st.test) == f"{inner.target.id} in provides":
                kinds = [k for k, _n in _raises(idx, ft, st)]
                store_after = any(isinstance(s, ast.Assign) and isinstance(s.targets[0], ast.Subscript) and dotted(s.targets[0].value) == "provides" for s in body[i + 1:])
                store_before = any(isinstance(s, ast.Assign) and isinstance(s.targets[0], ast.Subscript) and dotted(s.targets[0].value) == "provides" for s in body[:i])
                if kinds == ["FileProvidedByMultipleTargetsError"] and store_after and not store_before:
                    dup_ok = True
    r.check(dup_ok, con + "::multiple-providers", "`path in provides` -> FileProvidedByMultipleTargetsError, checked before the producer is stored",
            "a file produced by two targets is not rejected with FileProvidedByMultipleTargetsError before the second producer overwrites the first", ft.where)
    # (b) unresolved inputs
    unres_ok = False
    for outer, inner in _loops_over(ft, "flattened_inputs"):
        for st in ast.walk(inner):
            if isinstance(st, ast.If):
                v = inner.target.id
                kinds = [k for k, _n in _raises(idx, ft, st)]
                atoms = {
                    "unprovided": lambda e, v=v: ast.unparse(e) in (f"{v} in unresolved", f"{v} not in provides"),
                    "exists": lambda e, v=v: ast.unparse(e) == f"fs.exists({v})",
                }
                tt = truth_table(st.test, atoms)  # keys: (exists, unprovided)
                if kinds == ["UnresolvedInputError"] and tt == {(False, False): False, (False, True): True, (True, False): False, (True, True): False}:
                    unres_ok = True
    r.check(unres_ok, con + "::unresolved-input", "an input nobody provides and that does not exist on disk -> UnresolvedInputError",
            "an input that no target produces and that does not exist is not rejected with UnresolvedInputError (or existing files / provided files are rejected)", ft.where)
    # (c) cycle check called unconditionally at top level, after dependencies are complete, before the return
    top = ft.node.body
    call_i = ret_i = None
    for i, st in enumerate(top):
        if any(isinstance(c.func, (ast.Name, ast.Attribute)) and idx.canon(c.func, ft.module) == f"{CORE}.check_for_circular_dependencies" for c in _calls(st)) \
                and isinstance(st, ast.Expr):
            call_i = i
            cc = st.value
        if isinstance(st, ast.Return):
            ret_i = i
    ok = call_i is not None and ret_i is not None and call_i < ret_i
    if ok:
        args = [dotted(a) for a in cc.args] + [dotted(k.value) for k in cc.keywords]
        ok = "dependencies" in args and "targets" in args
    r.check(ok, con + "::cycle-check", "check_for_circular_dependencies(targets, dependencies) on every path before the graph is returned",
            "graph construction can return without having run the cycle check over (targets, dependencies)", ft.where)
    only_return = [n for n in walk_no_nested(ft.node) if isinstance(n, ast.Return)]
    r.check(len(only_return) == 1, con + "::single-exit", "one return, after all three validators", "from_targets has an early return that bypasses validators", ft.where)

    # the cycle checker itself
    cf = idx.func(f"{CORE}:check_for_circular_dependencies")
    ccon = f"{cf.module.relpath}::{cf.qual}"
    p = cf.positional_params()
    visitor = next(iter(cf.nested.values()), None)
    if visitor is None:
        r.violation(ccon, "the DFS visitor of the cycle check was not found", cf.where)
        return
    # all nodes are roots
    nodes_expr = {}
    for n in cf.node.body:
        if isinstance(n, ast.Assign) and isinstance(n.targets[0], ast.Name):
            nodes_expr[n.targets[0].id] = ast.unparse(n.value)
    roots_ok = False
    for n in cf.node.body:
        if isinstance(n, ast.For):
            it = ast.unparse(n.iter)
            it = nodes_expr.get(it, it)
            launches = [c for c in _calls(n) if isinstance(c.func, ast.Name) and c.func.id == visitor.name and dotted(c.args[0]) == dotted(n.target)]
            guards = [a for c in launches for a in ancestors(c) if isinstance(a, ast.If) and a is not n]
            guard_ok = all("fresh" in ast.unparse(g.test) or "== 0" in ast.unparse(g.test) for g in guards)
            if it in (f"{p[0]}.values()", f"list({p[0]}.values())") and launches and guard_ok:
                roots_ok = True
    r.check(roots_ok, ccon + "::all-roots", "the DFS is started from every target that is still unvisited",
            "the cycle search is not started from every target: a cycle that is not reachable from the chosen roots (e.g. one that no endpoint depends on) is accepted",
            cf.where)
    # colour discipline
    v = visitor.positional_params()[0]
    body = visitor.node.body
    mark_started = [i for i, st in enumerate(body) if isinstance(st, ast.Assign) and ast.unparse(st.targets[0]) == f"state[{v}]" and dotted(st.value) == "started"]
    mark_done = [i for i, st in enumerate(body) if isinstance(st, ast.Assign) and ast.unparse(st.targets[0]) == f"state[{v}]" and dotted(st.value) == "done"]
    loops = [i for i, st in enumerate(body) if isinstance(st, ast.For) and ast.unparse(st.iter) == f"{p[1]}[{v}]"]
    disc = bool(mark_started and mark_done and loops and mark_started[0] < loops[0] < mark_done[0])
    raise_ok = rec_ok = False
    if loops:
        lp = body[loops[0]]
        d = dotted(lp.target)
        for st in ast.walk(lp):
            if isinstance(st, ast.If):
                t = ast.unparse(st.test)
                if t == f"state[{d}] == started" and [k for k, _ in _raises(idx, cf, ast.Module(body=st.body, type_ignores=[]))] == ["CircularDependencyError"]:
                    raise_ok = True
                for br_test, br_body in ((st.test, st.body),):
                    pass
            if isinstance(st, ast.If):
                # recursion under fresh (either in body of `== fresh` or orelse chain)
                for sub in ast.walk(st):
                    if isinstance(sub, ast.If) and ast.unparse(sub.test) == f"state[{d}] == fresh":
                        if any(isinstance(c.func, ast.Name) and c.func.id == visitor.name and dotted(c.args[0]) == d for s in sub.body for c in _calls(s)):
                            rec_ok = True
    r.check(disc and raise_ok and rec_ok, ccon + "::three-colour", "started before / done after the dependency loop; started dependency -> CircularDependencyError; fresh -> visit",
            "the three-colour discipline of the cycle search is broken (a back edge to a target on the current path must raise CircularDependencyError, "
            "unvisited dependencies must be visited, the node is finished only after all its dependencies)", visitor.where)
    # error kinds appear nowhere else
    for cls, owner in (("CircularDependencyError", {cf.key, visitor.key}), ("FileProvidedByMultipleTargetsError", {ft.key}), ("UnresolvedInputError", {ft.key})):
        others = []
        for f in idx.functions.values():
            if f.key in owner:
                continue
            for k, n in _raises(idx, f, ast.Module(body=f.node.body, type_ignores=[])):
                if k == cls and idx.finfo_of(n) is f:
                    others.append((f, n))
        r.check(not others, f"src/gwf/core.py::{cls}", "raised only by its validator", f"{cls} is also raised in {[o[0].qual for o in others]}: the error no longer names the defect that applies",
                loc(others[0][1], others[0][0].module) if others else "src/gwf/core.py:1")


def rule_no_skipped_dependencies(ctx, r):
    """A search that marks a target finished must have explored every dependency that was still unvisited: a dependency skipped under some further condition (a depth or
    size cut-off, a budget) is never searched below, yet its ancestors are marked finished - a cycle that closes there is accepted.  No witness workflow of bounded size
    can show a cut-off at depth 500; the shape decides: `state[dep] == fresh` may not be conjoined with anything else where the recursive visit hangs off it."""
    idx = ctx.index
    cf = idx.func(f"{CORE}:check_for_circular_dependencies")
    n = 0
    for f in [cf]:
        names = {g.name for g in cf.nested.values()} | {cf.name}
        for st in ast.walk(f.node):
            if isinstance(st, ast.If) and isinstance(st.test, ast.BoolOp) and isinstance(st.test.op, ast.And):
                conj = [ast.unparse(v) for v in st.test.values]
                fresh = [c for c in conj if "fresh" in c or "== 0" in c or "not in" in c and ("visited" in c or "seen" in c or "state" in c)]
                recursive = any(isinstance(c.func, ast.Name) and c.func.id in names for s in st.body for c in _calls(s))
                if fresh and recursive and len(conj) > len(fresh):
                    n += 1
                    other = [c for c in conj if c not in fresh]
                    r.violation(f"{f.module.relpath}::{f.qual}::skips-unvisited", f"an unvisited dependency is searched only if `{' and '.join(other)}`: otherwise it is skipped, and the target "
                                "that depends on it is still marked finished - a cycle that closes below the skipped dependency (a dependency chain longer than the cut-off) is "
                                "accepted instead of rejected with CircularDependencyError", loc(st, f.module))
    r.ok("src/gwf/core.py::check_for_circular_dependencies::explores-all", f"every unvisited dependency is searched unconditionally ({n} conditional visits)", cf.where)


def rule_validate_before_acting(ctx, r):
    idx = ctx.index
    res = ctx.resolver
    roots = res.command_roots()
    for name in ("run", "cancel", "clean", "touch", "status", "info"):
        root = roots.get(name)
        if root is None:
            continue
        con = f"{root.module.relpath}::{root.qual}"
        from ..inline import inlined
        try:
            root = inlined(ctx, root)   # private helpers such as _load_graph(ctx) are part of the command
        except Exception:
            pass
        body = root.node.body
        gi = None
        for i, st in enumerate(body):
            if any(isinstance(c.func, (ast.Name, ast.Attribute)) and (idx.canon(c.func, root.module) or "").endswith("Graph.from_targets") for c in _calls(st)):
                gi = i
                break
        if gi is None:
            r.violation(con + "::graph", f"`gwf {name}` does not build (and thereby validate) the dependency graph", root.where)
            continue
        bad = None
        for st in body[:gi]:
            for c in _calls(st):
                for callee in res.callees(c, root, {}):
                    if isinstance(callee, FuncInfo):
                        _v, effs, _u = res.reach(callee)
                        for e in effs:
                            if e.kind in ACTING or (e.kind == "FS_WRITE" and e.finfo.key not in STATE_WRITERS and not any(c in STATE_WRITERS for c in e.chain)):
                                bad = (c, e)
                for e in res.node_effects(c, root):
                    if e.kind in ACTING or e.kind == "FS_WRITE":
                        bad = (c, e)
        r.check(bad is None, con + "::validate-first", "graph construction (validation) precedes every submit/cancel/delete/touch/state change",
                f"`{ast.unparse(bad[0])[:60]}` runs before the workflow was validated and can {bad[1].kind} ({bad[1].detail} at {bad[1].where}): "
                "an ill-formed workflow must change nothing" if bad else "", loc(bad[0], root.module) if bad else root.where)


def rule_depth(ctx, r):
    """No recursion whose depth follows dependency edges (workflows with thousands of chained targets must not crash)."""
    idx = ctx.index
    res = ctx.resolver
    # call graph among repo functions
    graph = {}
    sites = {}
    for f in idx.functions.values():
        outs = set()
        for n in walk_no_nested(f.node):
            if isinstance(n, ast.Call):
                for callee in res.callees(n, f, {}):
                    if isinstance(callee, FuncInfo) and (callee.key == f.key or callee.outer is not None or f.outer is not None) and \
                            (callee.module is f.module):
                        outs.add(callee.key)
                        sites.setdefault((f.key, callee.key), []).append(n)
        graph[f.key] = outs

    def reaches(a, b, seen=None):
        seen = seen or set()
        for x in graph.get(a, ()):
            if x == b:
                return True
            if x not in seen:
                seen.add(x)
                if reaches(x, b, seen):
                    return True
        return False

    reach_cmd = set()
    for root in res.command_roots().values():
        visited, _e, _u = res.reach(root)
        reach_cmd |= {k[0] for k in visited}
    ft = idx.func(f"{CORE}:Graph.from_targets")
    n_rec = 0
    for f in sorted(idx.functions.values(), key=lambda x: x.key):
        if not reaches(f.key, f.key):
            continue
        n_rec += 1
        # is the recursive argument drawn from a dependency edge?
        along = None
        for n in walk_no_nested(f.node):
            if isinstance(n, ast.For):
                it = ast.unparse(n.iter)
                if "dependencies[" in it or "dependents[" in it:
                    for c in _calls(n):
                        if c.args and dotted(c.args[0]) == dotted(n.target):
                            for callee in res.callees(c, f, {}):
                                if isinstance(callee, FuncInfo) and (callee.key == f.key or reaches(callee.key, f.key)):
                                    along = (n, c)
        top = f
        while top.outer is not None:
            top = top.outer
        con = f"{f.module.relpath}::{top.qual}::<recursion along dependency edges>" if top is not f else f"{f.module.relpath}::{f.qual}"
        if along is not None:
            # the finding is identified by the public traversal the recursion implements, wherever its body lives (closure, helper class, generator)
            for anchor in (f"{CORE}:check_for_circular_dependencies", "gwf.scheduling:schedule", "gwf.plugins.touch:touch_workflow"):
                a_fi = idx.functions.get(anchor)
                if a_fi is not None and (f.key == anchor or f.key.startswith(anchor + ".") or res.owned_by(f, [anchor])):
                    con = f"{a_fi.module.relpath}::{a_fi.qual}::<recursion along dependency edges>"
        if along is None:
            r.ok(con, "recursive, but not along dependency edges (bounded by container nesting)", f.where)
        elif f.key in reach_cmd or (f.outer is not None and f.outer.key in reach_cmd) or f.key.startswith(f"{CORE}:check_for_circular"):
            r.violation(con, f"recursion along dependency edges (`{ast.unparse(along[1])[:50]}` for each of `{ast.unparse(along[0].iter)[:50]}`): "
                        "a chain of a few hundred to a few thousand targets exceeds Python's recursion limit and the command crashes with RecursionError",
                        loc(along[1], f.module))
        else:
            r.info(con, "recursive along dependency edges but not reachable from any command")
    if n_rec == 0:
        r.ok("src/gwf", "no recursive function in the package", "src/gwf")


def run(ctx):
    r1 = ctx.rule("R1", "the three validators run on every path of graph construction and raise the error kind that applies", min_instances=1)
    from .c03 import graph_witness_summary
    ctx.structural_or_witness(r1, rule_validators, lambda: graph_witness_summary(ctx), "src/gwf/core.py::Graph.from_targets::validation", both=True)
    rule_no_skipped_dependencies(ctx, r1)
    r2 = ctx.rule("R2", "duplicate producers are detected across spellings (normalisation, shared with C03)", min_instances=3)
    rule_norm_path(ctx, r2)
    r3 = ctx.rule("R3", "every command validates the workflow before it submits, cancels, deletes or touches anything", min_instances=6)
    rule_validate_before_acting(ctx, r3)
    r4 = ctx.rule("R4", "no recursion whose depth is the dependency depth (graph building and commands terminate for any size)", min_instances=2)
    rule_depth(ctx, r4)
    r5 = ctx.rule("R5", "every build checks the inputs against the disk as it is now: the stat snapshot is per instance and made afresh by each command", min_instances=4)
    from .shared import rule_per_instance_state, rule_fresh_per_call
    why = "a second graph build in the same process answers exists() from the first build's snapshot, so a vanished source file is accepted (or a new one still rejected)"
    rule_per_instance_state(ctx, r5, ["gwf.core:CachedFilesystem", "gwf.core:Graph"], why)
    rule_fresh_per_call(ctx, r5, "gwf.core:CachedFilesystem", why)
    # ... and against the targets' files as they are now (targets are mutable; a rebuilt graph must see an added input or output)
    from .c01 import rule_flatten
    rule_flatten(ctx, r5)
    # "every input that no target produces exists on disk": existence as the snapshot reports it (one stat, the file a path denotes, whatever its time stamp)
    from .shared import import_rules
    import_rules(ctx, r5, "C01", only={"R6"})
    # ... and the files validated are the ones the workflow file lists: helpers that assemble inputs see one-shot iterables completely
    from .evalhelpers import cached_witness, report_witness, one_shot_witness
    report_witness(r5, "src/gwf/workflow.py::collect::one-shot", "src/gwf/workflow.py:1", cached_witness(ctx, "one-shot", one_shot_witness),
                   "collect() over a generator of records gives what it gives over a list", select=lambda d: d.startswith("collect"))

"""C09 - interrupted runs neither forget nor duplicate jobs the scheduler accepted."""
import ast
import itertools

from ..index import FuncInfo, dotted, walk_no_nested, loc, ancestors
from .persist import (BASE, CORE, _calls, rule_atomic_replace, rule_close_writes, rule_exit_persists, rule_hash_after_accept)


from ..astutil import bool_skeleton


def rule_run_inside_stores(ctx, r1, labels=("backend", "spec hashes")):
    """`gwf run` calls submit_workflow inside the with-blocks of the state stores and hands it the managed objects; when the shape is not
    recognised (ExitStack, nested with, helpers) the run command evaluated with a rejected k-th submission and a failing hash-file write decides."""
    from ..report import Rule
    from .evalhelpers import cached_witness, run_command_witness
    tmp = Rule(ctx, r1.id, r1.title, detached=True)
    _run_inside_stores_structural(ctx, tmp, labels)
    bad = [i for i in tmp.instances if i["verdict"] == "VIOLATION"]
    if bad:
        n_w, diffs, unsup = cached_witness(ctx, "run", run_command_witness)
        diffs = [d for d in diffs if "store" in d or "closed" in d or "saved" in d or "ends with" in d or "forgotten" in d]
        if unsup is None and not diffs:
            for i in tmp.instances:
                if i["verdict"] == "ok":
                    r1.ok(i["construct"], i["detail"], i["where"])
            r1.ok(bad[0]["construct"] + "::witness", f"shape not recognised; {n_w} evaluated invocations (rejected k-th submission, failing hash-file write) close both stores on every exit",
                  bad[0]["where"])
            return
    for i in tmp.instances:
        if i["verdict"] == "ok":
            r1.ok(i["construct"], i["detail"], i["where"])
        elif i["verdict"] == "VIOLATION":
            r1.violation(i["construct"], i["detail"], i["where"])


def _run_inside_stores_structural(ctx, r1, labels=("backend", "spec hashes")):
    idx = ctx.index
    run_f = idx.func("gwf.plugins.run:run")
    rcon = f"{run_f.module.relpath}::{run_f.qual}"
    sw_call = None
    for n in walk_no_nested(run_f.node):
        if isinstance(n, ast.Call) and idx.canon(n.func, run_f.module) == "gwf.scheduling.submit_workflow":
            sw_call = n
    if sw_call is None:
        r1.violation(rcon, "run does not call submit_workflow", run_f.where)
    else:
        managers = {}
        for a in ancestors(sw_call):
            if isinstance(a, (ast.With, ast.AsyncWith)):
                for item in a.items:
                    c = item.context_expr
                    if isinstance(c, ast.Call) and isinstance(item.optional_vars, ast.Name):
                        managers[idx.canon(c.func, run_f.module)] = item.optional_vars.id
        arg_names = {dotted(a) for a in sw_call.args} | {dotted(k.value) for k in sw_call.keywords}
        for fn, label in (("gwf.backends.base.create_backend", "backend"), ("gwf.core.get_spec_hashes", "spec hashes")):
            if label not in labels:
                continue
            var = managers.get(fn) or managers.get(fn.replace("gwf.backends.base.", "gwf.backends."))
            r1.check(var is not None and var in arg_names, f"{rcon}::with-{label.replace(' ', '-')}",
                     f"submit_workflow runs inside `with {fn.rsplit('.', 1)[1]}(...) as {var}` and uses that object",
                     f"the submission loop is not enclosed by the with-block of the {label} store (or uses another object): "
                     "an exception or failing scheduler command ends the run without saving what was accepted", loc(sw_call, run_f.module))


def run(ctx):
    idx = ctx.index
    res = ctx.resolver

    # ---------------- R1 persistence on every exit of the run
    r1 = ctx.rule("R1", "the whole run executes inside with-blocks of both state stores, whose __exit__ always saves", min_instances=6)
    rule_run_inside_stores(ctx, r1)
    rule_exit_persists(ctx, r1)
    from .persist import rule_store_load
    rule_store_load(ctx, r1)
    rule_close_writes(ctx, r1)
    from .c07 import rule_tracked_dump
    rule_tracked_dump(ctx, r1)
    # "Whatever point `gwf run` is interrupted at": an interruption from the keyboard reaches the with-blocks as an exception
    from .shared import rule_signal_dispositions, RUN_ROOTS
    rule_signal_dispositions(ctx, r1, "C09", roots=RUN_ROOTS)
    from .persist import rule_table_ownership
    rule_table_ownership(ctx, r1)

    # an accepted job leaves the tracked table only by being replaced at a new accepted submission: a cancellation the scheduler refuses
    # (the job is still pending or running) must not forget it, or the next run submits a duplicate
    from .evalhelpers import eval_cancel
    from ..symeval import tok as _tok
    cres, tb_cancel = eval_cancel(ctx)
    refused = cres.get("refused")
    r1.check(refused is not None and isinstance(refused[1], dict) and refused[1].get("T") == _tok("ID"), f"{tb_cancel.module.relpath}::{tb_cancel.qual}::refused-keeps-job",
             "a cancellation the scheduler refuses leaves the job tracked",
             f"when the scheduler refuses the cancellation of T's job (still pending), TrackingBackend.cancel ends with {refused[0] if refused else None} and the tracked table is "
             f"{refused[1] if refused else None}: the accepted, still-live job is forgotten and the next run submits a second job for T", tb_cancel.where)
    from .evalhelpers import cached_witness, report_witness, run_command_witness
    report_witness(r1, "src/gwf/plugins/run.py::run::witness-project", "src/gwf/plugins/run.py:1", cached_witness(ctx, "run", run_command_witness),
                   "what was accepted is saved on every exit (rejected k-th submission, failing hash-file write); hashes only for accepted submissions")

    # ---------------- R2 hash only after accept
    r2 = ctx.rule("R2", "a target's spec hash is recorded only if its submission was accepted")
    rule_hash_after_accept(ctx, r2)

    # ---------------- R3 failure detection
    r3 = ctx.rule("R3", "a failing scheduler command surfaces as BackendError; every scheduler command goes through call()", min_instances=3)
    from .evalhelpers import eval_call_failure
    from ..symeval import tok
    table, call_f = eval_call_failure(ctx)
    ccon = f"{call_f.module.relpath}::{call_f.qual}"
    want = {(False, False): tok("STDOUT"), (True, False): "raise BackendError", (False, True): "raise BackendError", (True, True): "raise BackendError"}
    r3.check(table == want, ccon + "::failure-test", "raises BackendError iff the exit status is non-zero or 'error:' appears on stderr; otherwise returns stdout",
             f"call() over (exit!=0, 'error:' on stderr) gives {table}; a failing scheduler command must raise BackendError for each failure kind and a succeeding one "
             "must hand back its stdout (a rejected submission would otherwise be recorded as accepted)", call_f.where)
    for rname, rfn in idx.command_runners().items():
        if rfn.key == call_f.key:
            continue
        t2, _f2 = eval_call_failure(ctx, fn=rfn)
        r3.check(t2 == want, f"{rfn.module.relpath}::{rfn.qual}::failure-test", "the sibling runner applies the same failure test as call()",
                 f"{rfn.qual}() over (exit!=0, 'error:' on stderr) gives {t2}; a failing scheduler command must raise BackendError for each failure kind (a failing "
                 "state query would otherwise read as 'no such job' and the next run submits duplicates)", rfn.where)
    from .schedmodel import cluster_witness
    report_witness(r3, "src/gwf/backends::<X>Ops.submit_target::scheduler-model", "src/gwf/backends/slurm.py:1", cached_witness(ctx, "cluster", cluster_witness),
                   "a submission the scheduler refuses (unknown prerequisite, answer without a job id) raises; the id handed back is the id of the job the scheduler created",
                   select=lambda d: d.startswith("[refuse]") or "hands back" in d)
    from .evalhelpers import local_client_witness
    report_witness(r3, "src/gwf/backends/local.py::Client.submit::accepted-id", "src/gwf/backends/local.py:1", cached_witness(ctx, "local-client", local_client_witness),
                   "a task the pool accepted (also as id 0) is returned as accepted, so it is tracked", select=lambda d: "tid=" in d)
    # the failure test looks for 'error:' in stderr and the ids are parsed from stdout as str: the child's streams are captured, in text mode
    for c_ in _calls(call_f.node):
        cn = idx.canon(c_.func, call_f.module) if isinstance(c_.func, (ast.Name, ast.Attribute)) else None
        if cn in ("subprocess.Popen", "subprocess.run"):
            kw = {k.arg: k.value for k in c_.keywords if k.arg}

            def truthy(name):
                v = kw.get(name)
                return isinstance(v, ast.Constant) and bool(v.value)
            text = truthy("universal_newlines") or truthy("text") or "encoding" in kw
            captured = (("stdout" in kw and "stderr" in kw) or truthy("capture_output"))
            r3.check(text and captured, ccon + "::text-streams", "stdout and stderr of the scheduler command are captured as text",
                     f"`{cn.rsplit('.', 1)[1]}` is started with {'bytes' if not text else 'text'} streams, {'both captured' if captured else 'stdout/stderr not both captured'}: "
                     "the test for 'error:' on stderr and the parsing of job ids from stdout operate on str - with bytes they raise TypeError on every scheduler command, with an "
                     "uncaptured stream a failing command is not recognised", loc(c_, call_f.module))
    # who may use subprocess
    allowed = {"gwf.backends.utils:call", "gwf.workflow:Workflow.shell"}
    runner_keys = sorted({"gwf.backends.utils:call"} | {fi.key for fi in idx.command_runners().values()})   # `call` and its siblings (what each may do is decided above and below)
    n_sites = 0
    for f_ in idx.functions.values():
        if f_.module.name == "gwf.backends.local":
            continue
        for n in walk_no_nested(f_.node):
            if isinstance(n, ast.Call) and isinstance(n.func, (ast.Name, ast.Attribute)):
                c = idx.canon(n.func, f_.module) or ""
                if c.startswith(("subprocess.", "os.system", "os.popen", "os.spawn", "os.exec")):
                    n_sites += 1
                    r3.check(f_.key in allowed or f_.key in runner_keys or res.owned_by(f_, runner_keys), f"{f_.module.relpath}::{f_.qual}::{c}", "subprocess used by an allowed owner (or a private helper only it calls)",
                             f"{c} is used outside backends.utils.call: a scheduler command run here escapes the failure detection", loc(n, f_.module))
    # every Ops method talks to the scheduler through call()
    for mod, cname in (("gwf.backends.slurm", "SlurmOps"), ("gwf.backends.sge", "SGEOps"), ("gwf.backends.lsf", "LSFOps")):
        m = idx.func(f"{mod}:{cname}.submit_target")
        _v, effs, _u = res.reach(m)
        subs = [e for e in effs if e.kind == "SCHED_SUBMIT"]
        r3.check(len(subs) >= 1, f"{m.module.relpath}::{m.qual}::via-call", f"submits through call({subs[0].detail!r})" if subs else "",
                 f"{cname}.submit_target does not submit through backends.utils.call", m.where)

    # a failing state query must not be mistaken for "no job": it propagates
    from .evalhelpers import eval_query_failure, eval_slurm_states
    for mod, cname in (("gwf.backends.slurm", "SlurmOps"), ("gwf.backends.sge", "SGEOps"), ("gwf.backends.lsf", "LSFOps")):
        out, m = eval_query_failure(ctx, mod, cname)
        r3.check(out[0] == "raised" and out[1] == "BackendError", f"{m.module.relpath}::{m.qual}::query-failure", f"a failing {'/'.join(sorted(set(out[2]))) or 'query'} propagates as BackendError",
                 f"with the scheduler's queue/accounting query failing, {cname}.get_job_states {out[0]} {out[1]!r}: tracked jobs that are still pending then look unknown, "
                 "and the next run submits them a second time", m.where)
    # ... and neither does the backend object around the Ops: with the query failing, constructing the backend must fail (or err on the side of "still there") - a
    # state table in which the jobs on record look unknown makes the run submit every one of them again
    from .evalhelpers import eval_backend_init
    bi = eval_backend_init(ctx, {"A": "11", "B": "22"}, query_fails=True)
    tb_ci = idx.cls(f"{BASE}:TrackingBackend")
    if isinstance(bi, str):
        r3.check(not bi.startswith("<Unsupported"), f"{tb_ci.module.relpath}::TrackingBackend::start::query-failure", "a failing state query stops the command before anything is submitted",
                 f"the backend's initialisers cannot be evaluated with a failing query: {bi}", tb_ci.where)
    else:
        st_ = bi.get("states") if isinstance(bi.get("states"), dict) else {}
        blind = [i for i in ("11", "22") if getattr(st_.get(i), "member", "UNKNOWN") == "UNKNOWN"]
        r3.check(not blind, f"{tb_ci.module.relpath}::TrackingBackend::start::query-failure", "a failing state query stops the command before anything is submitted",
                 f"with jobs 11 and 22 on record and the scheduler's state query failing (BackendError), the backend is constructed all the same with the state table {st_}: "
                 f"jobs {blind} look unknown although they may be pending or running, so this run submits their targets a second time", tb_ci.where)
    # a query that "succeeds" with a document cut off half-way (qstat -xml from a busy qmaster) is a failed query too: it must not read as "nothing is queued"
    from .evalhelpers import eval_garbled_query, eval_call_once
    out_g, m_g = eval_garbled_query(ctx, "gwf.backends.sge", "SGEOps")
    if out_g[0] != "unsupported":
        r3.check(out_g[0] == "raised", f"{m_g.module.relpath}::{m_g.qual}::truncated-answer", "a truncated qstat document raises (the run stops) instead of reading as an empty queue",
                 f"with qstat's XML answer cut off half-way SGEOps.get_job_states returns {out_g[1]!r}: every tracked job then looks unknown and the next run submits duplicates of "
                 "jobs that are still queued", m_g.where)
    once, once_unsup = eval_call_once(ctx)
    if once is not None:
        for d_ in once:
            r3.violation(ccon + "::once", d_, call_f.where)
        if not once:
            r3.ok(ccon + "::once", "a submit command is started once; a time limit (if any) kills and reaps the child before the failure is reported", call_f.where)
    from .evalhelpers import eval_mutating_commands_unlimited
    mu_d, mu_n, mu_unsup = eval_mutating_commands_unlimited(ctx)
    for d_ in mu_d:
        r3.violation(ccon + "::mutating-unlimited", d_, call_f.where)
    if not mu_d and mu_unsup is None:
        r3.ok(ccon + "::mutating-unlimited", f"{mu_n} submit/cancel methods evaluated down to subprocess with every optional setting on: no time limit reaches the command", call_f.where)
    elif mu_unsup is not None and not mu_d:
        r3.info(ccon + "::mutating-unlimited", f"not evaluated ({mu_unsup})")
    for failing in ("sacct", "squeue"):
        _r, err, _q, _s, m = eval_slurm_states(ctx, 5, True, fail=failing)
        r3.check(err is not None and err.startswith("BackendError"), f"{m.module.relpath}::{m.qual}::{failing}-failure", f"a failing {failing} alone propagates as BackendError",
                 f"with only {failing} failing, SlurmOps.get_job_states yields {'a state map' if err is None else err} instead of raising BackendError: "
                 "jobs the failed query would have reported look unknown and are submitted again", m.where)

    # ---------------- R4 durability point (D19a)
    r4 = ctx.rule("R4", "an accepted submission is made durable before the next one starts")
    tb_submit = idx.func(f"{BASE}:TrackingBackend.submit")
    _v, effs, _u = res.reach(tb_submit, stop=lambda f: f.cls is not None and f.cls.name.endswith("Ops") or f.key.startswith("gwf.backends.local:Client"))
    writes = [e for e in effs if e.kind == "FS_WRITE" and e.finfo.key.startswith(f"{BASE}:TrackingBackend")]
    if writes:
        r4.ok(f"{tb_submit.module.relpath}::{tb_submit.qual}", f"state persisted at {writes[0].where}", tb_submit.where)
    else:
        r4.violation(f"{tb_submit.module.relpath}::{tb_submit.qual}", "the id of an accepted job lives only in memory until the with-block of the whole run exits: "
                     "a hard kill (SIGKILL, node crash) between two submissions forgets every job accepted so far and the next run submits them again",
                     tb_submit.where)

    # ---------------- R5 atomic replace
    r5 = ctx.rule("R5", "state files are replaced atomically (never truncated in place)", min_instances=2)
    rule_atomic_replace(ctx, r5)
    # "the next invocation ... never duplicates accepted jobs": the id recorded for an accepted job is the id the next invocation asks about and looks up - whatever its
    # value (the local pool's first task is 0)
    r6 = ctx.rule("R6", "the next invocation finds every accepted job again: the recorded id is the one asked about and looked up (C08.R2)", min_instances=6)
    from .shared import import_rules
    import_rules(ctx, r6, "C08", only={"R2"})

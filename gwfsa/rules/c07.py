"""C07 - prerequisites reach each scheduler intact (translation gwf -> command line), ids normalised at the source."""
import ast

from ..index import dotted, walk_no_nested, loc
from ..reference import flags as REF
from ..symeval import Obj, PureInterp, Raised, Unsupported, tok


def _mk_instance(*a, **k):
    from .evalhelpers import make_instance
    return make_instance(*a, **k)

from .c02 import rule_id_lookup
from .c10 import NAME, PROJ, make_target
from .persist import _calls

IDS = [tok("ID1"), tok("ID2"), tok("ID3")]
OUT = {"sbatch": tok("OUT") + "\n", "qsub": tok("OUT") + "\n", "bsub": "Job <" + "4242" + "> is submitted to queue <normal>.\n"}


def submit_argv(ctx, mod, cname, deps):
    idx = ctx.index
    ci = idx.cls(f"{mod}:{cname}")
    fn = idx.method(ci, "submit_target")
    calls = []

    def fake_call(exe, *args, input=None):
        calls.append((exe, list(args), input))
        return OUT.get(exe, "")

    hooks = {"gwf.backends.utils.call": fake_call, "builtins.open": lambda *a, **k: Obj("file"), "attr:write": lambda recv, *a: None}
    interp = PureInterp(ctx, hooks=hooks)
    self_obj = _mk_instance(ctx, ci, "ops", working_dir=PROJ, log_mode="full", accounting_enabled=True)
    ret = interp.call(fn, (make_target(ctx, {}), list(deps)), {}, self_obj=self_obj)
    return fn, calls, ret


def run(ctx):
    idx = ctx.index
    r1 = ctx.rule("R1", "the whole prerequisite list reaches the submit command in the scheduler's documented syntax; none when the list is empty", min_instances=9)
    expect = {
        "slurm": lambda a: [x for x in a if x.startswith("--dependency")] == ["--dependency=afterok:" + ":".join(IDS)],
        "sge": lambda a: "-hold_jid" in a and a[a.index("-hold_jid") + 1: a.index("-hold_jid") + 2] == [",".join(IDS)] and a.count("-hold_jid") == 1,
        "lsf": lambda a: "-w" in a and a[a.index("-w") + 1: a.index("-w") + 2] == [" && ".join(f"done({i})" for i in IDS)] and a.count("-w") == 1,
    }
    human = {"slurm": "--dependency=afterok:id1:id2:id3", "sge": "-hold_jid id1,id2,id3", "lsf": "-w 'done(id1) && done(id2) && done(id3)'"}
    exes = {"slurm": "sbatch", "sge": "qsub", "lsf": "bsub"}
    for name, mod, cname in (("slurm", "gwf.backends.slurm", "SlurmOps"), ("sge", "gwf.backends.sge", "SGEOps"), ("lsf", "gwf.backends.lsf", "LSFOps")):
        con = f"src/{mod.replace('.', '/')}.py::{cname}.submit_target"
        try:
            fn, calls, ret = submit_argv(ctx, mod, cname, IDS)
            fn0, calls0, _ret0 = submit_argv(ctx, mod, cname, [])
        except Raised as exc:
            r1.violation(con, f"submitting a target (with and without prerequisites) raises {exc.kind}: {exc.detail[:100]}", f"src/{mod.replace('.', '/')}.py")
            continue
        except Unsupported as exc:   # the checker's interpreter meets a construct it does not model: no verdict, the check is broken for this tree
            from ..loader import AnalysisError
            raise AnalysisError(f"{con}: the submit command line cannot be derived from the source ({exc})")
        sub = [c for c in calls if c[0] == exes[name]]
        if len(sub) != 1:
            r1.violation(con + "::submit", f"{len(sub)} `{exes[name]}` commands are issued for one target (exactly one expected)", fn.where)
            continue
        argv = sub[0][1]
        r1.check(expect[name](argv), con + "::dependency-syntax", human[name],
                 f"with prerequisites [id1, id2, id3] the command line is {[a.replace('⟦', '<').replace('⟧', '>') for a in argv]}; "
                 f"the scheduler must be told `{human[name]}` (every id, in {name}'s syntax, 'ok'-style so a failed prerequisite blocks the job)", fn.where)
        argv0 = [c for c in calls0 if c[0] == exes[name]][0][1]
        dep_free = not any(("depend" in a or a in ("-hold_jid", "-w") or "done(" in a) for a in argv0)
        r1.check(dep_free, con + "::no-deps", "no dependency flag without prerequisites", f"without prerequisites the command line still contains a dependency flag: {argv0}", fn.where)
        script = sub[0][2]
        r1.check(isinstance(script, str) and script.startswith("#!"), con + "::script-on-stdin", "the compiled script is fed to the submit command",
                 "the submit command does not receive the compiled job script on stdin", fn.where)
        # ids normalised at the source
        if name == "lsf":
            ok = ret == "4242"
        else:
            ok = ret == tok("OUT")
        r1.check(ok, con + "::returned-id", "the id handed back is the scheduler's id, stripped",
                 f"the job id handed back to gwf is {ret!r}: it keeps the raw output (trailing newline) or is not the scheduler's id, so later `-hold_jid`/afterok lists "
                 "and queue lookups use a malformed id", fn.where)
        extra = ["--parsable"] if name == "slurm" else ["-terse"] if name == "sge" else []
        r1.check(all(e in argv for e in extra), con + "::machine-readable", f"{extra or 'regex on bsub output'}",
                 f"`{exes[name]}` is not asked for machine-readable output ({extra}): the id cannot be parsed", fn.where)
    from .evalhelpers import cached_witness, report_witness
    from .schedmodel import cluster_witness
    report_witness(r1, "src/gwf/backends::<X>Ops.submit_target::scheduler-model", "src/gwf/backends/slurm.py:1", cached_witness(ctx, "cluster", cluster_witness),
                   "against a model of sbatch/qsub/bsub (a repeated option replaces the earlier one): 8 submissions on one Ops object with 0, 1, 3, 1025 and 2050 "
                   "prerequisites each hold on exactly the ids given; a refused submission is not repeated with fewer prerequisites",
                   select=lambda d: d.startswith(("[submit]", "[refuse]")) and "no job id" not in d)

    r2 = ctx.rule("R2", "gwf translates every prerequisite target to the id tracked under its name and hands the list to the backend", min_instances=2)
    rule_id_lookup(ctx, r2)
    from .c08 import run as _unused  # noqa: F401  (shared helpers live in c08/persist)
    from .persist import rule_close_writes, rule_exit_persists
    rule_exit_persists(ctx, r2, ("tracked jobs",))
    rule_close_writes(ctx, r2, ("tracked jobs",))
    rule_tracked_dump(ctx, r2)
    from .persist import rule_table_ownership
    rule_table_ownership(ctx, r2, ("tracked jobs",))

    r3 = ctx.rule("R3", "local pool: the id list travels unchanged client -> wire -> scheduler -> task coroutine", min_instances=4)
    lo = idx.func("gwf.backends.local:LocalOps.submit_target")
    p = lo.positional_params()
    ok = any(isinstance(c.func, ast.Attribute) and c.func.attr == "submit" and any(k.arg == "deps" and dotted(k.value) == p[2] for k in c.keywords) or
             (isinstance(c.func, ast.Attribute) and c.func.attr == "submit" and len(c.args) > 1 and dotted(c.args[1]) == p[2]) for c in _calls(lo.node))
    from .evalhelpers import cached_witness, local_client_witness as _lcw, server_session_witness as _ssw
    _wc = cached_witness(ctx, "local-client", _lcw)
    _ws = cached_witness(ctx, "server-session", _ssw)
    client_ok = _wc[2] is None and not [d for d in _wc[1] if "cancel" not in d]   # evaluated: one flushed enqueue_task with all ids, returns the pool's id
    server_ok = _ws[2] is None and not [d for d in _ws[1] if "enqueue_task" in d]
    r3.check(ok or client_ok, f"{lo.module.relpath}::{lo.qual}", "client.submit(target, deps=<all ids>)", "LocalOps.submit_target does not pass the whole id list to the client", lo.where)
    cs = idx.func("gwf.backends.local:Client.submit")
    dp = cs.positional_params()[2]
    sent = None
    for c in _calls(cs.node):
        if isinstance(c.func, ast.Attribute) and c.func.attr == "send":
            for k in c.keywords:
                if k.arg == "deps":
                    sent = ast.unparse(k.value)
    r3.check(sent in (dp, f"{dp} or []", f"list({dp})", f"list({dp} or [])") or client_ok, f"{cs.module.relpath}::{cs.qual}", f"send(..., deps={sent})",
             f"the client sends deps={sent}, not the complete id list", cs.where)
    from .localpool import rule_enqueue_binding
    rule_enqueue_binding(ctx, r3)
    from ..inline import inlined
    hc = inlined(ctx, idx.func("gwf.backends.local:Server.handle_connection"))
    ok = any(isinstance(c.func, ast.Attribute) and c.func.attr == "enqueue_task" and any(
        k.arg == "deps" and isinstance(k.value, ast.Call) and isinstance(k.value.func, ast.Attribute) and k.value.func.attr == "pop" and k.value.args
        and isinstance(k.value.args[0], ast.Constant) and k.value.args[0].value == "deps" for k in c.keywords) for c in _calls(hc.node))
    r3.check(ok or server_ok, f"{hc.module.relpath}::{hc.qual}", "deps=message.pop('deps')", "the server does not hand the message's deps to the scheduler", hc.where)

    from .evalhelpers import local_client_witness
    _n, cdiffs, cunsup = local_client_witness(ctx)
    if cunsup is None:
        cd = [d for d in cdiffs if "cancel" not in d]
        r3.check(not cd, "src/gwf/backends/local.py::LocalOps.submit_target::request", "submit_target sends one flushed enqueue_task with all prerequisite ids and returns the pool's id",
                 "; ".join(cd[:2]), lo.where)
    from .evalhelpers import server_session_witness
    n_w, diffs, unsup = server_session_witness(ctx)
    diffs = [d for d in diffs if "enqueue_task" in d]
    if unsup is None:
        r3.check(not diffs, f"{hc.module.relpath}::{hc.qual}::session", "an enqueue_task request reaches scheduler.enqueue_task with every field (deps included) under its own name",
                 "; ".join(diffs[:2]), hc.where)
    r4 = ctx.rule("R4", "local pool honours the prerequisites: wait for all, start only if all completed (C11)", min_instances=2)
    from .c11 import run as c11_run
    sub = type(ctx)(ctx.prop, ctx.repo, ctx.index, ctx.ev, ctx.tier)
    sub.resolver = ctx.resolver
    sub.shared = ctx.shared
    c11_run(sub)
    for rr in sub.rules:
        for inst in rr.instances:
            if inst["verdict"] == "VIOLATION":
                r4.violation(inst["construct"], inst["detail"], inst["where"])
            elif inst["verdict"] == "ok":
                r4.ok(inst["construct"], inst["detail"], inst["where"])
    r5 = ctx.rule("R5", "composition: every not-complete prerequisite is handed over (C02.R2) and its state is the scheduler's live view (C08.R3)", min_instances=4)
    from .shared import import_rules
    import_rules(ctx, r5, "C02", only={"R1", "R2", "R1b"})
    import_rules(ctx, r5, "C08", only={"R1", "R2", "R3"})   # R1: a job the scheduler holds as suspended, held or requeued is alive - its dependents must wait for it
    # a state query that fails is not an answer: a running prerequisite that looks unknown (and whose output exists) is taken for complete, and its dependent is submitted
    # without waiting for it
    import_rules(ctx, r5, "C09", only={"R3"}, select=lambda c: c.endswith("-failure") or c.endswith("truncated-answer"))


def rule_tracked_dump(ctx, r):
    """What TrackingBackend.close() saves is the in-memory id table (ids recorded by this invocation win over the file), and the next start loads it."""
    from .persist import rule_store_close, rule_store_load
    rule_store_close(ctx, r, which=("tracked jobs",))
    rule_store_load(ctx, r, which=("tracked jobs",))

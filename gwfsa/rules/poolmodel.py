"""Protocol check of a hand-written core pool (a class of the package that takes the place of asyncio.Semaphore in the local scheduler).

The library semaphore is trusted.  A replacement written in the package is evaluated: its `acquire` coroutine and `release` method run on the checker's interpreter,
each coroutine in a helper thread with strict hand-off to a driver that decides WHEN a suspended coroutine is resumed and WHERE a cancellation lands - the schedules
that decide whether a core can be lost or handed out twice (cancellation of a waiter before / after the core was handed to it, hand-off with a second waiter queued).

Futures follow asyncio's documented rules: `await fut` suspends while the future is pending; `Task.cancel()` on a task that waits for a pending future cancels the
future and throws CancelledError at the await; if the future is already done (the wake-up is merely scheduled) the future stays done and CancelledError is thrown at
the await all the same.  Only futures are modelled; a pool built on Event / Condition / Queue / Lock yields no verdict (Unsupported)."""
import ast
import threading

from ..index import ClassInfo
from ..symeval import PureInterp, Obj, Raised, Unsupported


class Future:
    """asyncio.Future as far as a pool needs it."""

    def __init__(self):
        self._done = False
        self._cancelled = False
        self._result = None
        self._exc = None

    def done(self):
        return self._done

    def cancelled(self):
        return self._cancelled

    def set_result(self, v):
        if self._done:
            raise Raised("InvalidStateError", "invalid state")
        self._done, self._result = True, v

    def set_exception(self, e):
        if self._done:
            raise Raised("InvalidStateError", "invalid state")
        self._done, self._exc = True, e

    def cancel(self, msg=None):
        if self._done:
            return False
        self._done = self._cancelled = True
        return True

    def result(self):
        if self._cancelled:
            raise Raised("CancelledError", "")
        if not self._done:
            raise Raised("InvalidStateError", "Result is not set.")
        if self._exc is not None:
            raise self._exc if isinstance(self._exc, Raised) else Raised("Exception", str(self._exc))
        return self._result


class _CoInterp(PureInterp):
    def e_Await(self, n, env, module, depth):
        v = self.eval(n.value, env, module, depth)
        if isinstance(v, Future):
            co = getattr(self._tls, "co", None)
            if co is None:
                raise Unsupported("await of a future outside a driven coroutine")
            if not v.done():
                co.suspend(v)                 # control goes to the driver; back here when it resumes us
            if co.throw:
                co.throw = False
                raise Raised("CancelledError", "cancelled while waiting")
            return v.result()
        return v


class Co:
    """One coroutine call of the interpreted program, driven step by step."""

    def __init__(self, interp, finfo, args, self_obj):
        self.interp, self.finfo, self.args, self.self_obj = interp, finfo, args, self_obj
        self.to_driver = threading.Semaphore(0)
        self.to_co = threading.Semaphore(0)
        self.state = "new"          # new | suspended | done | raised | unsupported
        self.waiting_on = None
        self.value = None
        self.error = None
        self.throw = False

    def _body(self):
        self.interp._tls.co = self
        try:
            self.value = self.interp.call(self.finfo, self.args, {}, self_obj=self.self_obj)
            self.state = "done"
        except Raised as exc:
            self.state, self.error = "raised", exc
        except Unsupported as exc:
            self.state, self.error = "unsupported", exc
        except BaseException as exc:   # noqa: BLE001 - handed to the driver
            self.state, self.error = "unsupported", exc
        self.to_driver.release()

    def suspend(self, fut):
        self.state, self.waiting_on = "suspended", fut
        self.to_driver.release()
        self.to_co.acquire()
        self.state, self.waiting_on = "running", None

    def start(self):
        t = threading.Thread(target=self._body, daemon=True)
        t.start()
        self.to_driver.acquire()
        return self

    def resume(self):
        """Resume a suspended coroutine whose future is done (or that is being cancelled)."""
        assert self.state == "suspended"
        self.to_co.release()
        self.to_driver.acquire()
        return self

    def ready(self):
        return self.state == "suspended" and self.waiting_on is not None and self.waiting_on.done()

    def cancel(self):
        """Task.cancel() while the coroutine is suspended."""
        assert self.state == "suspended"
        self.waiting_on.cancel()      # no effect when the future is already done
        self.throw = True
        return self.resume()


FUTURE_HOOKS = {
    "asyncio.Future": lambda *a, **k: Future(),
    "attr:create_future": lambda recv: Future(),
    "asyncio.get_running_loop": lambda: Obj("loop"), "asyncio.get_event_loop": lambda: Obj("loop"),
    "attr:done": lambda recv: recv.done(), "attr:cancelled": lambda recv: recv.cancelled(),
    "attr:set_result": lambda recv, v=None: recv.set_result(v), "attr:set_exception": lambda recv, e: recv.set_exception(e),
    "attr:cancel": lambda recv, *a: recv.cancel(), "attr:result": lambda recv: recv.result(),
}


class PoolSession:
    def __init__(self, ctx, pool_cls, n):
        self.ctx = ctx
        self.interp = _CoInterp(ctx, hooks=dict(FUTURE_HOOKS))
        self.interp.max_depth = 12
        self.n = n
        sched_cls = ctx.index.cls("gwf.backends.local:Scheduler")
        sched = Obj("scheduler", max_cores=n, **{"__class__": sched_cls})
        # the pool as the scheduler creates it (the decorated default of the resource field)
        self.pool = None
        for fname, _ann, _v in sched_cls.fields:
            for m in sched_cls.methods.values():
                if any((d or "").endswith(f"{fname}.default") for d in m.decorator_names()):
                    try:
                        v = self.interp.call(m, (), {}, self_obj=sched)
                    except (Raised, Unsupported):
                        continue
                    if isinstance(v, Obj) and v.__dict__["_attrs"].get("__class__") is pool_cls:
                        self.pool = v
        if self.pool is None:
            raise Unsupported("the scheduler's pool object could not be constructed")
        self.acq = ctx.index.method(pool_cls, "acquire")
        self.rel = ctx.index.method(pool_cls, "release")
        if self.acq is None or self.rel is None:
            raise Unsupported("the pool class has no acquire/release pair")
        self.cos = []

    def acquire(self):
        co = Co(self.interp, self.acq, (), self.pool).start()
        self.cos.append(co)
        if co.state == "unsupported":
            raise Unsupported(str(co.error))
        return co

    def release(self):
        if isinstance(self.rel.node, ast.AsyncFunctionDef):
            co = Co(self.interp, self.rel, (), self.pool).start()
            if co.state == "unsupported":
                raise Unsupported(str(co.error))
            if co.state == "raised":
                raise co.error
            return
        self.interp.call(self.rel, (), {}, self_obj=self.pool)

    def settle(self):
        """Run every coroutine whose future has been resolved until nothing is ready (the event loop drains its ready queue)."""
        for _ in range(50):
            ready = [c for c in self.cos if c.ready()]
            if not ready:
                return
            for c in ready:
                c.resume()
                if c.state == "unsupported":
                    raise Unsupported(str(c.error))
        raise Unsupported("the pool's coroutines keep waking each other")


def pool_protocol_witness(ctx, pool_cls):
    """-> (number of schedules, differences, unsupported reason)"""
    diffs, n = [], 0

    def holds(c):
        return c.state == "done"

    try:
        # 1. the limit: n acquisitions succeed at once, the next one waits; a release lets exactly one waiter through
        for cores in (1, 2):
            s = PoolSession(ctx, pool_cls, cores)
            got = [s.acquire() for _ in range(cores)]
            if not all(holds(c) for c in got):
                diffs.append(f"a fresh pool of {cores} core(s): the first {cores} acquire() calls do not all succeed at once")
            w1, w2 = s.acquire(), s.acquire()
            s.settle()
            if holds(w1) or holds(w2):
                diffs.append(f"a pool of {cores} core(s) with {cores} holder(s): a further acquire() succeeds - more tasks run than there are cores")
            s.release()
            s.settle()
            if [holds(w1), holds(w2)].count(True) != 1:
                diffs.append(f"a pool of {cores} core(s), two waiters, one release(): {[holds(w1), holds(w2)].count(True)} waiter(s) get a core, expected exactly one")
            n += 1
        # 2. a waiter is cancelled while it still waits; then the holder releases: the core must be available again
        s = PoolSession(ctx, pool_cls, 1)
        x, y = s.acquire(), s.acquire()
        y.cancel()
        if y.state != "raised" or y.error.kind != "CancelledError":
            diffs.append(f"a waiter cancelled while it waits for a core ends {y.state} {getattr(y.error, 'kind', '')}; acquire() must raise CancelledError")
        s.release()
        s.settle()
        z = s.acquire()
        s.settle()
        if not holds(z):
            diffs.append("one core: a task waiting for it is cancelled, then the holder releases: the next acquire() does not get the core - it is lost for the pool's lifetime")
        n += 1
        # 3. the holder releases (the core is handed to the waiter), and the waiter is cancelled BEFORE it is resumed: the core must not vanish
        s = PoolSession(ctx, pool_cls, 1)
        x, y = s.acquire(), s.acquire()
        s.release()
        if y.state == "suspended":
            y.cancel()
            if holds(y):
                # the waiter swallowed the cancellation and kept the core: its caller will release it
                s.release()
        s.settle()
        z = s.acquire()
        s.settle()
        if not holds(z):
            diffs.append("one core: the holder releases while a task waits, and that task is cancelled in the same turn of the event loop (after release() resolved its "
                         "future, before it runs again): CancelledError is raised inside acquire(), the caller never holds the core and nobody gives it back - the next "
                         "acquire() waits forever next to an idle core (asyncio.Semaphore puts the core back in this case)")
        n += 1
        # 4. the same with a second waiter queued: the core must pass on to it
        s = PoolSession(ctx, pool_cls, 1)
        x, y, w = s.acquire(), s.acquire(), s.acquire()
        s.release()
        if y.state == "suspended":
            y.cancel()
            if holds(y):
                s.release()
        s.settle()
        if not holds(w):
            diffs.append("one core, two waiters: the holder releases, the first waiter is cancelled before it runs again: the second waiter never gets the core")
        n += 1
    except Unsupported as exc:
        return n, diffs, str(exc)
    except Raised as exc:
        diffs.append(f"the pool's acquire/release protocol raises {exc.kind}: {exc.detail[:80]}")
    return n, diffs, None

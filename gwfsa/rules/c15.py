"""C15 - clean deletes only unprotected declared outputs of the selected targets."""
import ast

from ..index import FuncInfo, dotted, walk_no_nested, loc
from ..paths import NEXT, RAISE, RETURN, Explorer, Semantics, State, fmt_trace
from .persist import _calls, rule_close_writes, rule_exit_persists


class CleanSem(Semantics):
    """The clean command body: selection flags, prompt, and the delete/invalidate effects with their provenance."""

    loop_bound = 1

    def __init__(self, ctx, finfo, deleting, invalidating):
        super().__init__(ctx.index, finfo)
        self.ctx = ctx
        self.deleting = deleting  # callee keys that reach FS_DELETE
        self.events = []
        self.selections = []  # (targets domain, all domain, [filter texts]) at the filter_generic call
        from ..astutil import single_assignments
        self._table = {k: v for k, v in single_assignments(finfo.node).items()
                       if k not in ("graph", "workflow", "fs", "ctx", "targets", "all", "force", "matches", "spec_hashes", "backend", "filters")}
        self.loops = {}  # loop var -> iter text
        for n in walk_no_nested(finfo.node):
            if isinstance(n, ast.For) and isinstance(n.target, ast.Name):
                self.loops[n.target.id] = ast.unparse(n.iter)

    def domain(self, text):
        if text in ("targets",):
            return ("EMPTY", "NONEMPTY")
        if text in ("force", "all"):
            return (False, True)
        return None

    def truthy(self, v):
        return v not in ("EMPTY", False, None)

    def may_raise(self, node, state):
        out = []
        if isinstance(node, ast.AST):
            for c in _calls(node):
                if isinstance(c.func, (ast.Name, ast.Attribute)) and self.index.canon(c.func, self.module) == "click.confirm":
                    if any(k.arg == "abort" and isinstance(k.value, ast.Constant) and k.value.value is True for k in c.keywords):
                        out.append("click.Abort")
        return out

    def effect(self, node, state):
        if isinstance(node, tuple):
            return state
        s = state
        from ..astutil import expand
        for c in _calls(node):
            cn = self.index.canon(c.func, self.module) if isinstance(c.func, (ast.Name, ast.Attribute)) else None
            if isinstance(c.func, ast.Attribute) and c.func.attr == "append" and c.args and isinstance(c.args[0], ast.Call) and dotted(c.args[0].func) in (
                    "NameFilter", "EndpointFilter", "StatusFilter"):
                txt = expand(self.finfo.node, c.args[0], self._table).replace('"', "'")
                s = s.with_fact("filters", tuple(s.facts.get("filters", ())) + (txt,))
            if cn == "gwf.filtering.filter_generic":
                self.selections.append((s.vars.get("targets", frozenset(["EMPTY", "NONEMPTY"])), s.vars.get("all", frozenset([False, True])),
                                        tuple(s.facts.get("filters", ())), ast.unparse(c)))
            if cn == "click.confirm":
                ab = any(k.arg == "abort" and isinstance(k.value, ast.Constant) and k.value.value is True for k in c.keywords)
                s = s.with_fact("prompted", "abort" if ab else "noabort").note(node, "confirmation prompt")
            callees = [x for x in self.ctx.resolver.callees(c, self.finfo, {}) if isinstance(x, FuncInfo)]
            is_delete = any(x.key in self.deleting for x in callees) or cn in ("os.remove", "os.unlink", "shutil.rmtree") or \
                (isinstance(c.func, ast.Attribute) and c.func.attr in ("unlink", "rmdir"))
            is_inval = isinstance(c.func, ast.Attribute) and c.func.attr == "invalidate"
            if is_delete or is_inval:
                self.events.append(("delete" if is_delete else "invalidate", c, s))
                s = s.with_fact("effects", s.facts.get("effects", 0) + 1).note(node, "delete" if is_delete else "invalidate")
        return s

    def test_hook(self, expr, state):
        e, neg = expr, False
        if isinstance(e, ast.UnaryOp) and isinstance(e.op, ast.Not):
            e, neg = e.operand, True
        if isinstance(e, ast.Name) and e.id in self._table:
            e = self._table[e.id]  # is_protected = path in target.protected()
            if isinstance(e, ast.UnaryOp) and isinstance(e.op, ast.Not):
                e, neg = e.operand, not neg
        if isinstance(e, ast.Compare) and len(e.ops) == 1 and isinstance(e.ops[0], (ast.In, ast.NotIn)):
            right = ast.unparse(e.comparators[0])
            if right.endswith(".protected()"):
                inn = isinstance(e.ops[0], ast.In)
                key = f"protected:{dotted(e.left)}:{right}"
                return [((True ^ neg), state.with_fact(key, inn)), ((False ^ neg), state.with_fact(key, not inn))]
        return None

    def enter_loop(self, node, state):
        return True, True


def _run_structural(ctx):
    idx = ctx.index
    res = ctx.resolver
    from ..inline import inlined
    clean = inlined(ctx, idx.func("gwf.plugins.clean:clean"), keep={"_delete_file", "_format_size"})
    ccon = f"{clean.module.relpath}::{clean.qual}"

    # ---------------- R1 provenance of every delete
    r1 = ctx.rule("R1", "files are deleted only by clean (unprotected flattened outputs of matched targets) and by run's log cleaning", min_instances=3)
    deleters = {}
    for f in idx.functions.values():
        for n in walk_no_nested(f.node):
            for e in res.node_effects(n, f):
                if e.kind == "FS_DELETE":
                    deleters.setdefault(f.key, []).append(e)
    allowed = {"gwf.plugins.clean:_delete_file", "gwf.plugins.clean:clean", "gwf.plugins.run:clean_logs"}
    for key, effs in sorted(deleters.items()):
        f = idx.functions[key]
        owned = key in allowed or res.owned_by(f, ["gwf.plugins.clean:clean", "gwf.plugins.run:clean_logs", "gwf.plugins.run:run"])
        r1.check(owned, f"{f.module.relpath}::{f.qual}::delete", f"{len(effs)} delete site(s) in an owner (or a helper only its owner calls)",
                 f"{f.qual} deletes files ({effs[0].detail}): only `gwf clean` and the log cleaning of `gwf run` may remove anything", effs[0].where)
    # one declared path = one file: a recursive delete removes whatever lies below a declared directory, none of which was checked against protect / endpoints / declarations
    for key, effs in sorted(deleters.items()):
        f = idx.functions[key]
        for e in effs:
            d = str(e.detail)
            if d in ("shutil.rmtree", "os.removedirs") or d.endswith("rmtree") or d.endswith("removedirs"):
                r1.violation(f"{f.module.relpath}::{f.qual}::recursive-delete", f"{f.qual} removes a whole directory tree ({d}): when a target declares a directory as output, every file "
                             "below it is deleted without the protect / endpoint / declared-output test that is made per declared path - protected files, other targets' outputs "
                             "and files no target declares are removed", e.where)
                r1.instances[-1]["from_witness"] = True     # the witness project declares no directory: its agreement says nothing about this
    if not any(k.startswith("gwf.plugins.clean:") for k in deleters):
        r1.violation(ccon + "::delete", "clean never deletes anything: unprotected outputs of selected targets are not removed", clean.where)
    # _delete_file deletes its own parameter
    df = idx.maybe_func("gwf.plugins.clean:_delete_file")
    deleting = set()
    if df is not None:
        deleting.add(df.key)
        p = df.positional_params()[0]
        ok = all(e.node.args and dotted(e.node.args[0]) == p for e in deleters.get(df.key, []))
        r1.check(ok and deleters.get(df.key), f"{df.module.relpath}::{df.qual}", "removes exactly the path it is given", "_delete_file removes something else than its argument", df.where)
    sem = CleanSem(ctx, clean, deleting, None)
    ex = Explorer(sem)
    outs = ex.run(State())
    dels = [e for e in sem.events if e[0] == "delete"]
    invs = [e for e in sem.events if e[0] == "invalidate"]
    if not dels:
        r1.violation(ccon + "::delete-site", "no delete call found in the clean command", clean.where)
    for _k, call, st in dels:
        arg = call.args[0] if call.args else None
        var = dotted(arg) if arg is not None else None
        it = sem.loops.get(var)
        where = loc(call, clean.module)
        if it is None or not it.endswith(".flattened_outputs()"):
            r1.violation(ccon + "::delete-arg", f"the deleted path `{ast.unparse(arg) if arg is not None else None}` does not range over target.flattened_outputs() "
                         f"(it ranges over `{it}`): inputs, logs or other files could be removed", where, fmt_trace(st, clean.module))
            continue
        tvar = it[: -len(".flattened_outputs()")]
        tit = sem.loops.get(tvar)
        if tit != "matches":
            r1.violation(ccon + "::delete-target", f"outputs are deleted for `{tvar}` ranging over `{tit}`, not over the selected matches", where)
            continue
        key = f"protected:{var}:{tvar}.protected()"
        if st.facts.get(key) is not False:
            r1.violation(ccon + "::protected", "an output can be deleted on a path where `path in target.protected()` was not established to be false: "
                         "protected files are removed", where, fmt_trace(st, clean.module))
        else:
            r1.ok(ccon + "::delete", f"delete({var}) for {var} in {it}, {tvar} in matches, not protected", where)

    # ---------------- R2 selection
    r2 = ctx.rule("R2", "selection: name filter iff targets given; endpoints excluded unless --all", min_instances=2)
    want_name = "NameFilter(patterns=targets)"
    want_ep = "EndpointFilter(endpoints=graph.endpoints(), mode='exclude')"
    problems = []
    seen_combo = set()
    for tdom, adom, filters, calltxt in sem.selections:
        for t in tdom:
            for a in adom:
                seen_combo.add((t, a))
                exp = ([want_name] if t == "NONEMPTY" else []) + ([want_ep] if a is False else [])
                if sorted(filters) != sorted(exp):
                    problems.append(f"targets {'given' if t == 'NONEMPTY' else 'not given'}, --all {'on' if a else 'off'}: filters {list(filters)} (expected {exp})")
        if "graph" not in calltxt:
            problems.append(f"the filters are not applied to the graph's targets ({calltxt})")
    if not sem.selections:
        problems.append("no filter_generic(...) call computes the matched targets")
    elif len(seen_combo) < 4:
        problems.append("not every combination of (targets given, --all) reaches the selection")
    r2.check(not problems, ccon + "::filters", "NameFilter(patterns=targets) iff targets are given; EndpointFilter(graph.endpoints(), mode='exclude') iff not --all",
             "the selection of targets to clean is wrong: " + "; ".join(problems[:3]) + " - without --all the outputs of endpoint targets must be kept, and only named targets are cleaned",
             clean.where)
    from .shared import rule_name_selection, rule_flag_default
    rule_name_selection(ctx, r2, "the targets of `gwf clean PATTERN...`")
    rule_flag_default(ctx, r2, "gwf.plugins.clean:clean", "--all", "endpoint outputs would be removed although --all was not given")
    rule_flag_default(ctx, r2, "gwf.plugins.clean:clean", "--force", "cleaning everything would never ask for confirmation")
    from .shared import rule_targets_argument, rule_calls_bind
    rule_calls_bind(ctx, r2, ("gwf.plugins.clean",))
    rule_targets_argument(ctx, r2, "gwf.plugins.clean:clean", "`gwf clean [NAMES]`")
    m_ok = True
    epf = idx.func("gwf.filtering:EndpointFilter.predicate")
    pol = {}
    for n in walk_no_nested(epf.node):
        if isinstance(n, ast.If) and isinstance(n.test, ast.Compare) and isinstance(n.test.comparators[0], ast.Constant):
            for s_ in n.body:
                if isinstance(s_, ast.Return):
                    pol[n.test.comparators[0].value] = ast.unparse(s_.value)
    r2.check(pol.get("exclude") == "target not in self.endpoints", f"{epf.module.relpath}::{epf.qual}", "exclude drops endpoints", f"EndpointFilter exclude polarity is {pol.get('exclude')}", epf.where)

    # ---------------- R3 prompt dominates effects
    # "the outputs of endpoint targets are kept": endpoints as the graph computes them (no phantom dependents entries, at any log level)
    from .shared import import_rules
    import_rules(ctx, r2, "C03", only={"R3"})
    r3 = ctx.rule("R3", "without targets and --force the confirmation prompt (abort on decline) precedes every effect")
    bad = None
    for kind, call, st in sem.events:
        t = st.vars.get("targets", frozenset(["EMPTY", "NONEMPTY"]))
        f_ = st.vars.get("force", frozenset([False, True]))
        need = "EMPTY" in t and False in f_
        if need and st.facts.get("prompted") != "abort":
            bad = (kind, call, st)
            break
    r3.check(bad is None and sem.events, ccon + "::prompt", f"{len(sem.events)} effect state(s), all after the prompt when it is required",
             f"a {bad[0] if bad else 'n effect'} is reachable with no targets and no --force before the user confirmed (or the prompt does not abort on decline)",
             loc(bad[1], clean.module) if bad else clean.where, fmt_trace(bad[2], clean.module) if bad else None)
    pr = [c for c in _calls(clean.node) if isinstance(c.func, (ast.Name, ast.Attribute)) and idx.canon(c.func, clean.module) == "click.confirm"]
    r3.check(bool(pr), ccon + "::prompt-exists", "confirmation prompt present", "clean has no confirmation prompt", clean.where)

    # ---------------- R4 every match is invalidated, every unprotected output removed
    r4 = ctx.rule("R4", "every matched target's spec hash is forgotten and every unprotected output goes through the delete", min_instances=3)
    inv_ok = False
    for _k, call, st in invs:
        a = dotted(call.args[0]) if call.args else None
        if sem.loops.get(a) == "matches":
            inv_ok = True
    r4.check(inv_ok, ccon + "::invalidate", "spec_hashes.invalidate(target) for target in matches", "the spec hashes of the cleaned targets are not invalidated one by one", clean.where)
    # the only way to skip an output is the protected branch
    del_loops = [lp for lp in walk_no_nested(clean.node) if isinstance(lp, ast.For) and any(c is e[1] for e in dels for c in _calls(lp))]
    skips = [n for lp in del_loops for n in ast.walk(lp) if isinstance(n, (ast.Continue, ast.Break)) and not getattr(n, "_from_return", False)]
    bad_skip = []
    for n in skips:
        p = n._parent
        from ..astutil import expand as _exp
        ok = isinstance(p, ast.If) and ".protected()" in _exp(clean.node, p.test) and isinstance(n, ast.Continue)
        if not ok:
            bad_skip.append(n)
    r4.check(not bad_skip, ccon + "::skips", "the protected branch is the only skip in the output loop",
             "an output can be skipped (continue/break) for another reason than being protected: existing unprotected outputs would survive", loc(bad_skip[0], clean.module) if bad_skip else clean.where)
    from ..astutil import expand as _exp2
    with_ok = any(isinstance(n, ast.With) and any("get_spec_hashes(" in _exp2(clean.node, i.context_expr) for i in n.items) and any(
        isinstance(c.func, ast.Attribute) and c.func.attr == "invalidate" for c in _calls(n)) for n in walk_no_nested(clean.node))
    r4.check(with_ok, ccon + "::with", "invalidations happen inside the with-block of the hash store (saved on exit)",
             "the invalidations are not enclosed by the with-block of the spec-hash store", clean.where)
    rule_exit_persists(ctx, r4, ("spec hashes",))
    rule_close_writes(ctx, r4, ("spec hashes",))
    # FileSpecHashes.invalidate removes the record of target.name, tolerating a missing one
    inv = idx.func("gwf.core:FileSpecHashes.invalidate")
    txt = ast.unparse(inv.node)
    r4.check(("del self.hashes[target.name]" in txt and "KeyError" in txt) or "self.hashes.pop(target.name, None)" in txt, f"{inv.module.relpath}::{inv.qual}",
             "removes the record stored under target.name (missing record tolerated)", "FileSpecHashes.invalidate does not remove the record of target.name", inv.where)

    # ---------------- R5 protection is spelling-insensitive (shared with C03)
    r6 = ctx.rule("R6", "the clean command evaluated on a witness project: 9 invocations (selection x --all x --force x prompt) remove and forget exactly what the property prescribes")
    from .evalhelpers import clean_command_witness
    n_w, diffs, unsup = clean_command_witness(ctx)
    ccon6 = "src/gwf/plugins/clean.py::clean::witness-project"
    if unsup is not None and not diffs:
        r6.info(ccon6, f"not evaluated ({unsup}); the structural rules R1-R4 decide")
        r6.ok(ccon6 + "::fallback", "decided structurally (R1-R4)", "src/gwf/plugins/clean.py:1")
    elif diffs:
        for d in diffs[:3]:
            r6.violation(ccon6, d, "src/gwf/plugins/clean.py:1")
    else:
        r6.ok(ccon6, f"{n_w} invocations agree with the property (files removed, hashes forgotten, prompt, nothing on decline)", "src/gwf/plugins/clean.py:1")
    r5 = ctx.rule("R5", "protected paths and outputs are normalised by the same function on every path")
    from .c03 import rule_norm_path
    rule_norm_path(ctx, r5)
    # what Target.protected() and Target.flattened_outputs() yield for the declared names (taken literally, whatever characters they contain)
    from .c01 import rule_flatten
    rule_flatten(ctx, r5)
    # the path that is deleted is the DECLARED path: normalisation is lexical.  Resolving symbolic links would make clean remove the file a link points to
    # (a shared raw file, another project's data) and leave the declared link behind
    seen, todo, n_fn = set(), [idx.maybe_func("gwf.core:Target.flattened_outputs"), idx.maybe_func("gwf.core:Target.protected")], 0
    while todo:
        f = todo.pop()
        if f is None or f.key in seen:
            continue
        seen.add(f.key)
        n_fn += 1
        for c in _calls(f.node):
            canon = idx.canon(c.func, f.module) if isinstance(c.func, (ast.Name, ast.Attribute)) else None
            attr = c.func.attr if isinstance(c.func, ast.Attribute) else None
            if canon in ("os.path.realpath", "os.readlink", "os.path.samefile") or (attr in ("resolve", "readlink", "samefile") and not (canon or "").startswith("gwf.")):
                r5.violation(f"{f.module.relpath}::{f.qual}::follows-symlinks", f"{f.qual} resolves symbolic links ({canon or '.' + attr}) while normalising a declared path: for an output "
                             "that is a symlink (or lies below a symlinked directory) `gwf clean` then deletes the link's target - a file no target declares - instead of the declared path",
                             loc(c, f.module))
            try:
                for callee in res.callees(c, f, {}):
                    fi = getattr(callee, "finfo", callee)
                    if hasattr(fi, "key") and fi.key.startswith("gwf.core:"):
                        todo.append(fi)
            except Exception:
                pass
    r5.ok("src/gwf/core.py::path-normalisation::lexical", f"{n_fn} function(s) between a declared output and the path handed to the delete: none resolves symbolic links", "src/gwf/core.py:1")
    # ... and reach that function: the workflow API hands the protect entries on as written
    from .evalhelpers import cached_witness, report_witness, workflow_api_witness
    report_witness(r5, "src/gwf/workflow.py::Workflow::protect", "src/gwf/workflow.py:1", cached_witness(ctx, "workflow-api", workflow_api_witness),
                   "Workflow.target / target_from_template keep protect entries whatever their spelling", select=lambda d: "protect" in d)
    from .evalhelpers import one_shot_witness
    report_witness(r5, "src/gwf/workflow.py::Workflow.target::protect-one-shot", "src/gwf/workflow.py:1", cached_witness(ctx, "one-shot", one_shot_witness),
                   "protect given as a generator reaches the target complete", select=lambda d: "protect" in d)


def run(ctx):
    """Structural rules first; the command evaluated on the witness project decides where they do not recognise the shape."""
    from ..loader import AnalysisError
    from .evalhelpers import cached_witness, clean_command_witness
    w = cached_witness(ctx, "clean_command_witness", clean_command_witness)
    n0 = len(ctx.rules)
    try:
        _run_structural(ctx)
    except (AnalysisError, Exception) as exc:
        if isinstance(exc, (NameError, ImportError, UnboundLocalError)):
            raise       # a defect of the checker itself, never a reason to fall back
        if w[2] is not None and not w[1]:
            raise
        r0 = ctx.rule("R0", "the structural rules cannot follow this shape of the command; decided by its evaluation on the witness project")
        r0.info("src/gwf/plugins/clean.py::clean", f"structural analysis stopped: {type(exc).__name__}: {str(exc)[:120]}")
        for d in w[1][:3]:
            r0.violation(r0.id + "::witness", d, "")
        for r in ctx.rules[n0:]:
            r.min_instances = 0
    if not w[1]:
        ctx.reconcile(ctx.rules[n0:], lambda c: "plugins/clean.py" in c, w, "src/gwf/plugins/clean.py::clean", "src/gwf/plugins/clean.py:1")

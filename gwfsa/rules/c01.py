"""C01 - the up-to-date decision follows make semantics on files, timestamps and spec."""
import ast
import types

from ..index import dotted, walk_no_nested, loc, ancestors, FUNC_TYPES
from ..paths import RAISE, RETURN, Explorer, Semantics, State, fmt_trace
from .persist import rule_hash_after_accept
from .schedtable import SCHED, _calls, explore_should_run, explore_schedule

CORE = "gwf.core"


def _should_run_table_structural(ctx, r):
    fi, sem, outs = explore_should_run(ctx)
    con = f"{fi.module.relpath}::{fi.qual}"
    bad = []
    n_false = 0
    for o in outs:
        if o.kind != RETURN:
            bad.append((o, f"should_run can end with {o.kind} {o.payload}"))
            continue
        v = o.payload.value if isinstance(o.payload, ast.Constant) else None
        if v not in (True, False):
            bad.append((o, f"should_run returns `{ast.unparse(o.payload) if o.payload is not None else None}`, not a decided boolean"))
            continue
        spec_changed = None
        for hv in list(sem.hash_vars) + [f"{sem.hashes_p}.has_changed({sem.target_p})"]:
            d = o.state.vars.get(hv)
            if d is not None:
                spec_changed = d == frozenset(["HASH"]) if len(d) == 1 else None
        f = o.state.facts
        fresh_conditions = (spec_changed is False and not f.get("missing") and f.get("no_outputs") is False and f.get("newer") is False
                            and f.get("exist_loop_done"))
        if v is False:
            n_false += 1
            if not fresh_conditions:
                why = []
                if spec_changed is not False:
                    why.append("the spec-changed test was not passed as 'unchanged'")
                if f.get("missing"):
                    why.append("an output is missing")
                if not f.get("exist_loop_done"):
                    why.append("the existence of every output was not checked")
                if f.get("no_outputs") is not False:
                    why.append("the target was not established to declare at least one output")
                if f.get("newer") is not False:
                    why.append("the newest-input/oldest-output comparison was not passed as 'not newer'")
                bad.append((o, "should_run returns False (up to date, not submitted) on a path where " + "; ".join(why)))
        else:
            if fresh_conditions:
                bad.append((o, "should_run returns True although the spec is unchanged, all outputs exist, there is at least one output and no input is newer"))
    if n_false == 0:
        bad.append((None, "should_run never returns False: every target is always stale"))
    seen = set()
    for o, msg in bad:
        if msg in seen:
            continue
        seen.add(msg)
        r.violation(f"{con}::{len(seen)}", msg, fi.where, fmt_trace(o.state, fi.module) if o else None)
    if not bad:
        r.ok(con, f"{len(outs)} paths; False is returned on exactly the path (spec unchanged, all outputs exist, >=1 output, no input newer)", fi.where)


def _agg_details(idx, fi, sem, call):
    """Check max/min(<gen over all flattened X> ...) : returns (ok, message)."""
    if not call.args:
        return False, "no iterable"
    gen = call.args[0]
    if not isinstance(gen, (ast.GeneratorExp, ast.ListComp, ast.SetComp)):
        return False, f"aggregates `{ast.unparse(gen)[:50]}` instead of a comprehension over all declared files"
    if len(gen.generators) != 1:
        return False, "nested comprehension"
    g = gen.generators[0]
    if g.ifs:
        return False, f"the comprehension filters files (`if {ast.unparse(g.ifs[0])}`)"
    it = sem.xt(g.iter)
    if it not in (f"{sem.target_p}.flattened_inputs()", f"{sem.target_p}.flattened_outputs()"):
        return False, f"iterates `{it[:60]}` rather than all flattened files"
    v = g.target.id if isinstance(g.target, ast.Name) else None
    elt = gen.elt
    first = elt.elts[0] if isinstance(elt, ast.Tuple) and elt.elts else elt
    if ast.unparse(first) != f"{sem.fs_p}.changed_at({v})":
        return False, f"compares `{ast.unparse(first)[:50]}` instead of the modification time of each file"
    return True, ""


def _comparison_structural(ctx, r):
    idx = ctx.index
    fi, sem, outs = explore_should_run(ctx)
    con = f"{fi.module.relpath}::{fi.qual}::comparison"
    cmp_nodes = []
    for n in walk_no_nested(fi.node):
        if isinstance(n, ast.Compare) and len(n.ops) == 1 and isinstance(n.ops[0], (ast.Gt, ast.Lt, ast.GtE, ast.LtE)):
            names = {dotted(n.left), dotted(n.comparators[0])}
            if names & sem.in_ts and names & sem.out_ts:
                cmp_nodes.append(n)
    if not cmp_nodes:
        r.violation(con, "no comparison between the newest input time and the oldest output time found (operands must be max over all inputs / min over all outputs)",
                    fi.where)
        return
    for n in cmp_nodes:
        l, op = dotted(n.left), n.ops[0]
        in_left = l in sem.in_ts
        strict_newer = (in_left and isinstance(op, ast.Gt)) or (not in_left and isinstance(op, ast.Lt))
        # the branch taken when the comparison holds must be the 'stale' one (checked by the path table); here: strictness and direction
        r.check(strict_newer, con, "stale iff newest input > oldest output (strict)",
                f"the staleness test is `{ast.unparse(n)}`: it must be the strict `newest input > oldest output` "
                "(with >= an output written in the same clock tick as its input never becomes up to date; reversed operands invert the decision)",
                loc(n, fi.module))
    # the aggregates
    for n in walk_no_nested(fi.node):
        if isinstance(n, ast.Assign):
            agg = sem._aggregate(n.value)
            if not agg:
                continue
            fn, which, call = agg
            want = "max" if which == "inputs" else "min"
            c2 = f"{fi.module.relpath}::{fi.qual}::{which}"
            ok, msg = _agg_details(idx, fi, sem, call)
            if fn != want:
                r.violation(c2, f"the {which} are aggregated with {fn}(): the decision needs the {'newest input' if which == 'inputs' else 'oldest output'} ({want})",
                            loc(n, fi.module))
            elif not ok:
                r.violation(c2, f"{want}() over the {which}: {msg}", loc(n, fi.module))
            else:
                r.ok(c2, f"{want}(fs.changed_at(p) for p in all flattened {which})", loc(n, fi.module))
            if which == "inputs":
                d = [kw.value for kw in call.keywords if kw.arg == "default"]
                dtxt = ast.unparse(d[0]) if d else None
                if d:
                    # named constants for the neutral timestamp
                    for nm in [x for x in ast.walk(d[0]) if isinstance(x, ast.Name)]:
                        cv = idx.globals.get(fi.module.name, {}).get(nm.id)
                        if cv is not None:
                            dtxt = dtxt.replace(nm.id, ast.unparse(cv))
                r.check(d and "-inf" in dtxt.replace("'", "").replace('"', "").replace(" ", ""), c2 + "::default", "no inputs -> -inf (never newer)",
                        f"max over no inputs defaults to {dtxt}: a target without inputs must never be stale because of timestamps", loc(n, fi.module))
    if not sem.in_ts or not sem.out_ts:
        r.violation(con, "newest-input / oldest-output aggregates not found", fi.where)


def _guard_order_structural(ctx, r):
    fi, sem, outs = explore_should_run(ctx)
    con = f"{fi.module.relpath}::{fi.qual}"
    bad = [o for o in outs if o.state.facts.get("agg_outputs") and not o.state.facts["agg_outputs"][1]]
    r.check(not bad, con + "::exists-before-mtime", "the existence loop over all outputs completes before their modification times are read",
            "modification times of the outputs are read on a path that did not first check that every output exists (FileNotFoundError instead of 'shouldrun')",
            fi.where, fmt_trace(bad[0].state, fi.module) if bad else None)
    # existence loop ranges over all flattened outputs
    loops = [n for n in walk_no_nested(fi.node) if isinstance(n, ast.For) and f"{sem.fs_p}.exists(" in ast.unparse(n)]
    ok = any(sem.xt(n.iter) == f"{sem.target_p}.flattened_outputs()" for n in loops)
    r.check(ok, con + "::exists-loop", "for path in target.flattened_outputs(): if not fs.exists(path): return True",
            "the existence check does not range over all flattened outputs", fi.where)
    first = [o for o in outs if o.state.facts.get("hash_first") is False]
    r.check(not first, con + "::spec-first", "the spec-change test comes before any file test",
            "a file test precedes the spec-change test", fi.where)


RAW = ("inputs", "outputs", "protect")
DECISION_MODULES = ("gwf.scheduling", "gwf.plugins.clean", "gwf.plugins.touch", "gwf.plugins.run", "gwf.plugins.status", "gwf.plugins.cancel",
                    "gwf.filtering", "gwf.backends.base", "gwf.backends.slurm", "gwf.backends.sge", "gwf.backends.lsf", "gwf.backends.local")


def rule_shape_independence(ctx, r):
    idx = ctx.index
    n_sites = 0
    for f in idx.functions.values():
        in_graph = f.module.name == CORE and f.cls is not None and f.cls.name == "Graph"
        if f.module.name not in DECISION_MODULES and not in_graph:
            continue
        for n in walk_no_nested(f.node):
            if isinstance(n, ast.Attribute) and n.attr in RAW and isinstance(n.ctx, ast.Load):
                base = dotted(n.value)
                if base in ("self",) and f.cls is not None and f.cls.name in ("TargetList",):
                    continue
                n_sites += 1
                r.violation(f"{f.module.relpath}::{f.qual}::{ast.unparse(n)}", f"decision/effect code reads the raw container `{ast.unparse(n)}`: the result then depends on "
                            "how the files are grouped (an empty named group like {'A': []} is truthy but declares no file); use flattened_inputs/outputs/protected()",
                            loc(n, f.module))
    uses = sum(1 for f in idx.functions.values() for n in walk_no_nested(f.node)
               if isinstance(n, ast.Call) and isinstance(n.func, ast.Attribute) and n.func.attr in ("flattened_inputs", "flattened_outputs", "protected"))
    if n_sites == 0:
        r.ok("decision-and-effect-code", f"no raw .inputs/.outputs/.protect read in scheduling, Graph, clean, touch, run, status, backends; {uses} uses of the flattened accessors", "src/gwf")
    r.check(uses >= 8, "flattened-accessor-uses", f"{uses} uses", f"only {uses} uses of the flattened accessors found (expected >= 8)", "src/gwf")


def rule_flatten(ctx, r):
    """_flatten is total over str/PathLike leaves, mappings (values) and iterables; the accessors flatten and normalise their own attribute.
    Decided by template evaluation of the pure functions over a witness set of container shapes (the function only branches on the
    kind of container, every kind is represented)."""
    from ..symeval import Obj, PureInterp, Raised, Unsupported, tok
    idx = ctx.index
    fl = idx.func(f"{CORE}:_flatten")
    con = f"{fl.module.relpath}::{fl.qual}"
    interp = PureInterp(ctx)
    pl = Obj("pathlike", __fspath__="x")
    witnesses = [
        ("a", ["a"]), (["a", "b"], ["a", "b"]), ({"x": "a", "y": ["b", ["c"]]}, ["a", "b", "c"]), ([[]], []), ({"A": []}, []), ([], []), ({}, []),
        ([["a"], {"k": ("b", "c")}], ["a", "b", "c"]), ([pl, "z"], [pl, "z"]), (("t",), ["t"]), ({"k1": "v1", "k2": {"k3": "v3"}}, ["v1", "v3"]),
        # a mapping that is not a dict (read-only view, user-defined Mapping): still its values, never its keys
        (types.MappingProxyType({"name": "f1"}), ["f1"]), ([types.MappingProxyType({"k": ["f2", "f3"]})], ["f2", "f3"]),
    ]
    bad = []
    for shape, want in witnesses:
        try:
            got = interp.call(fl, (shape,))
        except (Raised, Unsupported) as exc:
            got = f"<{exc}>"
        if got != want:
            bad.append((repr(shape)[:40], got if isinstance(got, str) else repr(got)[:60], want if not want or isinstance(want[0], str) else "[pathlike, 'z']"))
    r.check(not bad, con + "::witness-shapes", f"{len(witnesses)} container shapes (string, list, nested, named, empty groups, path objects) flatten to their path lists",
            f"_flatten maps {bad[:3]} (shape, got, expected): the set of declared files depends on how they are grouped (or names are taken for files)", fl.where)
    kinds = ["leaf (str / PathLike)", "mapping (values only)", "iterable (every element)"]
    for k in kinds:
        r.ok(con + "::" + k.split(" ")[0], k + " covered by the witness shapes", fl.where)
    tgt = idx.cls(f"{CORE}:Target")
    WD = tok("WD")
    def fresh_target():
        o = Obj("target", **{"__class__": tgt})
        # fields the class declares besides the ones given here (caches, counters) get their declared defaults
        interp._bind_fields(o, tgt, (), {"name": "T", "working_dir": WD, "inputs": {"a": ["i1", "/abs/i2"]}, "outputs": ["o1", ["o2"]], "protect": {"p1"},
                                         "options": {}, "spec": "", "group": None})
        return o
    obj = fresh_target()
    n = lambda p: p if p.startswith("/") else tok("abs:" + WD + "/" + p)
    for meth, want in (("flattened_inputs", [n("i1"), "/abs/i2"]), ("flattened_outputs", [n("o1"), n("o2")]), ("protected", {n("p1")})):
        m = idx.method(tgt, meth)
        c2 = f"{tgt.module.relpath}::Target.{meth}"
        if m is None:
            r.violation(c2, f"Target.{meth} not found", tgt.where)
            continue
        try:
            got = interp.call(m, (), {}, self_obj=obj)
        except (Raised, Unsupported) as exc:
            got = f"<{exc}>"
        from .evalhelpers import anchored_norm
        rels = {"flattened_inputs": ["i1", None], "flattened_outputs": ["o1", "o2"], "protected": ["p1"]}[meth]

        def same(g, w):
            if not isinstance(g, (list, set)) or type(g) is not type(w) or len(g) != len(w):
                return False
            gl = list(g) if isinstance(g, list) else sorted(g)
            return all((x == "/abs/i2") if rel is None else anchored_norm(x, WD, rel) for x, rel in zip(gl, rels))
        r.check(same(got, want), c2, "= normalised flattening of its own attribute against the target's working directory",
                f"Target.{meth} yields {str(got)[:90]} for inputs={{'a': ['i1', '/abs/i2']}}, outputs=['o1', ['o2']], protect={{'p1'}}: it must be the normalised "
                "flattening of its own attribute", m.where)
        # the accessor reflects the attribute as it is NOW: targets are mutable, a workflow may extend a list after the paths were first asked for
        if same(got, want):
            o2 = fresh_target()
            attr = {"flattened_inputs": "inputs", "flattened_outputs": "outputs", "protected": "protect"}[meth]
            try:
                first = interp.call(m, (), {}, self_obj=o2)
                cur = getattr(o2, attr)
                if isinstance(cur, dict):
                    cur["late"] = "/abs/late"
                elif isinstance(cur, list):
                    cur.append("/abs/late")
                else:
                    cur.add("/abs/late")
                second = interp.call(m, (), {}, self_obj=o2)
                stale = "/abs/late" not in list(second)
            except (Raised, Unsupported) as exc:
                stale, second = False, f"<{exc}>"
            r.check(not stale, c2 + "::current", "a path added to the attribute after the first call shows up in the next call (nothing is memoised per target)",
                    f"after Target.{meth}() was called once, adding '/abs/late' to .{attr} in place is not reflected by the next call ({str(second)[:80]}): the flattened paths "
                    "are memoised per target, so a graph rebuilt after the change keeps the old edges, producers and validation verdict", m.where)
    # declared paths are file NAMES, taken literally: brackets, `*` and `?` are legal in file names (`counts[raw].txt`, `a*b.txt`) and name exactly that file
    import fnmatch as _fn
    import posixpath as _pp
    odd = ["counts[raw].txt", "a*b.txt", "what?.log", "plain.txt"]
    disk = ["/proj/" + p_ for p_ in odd] + ["/proj/countsr.txt", "/proj/axxb.txt"]

    def g_glob(pattern, *a, **k):
        return [f_ for f_ in disk if _fn.fnmatchcase(f_, str(pattern))]
    interp_g = PureInterp(ctx, hooks={"glob.glob": g_glob, "glob.iglob": lambda p_, *a, **k: iter(g_glob(p_)), "attr:glob": lambda recv, pat: iter(g_glob(_pp.join(str(recv), pat))),
                                      "os.path.exists": lambda p_: str(p_) in disk, "os.path.isfile": lambda p_: str(p_) in disk, "os.path.lexists": lambda p_: str(p_) in disk})
    og = Obj("target", **{"__class__": tgt})
    interp_g._bind_fields(og, tgt, (), {"name": "T", "working_dir": "/proj", "inputs": list(odd), "outputs": list(odd), "protect": set(odd), "options": {}, "spec": "", "group": None})
    for meth in ("flattened_inputs", "flattened_outputs", "protected"):
        m = idx.method(tgt, meth)
        if m is None:
            continue
        try:
            got = interp_g.call(m, (), {}, self_obj=og)
            got_s = sorted(str(x) for x in got) if isinstance(got, (list, set, tuple, frozenset)) else repr(got)
        except Raised as exc:
            got_s = f"<raises {exc.kind}>"
        except Unsupported as exc:
            r.info(f"{tgt.module.relpath}::Target.{meth}::literal-names", f"not evaluated ({exc})")
            continue
        want_s = sorted("/proj/" + p_ for p_ in odd)
        r.check(got_s == want_s, f"{tgt.module.relpath}::Target.{meth}::literal-names", "file names with brackets, `*` and `?` are taken literally",
                f"Target.{meth} of a target declaring the files {odd} (all of which exist, next to countsr.txt and axxb.txt) yields {got_s}: declared names are treated as "
                "patterns, so `counts[raw].txt` no longer names itself (a character class that matches `countsr.txt`) - a protected file loses its protection, an output is not the file the target wrote", m.where)


def _one_snapshot_structural(ctx, r):
    idx = ctx.index
    cfs = idx.cls(f"{CORE}:CachedFilesystem")
    lk = idx.method(cfs, "_lookup_file")
    con = f"{cfs.module.relpath}::CachedFilesystem"
    class _LkSem(Semantics):
        def may_raise(self, node, state):
            out = []
            if isinstance(node, ast.AST):
                for c in _calls(node):
                    if isinstance(c.func, (ast.Name, ast.Attribute)) and (self.index.canon(c.func, self.module) or "") in ("os.stat", "os.lstat", "os.path.getmtime"):
                        out.append("builtins.FileNotFoundError")
            return out

        def effect(self, node, state):
            if isinstance(node, tuple):
                return state
            for c in _calls(node):
                if isinstance(c.func, (ast.Name, ast.Attribute)) and (self.index.canon(c.func, self.module) or "") in ("os.stat", "os.lstat", "os.path.getmtime", "os.path.exists"):
                    state = state.with_fact("stats", state.facts.get("stats", 0) + 1).with_fact("stat_when_cached", state.facts.get("cached"))
            return state

        def test_hook(self, expr, state):
            e, neg = expr, False
            if isinstance(e, ast.UnaryOp) and isinstance(e.op, ast.Not):
                e, neg = e.operand, True
            if isinstance(e, ast.Compare) and len(e.ops) == 1 and isinstance(e.ops[0], (ast.In, ast.NotIn)) and "_cache" in ast.unparse(e.comparators[0]):
                inn = isinstance(e.ops[0], ast.In)
                return [((True ^ neg), state.with_fact("cached", inn)), ((False ^ neg), state.with_fact("cached", not inn))]
            return None

    stats_ok = lk is not None
    n_stat_paths = 0
    if lk is not None:
        louts = Explorer(_LkSem(idx, lk)).run(State())
        for o in louts:
            if o.state.facts.get("stats"):
                n_stat_paths += 1
                if o.state.facts.get("stat_when_cached") is not False or o.state.facts["stats"] > 1:
                    stats_ok = False
    other = [m for m in cfs.methods.values() if m is not lk for c in _calls(m.node) if isinstance(c.func, (ast.Name, ast.Attribute))
             and (idx.canon(c.func, m.module) or "") in ("os.stat", "os.lstat", "os.path.getmtime", "os.path.exists")]
    r.check(stats_ok and n_stat_paths >= 1 and not other, con + "::stat-once", f"{n_stat_paths} path(s) stat the file, all on the not-yet-cached branch, once",
            "a file can be stat'ed more than once per invocation (or outside the cache lookup): existence and modification time of one file may come from different moments",
            cfs.where)
    mt = any(isinstance(n, ast.Attribute) and n.attr == "st_mtime" for m in cfs.methods.values() for n in ast.walk(m.node)) or any(
        (idx.canon(c.func, m.module) or "") == "os.path.getmtime" for m in cfs.methods.values() for c in _calls(m.node) if isinstance(c.func, (ast.Name, ast.Attribute)))
    r.check(mt, con + "::mtime", "modification time = st_mtime", "the recorded time is not the file's modification time (st_mtime)", cfs.where)
    nofollow = []
    for m in cfs.methods.values():
        for c in _calls(m.node):
            cn = idx.canon(c.func, m.module) if isinstance(c.func, (ast.Name, ast.Attribute)) else None
            if cn in ("os.lstat", "os.path.lexists") or (isinstance(c.func, ast.Attribute) and c.func.attr == "lstat") or any(
                    k.arg == "follow_symlinks" and isinstance(k.value, ast.Constant) and k.value.value is False for k in c.keywords):
                nofollow.append(c)
    r.check(not nofollow, con + "::follows-links", "existence and time are those of the file a path denotes (symbolic links are followed)",
            "the snapshot stats the link itself, not the file it points to: a modified source that is declared through a symbolic link never makes its consumers stale",
            loc(nofollow[0], cfs.module) if nofollow else cfs.where)
    for key in ("gwf.plugins.status:status", "gwf.plugins.run:run"):
        f = idx.func(key)
        try:
            from ..inline import inlined
            f = inlined(ctx, f)   # private helpers such as _load_graph(ctx) are part of the command
        except Exception:
            pass
        ctor = [n for n in walk_no_nested(f.node) if isinstance(n, ast.Assign) and isinstance(n.value, ast.Call)
                and idx.canon(n.value.func, f.module) == f"{CORE}.CachedFilesystem"]
        c2 = f"{f.module.relpath}::{f.qual}::fs"
        if len(ctor) != 1:
            r.violation(c2, f"{len(ctor)} CachedFilesystem objects are created (exactly one snapshot per command is required)", f.where)
            continue
        var = ctor[0].targets[0].id
        to_graph = to_sched = False
        for c in _calls(f.node):
            cn = idx.canon(c.func, f.module) if isinstance(c.func, (ast.Name, ast.Attribute)) else None
            args = [dotted(a) for a in c.args] + [dotted(k.value) for k in c.keywords]
            if cn and cn.endswith("Graph.from_targets") and var in args:
                to_graph = True
            if cn in ("gwf.scheduling.get_status_map", "gwf.scheduling.submit_workflow") and var in args:
                to_sched = True
        r.check(to_graph and to_sched, c2, "one filesystem snapshot shared by graph construction and the scheduler",
                "graph construction and the staleness decision do not share one filesystem snapshot", f.where)
    from .shared import rule_per_instance_state
    rule_per_instance_state(ctx, r, [f"{CORE}:CachedFilesystem"], "two decisions in one process (status, then run) would share one stat snapshot across what should be independent snapshots")


class HasChangedSem(Semantics):
    def __init__(self, ctx, finfo):
        super().__init__(ctx.index, finfo)
        self.saved = set()
        self.current = set()
        for n in walk_no_nested(finfo.node):
            if isinstance(n, ast.Assign) and isinstance(n.targets[0], ast.Name):
                t = ast.unparse(n.value)
                if ".get(" in t and "hashes" in t:
                    self.saved.add(n.targets[0].id)
                if "hash_spec(" in t:
                    self.current.add(n.targets[0].id)

    def domain(self, text):
        return ("NONE", "HASH") if text in self.saved else None

    def truthy(self, v):
        return v != "NONE"

    def const(self, expr, state):
        t = ast.unparse(expr)
        if t in state.vars:
            return state.vars[t]
        if isinstance(expr, ast.Constant) and expr.value is None:
            return frozenset(["NONE"])
        return None

    def assign(self, t, v, s):
        return None

    def may_raise(self, node, state):
        return []

    def test_hook(self, expr, state):
        if isinstance(expr, ast.Compare) and len(expr.ops) == 1 and isinstance(expr.ops[0], (ast.Eq, ast.NotEq)):
            names = {dotted(expr.left), dotted(expr.comparators[0])}
            if names & self.saved and names & self.current:
                eq = isinstance(expr.ops[0], ast.Eq)
                return [(True, state.with_fact("equal", eq)), (False, state.with_fact("equal", not eq))]
        return None


def rule_spec_clause(ctx, r):
    """Spec clause: a target is 'changed' unless a record exists under its name that equals the hash of its current spec; update records,
    invalidate erases; with hashing off nothing is ever 'changed'.  Decided by scenario evaluation of the (pure) store methods."""
    from .evalhelpers import eval_spec_store
    idx = ctx.index
    steps, ci = eval_spec_store(ctx)
    con = f"{ci.module.relpath}::{ci.qual}"
    for name, got, want, ok in steps:
        r.check(ok, f"{con}::{name}", f"{name}: {want}", f"spec-hash store, step `{name}`: got {str(got)[:60]!r}, expected {want}", ci.where)
    nsh = idx.cls(f"{CORE}:NoopSpecHashes")
    nh = idx.method(nsh, "has_changed")
    rets = [n for n in walk_no_nested(nh.node) if isinstance(n, ast.Return)]
    r.check(all(n.value is None or (isinstance(n.value, ast.Constant) and n.value.value is None) for n in rets),
            f"{nh.module.relpath}::{nh.qual}", "with hashing off a spec edit never makes a target stale (returns None)",
            "NoopSpecHashes.has_changed can report a change: with hashing disabled a spec edit would cause re-runs", nh.where)
    fsh = idx.cls(f"{CORE}:FileSpecHashes")
    load = idx.method(fsh, "__attrs_post_init__") or idx.method(fsh, "__init__")
    from .evalhelpers import load_path
    lp = load_path(ctx, f"{CORE}:FileSpecHashes", "hashes")
    r.check(lp is not None and lp.endswith("spec-hashes.json"), f"{fsh.module.relpath}::FileSpecHashes.load", "records of earlier invocations are loaded from the store's file",
            "the recorded hashes of earlier invocations are not loaded: every target looks never-recorded", fsh.where)
    from .persist import rule_store_load
    rule_store_load(ctx, r, ("spec hashes",))


def rule_one_snapshot(ctx, r):
    from .evalhelpers import cached_witness, cached_fs_witness, report_witness
    w = cached_witness(ctx, "cached-fs", cached_fs_witness)
    ctx.guarded(r, _one_snapshot_structural, w, "src/gwf/core.py::CachedFilesystem", pred=lambda c: "CachedFilesystem" in c)
    report_witness(r, "src/gwf/core.py::CachedFilesystem::witnesses", "src/gwf/core.py:1", w, "one stat per path and instance, st_mtime of the file a path denotes, missing files, independent instances")


def _sr_witness(ctx):
    from .evalhelpers import cached_witness, should_run_witness
    return cached_witness(ctx, "should_run", should_run_witness)


def rule_should_run_table(ctx, r):
    ctx.structural_or_witness(r, _should_run_table_structural, lambda: _sr_witness(ctx), "src/gwf/scheduling.py::should_run", both=True)


def rule_guard_order(ctx, r):
    ctx.structural_or_witness(r, _guard_order_structural, lambda: _sr_witness(ctx), "src/gwf/scheduling.py::should_run", both=True)


def rule_comparison(ctx, r):
    ctx.structural_or_witness(r, _comparison_structural, lambda: _sr_witness(ctx), "src/gwf/scheduling.py::should_run", both=True)


def run(ctx):
    r1 = ctx.rule("R1", "path table of should_run: up to date exactly when spec unchanged, every output exists, at least one output, no input strictly newer")
    rule_should_run_table(ctx, r1)
    r2 = ctx.rule("R2", "the staleness test is max(mtime of ALL inputs) > min(mtime of ALL outputs), strict", min_instances=3)
    rule_comparison(ctx, r2)
    r3 = ctx.rule("R3", "existence of all outputs is established before their times are read; the spec test comes first", min_instances=3)
    rule_guard_order(ctx, r3)
    r4 = ctx.rule("R4", "decision and effect code read target files only through the flattened accessors (shape independence)")
    rule_shape_independence(ctx, r4)
    r5 = ctx.rule("R5", "flattening is total over str/PathLike, mappings (values) and iterables; accessors map to their own attribute", min_instances=6)
    rule_flatten(ctx, r5)
    from .c03 import rule_norm_path
    rule_norm_path(ctx, r5)
    r6 = ctx.rule("R6", "one stat per path and one filesystem snapshot per command", min_instances=4)
    rule_one_snapshot(ctx, r6)
    r7 = ctx.rule("R7", "spec clause: unchanged iff a record exists and equals the hash of the current spec; off => never stale", min_instances=3)
    rule_spec_clause(ctx, r7)
    rule_hash_after_accept(ctx, r7)
    from .shared import rule_config_switch
    rule_config_switch(ctx, r7, "use_spec_hashes", "get_spec_hashes chooses between the file-backed and the no-op hash store")
    from .evalhelpers import cli_spec_switch_witness, cached_witness as _cw, report_witness as _rw
    _rw(r7, "src/gwf/cli.py::main::spec-switch", "src/gwf/cli.py:1", _cw(ctx, "cli-spec-switch", cli_spec_switch_witness),
        "the hash store the commands get follows use_spec_hashes of the project configuration (3 settings x 2 environments)")
    # "unchanged since it was last submitted": the record made at submission must survive however that invocation ended
    from .persist import rule_exit_persists, rule_close_writes
    rule_exit_persists(ctx, r7, ("spec hashes",))
    rule_close_writes(ctx, r7, ("spec hashes",))
    from .persist import rule_table_ownership
    rule_table_ownership(ctx, r7, ("spec hashes",))
    # "...or touched": `gwf touch` records the current spec of every target of the cone, also of those whose files were in order already
    from .evalhelpers import cached_witness, report_witness, touch_command_witness
    report_witness(r7, "src/gwf/plugins/touch.py::touch::hashes", "src/gwf/plugins/touch.py:1", cached_witness(ctx, "touch_command_witness", touch_command_witness),
                   "`gwf touch` records the spec hash of every target of the selected cone", select=lambda d: "spec hash" in d)
    # status mapping: completed <=> not should_run for UNKNOWN/COMPLETED backend states with no pending deps comes from the C02 table
    r8 = ctx.rule("R8", "no job / finished job and no pending dependency: shown completed and not submitted iff should_run is False")
    from .schedtable import rule_decision_table
    rule_decision_table(ctx, r8)
    # ... where "finished job" is what the scheduler says about the target's OWN job (each tracked id gets the state of its own job; C08.R1/R2)
    from .shared import import_rules
    import_rules(ctx, r8, "C08", only={"R1", "R2"})

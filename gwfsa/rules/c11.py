"""C11 - local pool: a task's process starts only after all its dependencies completed successfully."""
import ast

from ..index import walk_no_nested, loc
from ..paths import RETURN, Explorer, State
from .c13 import rule_exit_status
from .localpool import FINAL, LOCAL, explore_task, scheduler_info, witness


def _run_structural(ctx):
    fi, sem, outs, steps = explore_task(ctx)
    construct = f"{fi.module.relpath}::{fi.qual}"
    starts = [e for e in sem.events if e[0] == "start"]

    r1 = ctx.rule("R1", "process start is dominated by wait-for-all-dependencies and the all-completed check", min_instances=2)
    from .localpool import rule_enqueue_binding
    rule_enqueue_binding(ctx, r1)
    if not starts:
        r1.violation(construct, "no process creation found in the task coroutine", fi.where)
    n_dep_starts = 0
    reported = set()
    for _k, node, st, facts in starts:
        if facts["deps_at_start"] == ("EMPTY",):
            continue  # no dependencies on this path
        n_dep_starts += 1
        if not facts["waited_at_start"] and "wait" not in reported:
            reported.add("wait")
            why = st.facts.get("bad_wait")
            r1.violation(construct + "::wait", "the process can start with dependencies without having waited for ALL of them to finish"
                         + (f" ({why})" if why else ""), loc(node, fi.module), witness(st, fi))
        if not facts["depcheck_at_start"] and "check" not in reported:
            reported.add("check")
            r1.violation(construct + "::check", "the process can start although no check established that every dependency is COMPLETED "
                         "(a failed, killed or cancelled dependency does not stop the dependent)", loc(node, fi.module), witness(st, fi))
    if n_dep_starts and "wait" not in reported:
        r1.ok(construct + "::wait", f"{n_dep_starts} abstract start state(s) with dependencies: all after asyncio.wait(all deps, ALL_COMPLETED, no timeout)", fi.where)
    if n_dep_starts and "check" not in reported:
        r1.ok(construct + "::check", "all after the loop that lets only COMPLETED dependencies pass", fi.where)
    if starts and not n_dep_starts:
        r1.violation(construct, "no start state with dependencies was explored", fi.where)
    # the check loop must not leave early without deciding (break) and must range over all deps
    if sem.deps_rebound is not None:
        r1.violation(construct + "::deps-rebound", f"the dependency list is rebound to `{ast.unparse(sem.deps_rebound)[:90]}`: "
                     "ids dropped here are neither waited for nor checked", loc(sem.deps_rebound, fi.module))
    elif not sem.dep_loops and not sem.dep_next_vars:
        r1.violation(construct + "::loop", "no loop over all dependency ids found: dependency states are not examined one by one", fi.where)
    for n in walk_no_nested(fi.node):
        if isinstance(n, (ast.For, ast.AsyncFor)) and id(n) in sem.dep_loops:
            brk = [b for b in ast.walk(n) if isinstance(b, ast.Break) and not getattr(b, "_from_return", False)]
            r1.check(not brk, construct + "::loop", "dependency loop has no break",
                     "the dependency loop can `break`: dependencies after the first are not examined", loc(n, fi.module))

    r2 = ctx.rule("R2", "a task whose dependency did not complete ends in that dependency's (non-completed, final) state without starting")
    inherit = [o for o in outs if o.kind == RETURN and not o.state.facts.get("started") and not o.state.facts.get("cause")]
    if not inherit:
        r2.violation(construct, "no path leaves the coroutine before starting the process: failed dependencies are never inherited", fi.where)
    for o in inherit:
        vals = o.state.vars.get(sem.own_state, frozenset())
        if "COMPLETED" in vals or not vals <= FINAL:
            r2.violation(construct + "::inherit", f"a task skipped because of its dependency ends as {'/'.join(sorted(vals))} "
                         "(must be the dependency's failed/killed/cancelled state)", fi.where, witness(o.state, fi))
            break
    else:
        if inherit:
            r2.ok(construct + "::inherit", f"{len(inherit)} skip path(s): own state := dependency state within {sorted(FINAL - {'COMPLETED'})}", fi.where)
    # the inherited value is the dependency's own state (failed after failure, cancelled after cancellation)
    not_inh = [o for o in inherit if not o.state.facts.get("inherited")]
    r2.check(inherit and not not_inh, construct + "::inherit-value", "own state is assigned from the examined dependency's state",
             "the skipped task's state is not taken from the dependency that did not complete (failed after a failure, cancelled after a cancellation)", fi.where,
             witness(not_inh[0].state, fi) if not_inh else None)

    r3 = ctx.rule("R3", "a dependency counts as completed only if its process exited with status 0")
    rule_exit_status(ctx, r3, fi, sem, outs)


def run(ctx):
    """Structural rules first; the task coroutine evaluated under fault and cancellation injection decides where they do not recognise the shape."""
    from ..loader import AnalysisError
    from .evalhelpers import cached_witness, task_coroutine_witness, cancel_task_witness
    wit = cached_witness(ctx, "task", task_coroutine_witness)
    n0 = len(ctx.rules)
    try:
        _run_structural(ctx)
    except (AnalysisError, Exception) as exc:
        if isinstance(exc, (NameError, ImportError, UnboundLocalError)):
            raise       # a defect of the checker itself, never a reason to fall back
        if wit[2] is not None:
            raise  # neither the structural rules nor the evaluation can follow this code
        r0 = ctx.rule("R0", "the structural rules cannot follow this shape of the task coroutine; decided by evaluation under fault and cancellation injection")
        r0.info("src/gwf/backends/local.py::Scheduler.try_handle_task", f"structural analysis stopped: {type(exc).__name__}: {str(exc)[:120]}")
        for r in ctx.rules[n0:]:
            r.min_instances = 0
    rules = ctx.rules[n0:]
    r4 = ctx.rule("R4", "the dependencies a task has are the ones gwf submitted it with: ids (0 included) travel unchanged from TrackingBackend.submit through LocalOps/Client to the pool")
    from .c02 import rule_id_lookup
    from .evalhelpers import local_client_witness, report_witness
    rule_id_lookup(ctx, r4)
    report_witness(r4, "src/gwf/backends/local.py::LocalOps.submit_target", "src/gwf/backends/local.py:1", cached_witness(ctx, "local-client", local_client_witness),
                   "LocalOps.submit_target([0, 3]) sends one enqueue_task with deps=[0, 3] and returns the pool's id", select=lambda d: "prerequisites" in d or "submit_target returns" in d)
    # ... and the list gwf hands over names every prerequisite that is not complete - also one that was just submitted again after it failed or was cancelled (C02.R1/R2)
    from .shared import import_rules
    import_rules(ctx, r4, "C02", only={"R1", "R2"})
    from .evalhelpers import server_session_witness
    report_witness(r4, "src/gwf/backends/local.py::Server.handle_connection::deps", "src/gwf/backends/local.py:1", cached_witness(ctx, "server-session", server_session_witness),
                   "the prerequisite ids of an enqueue request reach Scheduler.enqueue_task as the re-iterable list the client sent", select=lambda d: "prerequisite" in d or "deps" in d)
    pred = lambda c: any(k in c for k in ("try_handle_task", "_gentle_kill", "create_subprocess", "kill"))
    ctx.reconcile(rules, pred, wit, "src/gwf/backends/local.py::Scheduler.try_handle_task", "src/gwf/backends/local.py:1")
